#!/bin/bash
# round 4: usage: collect_seeds2.sh C13 C09 ...   -- verify each agent's seeds from /tmp/wt4 and file them as <ID>-r4mN
for id in "$@"; do
  for m in m1 m2 m3; do
    [ -f /tmp/wt4/$id/_seed/$m/meta.json ] || continue
    ( /verif/tools/verify_seed.py /tmp/wt4/$id/_seed/$m $id r4$m > /tmp/vseed4_${id}_${m}.log 2>&1
      tail -1 /tmp/vseed4_${id}_${m}.log | cut -c1-300 ) &
  done
  wait
done
for id in "$@"; do
  n=$(ls -d /verif/seeded/$id-r4m* 2>/dev/null | wc -l)
  echo "$id: $n round-4 seeds filed"
done
