#!/venv/bin/python
"""Systematic mutant sweep (development aid, not a registered check): for every function a property's check analyses,
generate first-order syntactic mutants (comparison/boolean/negation/deletion/constant/arithmetic/keyword/with-removal),
run the property's check on an overlay with that one mutant and list the SURVIVORS (mutants the check stays silent on).
Survivors are triaged by hand: equivalent or property-irrelevant mutants are expected, a behaviour-breaking survivor is
a gap in the check.

usage: automutate.py C09 [--func substr] [--ops CMP,BOOL,...] [--out file.json] [--max N]
"""
import argparse
import ast
import concurrent.futures as cf
import copy
import json
import os
import re
import shutil
import subprocess
import sys
import tempfile

sys.path.insert(0, "/verif")
from lbsa.selftest import overlay  # noqa: E402

REPO = "/repo"

CMP_ALT = {ast.Lt: [ast.LtE, ast.GtE], ast.LtE: [ast.Lt, ast.Gt], ast.Gt: [ast.GtE, ast.LtE], ast.GtE: [ast.Gt, ast.Lt],
           ast.Eq: [ast.NotEq], ast.NotEq: [ast.Eq], ast.Is: [ast.IsNot], ast.IsNot: [ast.Is], ast.In: [ast.NotIn], ast.NotIn: [ast.In]}
BIN_ALT = {ast.Add: ast.Sub, ast.Sub: ast.Add, ast.Mult: ast.FloorDiv, ast.FloorDiv: ast.Mult, ast.Mod: ast.FloorDiv, ast.LShift: ast.RShift,
           ast.RShift: ast.LShift, ast.BitAnd: ast.BitOr, ast.BitOr: ast.BitAnd, ast.Div: ast.Mult, ast.BitXor: ast.BitAnd}


class Src:
    def __init__(self, path):
        self.raw = open(path, "rb").read()
        self.tree = ast.parse(self.raw)
        self.starts = [0]
        for i, b in enumerate(self.raw):
            if b == 10:
                self.starts.append(i + 1)

    def off(self, line, col):
        return self.starts[line - 1] + col

    def span(self, node):
        return self.off(node.lineno, node.col_offset), self.off(node.end_lineno, node.end_col_offset)


def is_log_call(node):
    if isinstance(node, ast.Await):
        node = node.value
    if isinstance(node, ast.Call):
        f = node.func
        if isinstance(f, ast.Attribute) and isinstance(f.value, ast.Name) and f.value.id in ("log", "logger", "logging", "warnings"):
            return True
    return False


def only_logs(stmts):
    return bool(stmts) and all(isinstance(x, ast.Expr) and is_log_call(x.value) for x in stmts)


def gen(src, fn):
    """yield (start, end, replacement_bytes, op, description)"""
    out = []
    bind = {}
    for n in ast.walk(fn):
        if isinstance(n, ast.Name) and isinstance(n.ctx, ast.Store):
            bind[n.id] = bind.get(n.id, 0) + 1
    for a in ast.walk(fn.args):
        if isinstance(a, ast.arg):
            bind[a.arg] = bind.get(a.arg, 0) + 1

    def rep(node, new_node, op, desc):
        try:
            txt = ast.unparse(new_node)
        except Exception:
            return
        s, e = src.span(node)
        if isinstance(node, ast.expr):
            txt = "(" + txt + ")"
        out.append((s, e, txt.encode(), op, f"L{node.lineno} {desc}"))

    def rep_text(node, txt, op, desc):
        s, e = src.span(node)
        out.append((s, e, txt.encode(), op, f"L{node.lineno} {desc}"))

    def short(n):
        t = ast.unparse(n)
        return t if len(t) < 90 else t[:87] + "..."

    def visit(node, in_skip=False):
        for child in ast.iter_child_nodes(node):
            if isinstance(child, (ast.FunctionDef, ast.AsyncFunctionDef, ast.ClassDef, ast.Lambda)) and child is not fn:
                # nested defs are analysed as their own functions when the check asks for them
                visit(child, in_skip)
                continue
            skip = in_skip or isinstance(child, ast.JoinedStr)
            if isinstance(child, ast.If) and only_logs(child.body) and (not child.orelse or only_logs(child.orelse)):
                continue
            if isinstance(child, ast.stmt):
                stmt(child)
                if isinstance(child, ast.Expr) and (is_log_call(child.value) or isinstance(child.value, ast.Constant)):
                    continue
                if isinstance(child, ast.Raise):
                    continue     # never mutate the construction of the exception object
                if isinstance(child, ast.Assert):
                    expr(child.test)
                    visit(child.test, skip)
                    continue
            elif isinstance(child, ast.expr) and not skip:
                expr(child)
            visit(child, skip)

    def stmt(s):
        if isinstance(s, ast.Expr):
            if isinstance(s.value, ast.Constant) or is_log_call(s.value):
                return
            rep_text(s, "pass", "DEL", f"delete `{short(s)}`")
        elif isinstance(s, (ast.Assign, ast.AugAssign)):
            tg = s.targets if isinstance(s, ast.Assign) else [s.target]
            names = [n for t in tg for n in ast.walk(t) if isinstance(n, ast.Name) and isinstance(n.ctx, ast.Store)]
            if isinstance(s, ast.Assign) and names and all(bind.get(n.id, 0) <= 1 for n in names) and all(isinstance(t, (ast.Name, ast.Tuple)) for t in tg):
                return      # deleting the only binding of a name is a NameError, not a subtle change
            rep_text(s, "pass", "DEL", f"delete `{short(s)}`")
        elif isinstance(s, ast.Raise):
            rep_text(s, "pass", "DEL", f"delete `{short(s)}`")
        elif isinstance(s, ast.Assert):
            rep_text(s, "pass", "DEL", f"delete `{short(s)}`")
        elif isinstance(s, ast.Return):
            if s.value is not None and not isinstance(s.value, ast.Constant):
                rep_text(s, "return None", "RET", f"`{short(s)}` -> return None")
            rep_text(s, "pass", "DEL", f"delete `{short(s)}`")
        elif isinstance(s, (ast.Break, ast.Continue)):
            rep_text(s, "pass", "DEL", f"delete `{short(s)}`")
        elif isinstance(s, (ast.If, ast.While)):
            n = ast.UnaryOp(op=ast.Not(), operand=s.test)
            rep(s.test, n, "NEG", f"negate test `{short(s.test)}`")
            if isinstance(s, ast.If):
                rep(s.test, ast.Constant(True), "NEG", f"test `{short(s.test)}` -> True")
                rep(s.test, ast.Constant(False), "NEG", f"test `{short(s.test)}` -> False")
                x = ast.Call(func=ast.Name("lbsa_extra_condition", ast.Load()), args=[], keywords=[])
                rep(s.test, ast.BoolOp(op=ast.And(), values=[s.test, x]), "NARROW", f"test `{short(s.test)}` and <extra>")
                rep(s.test, ast.BoolOp(op=ast.Or(), values=[s.test, x]), "WIDEN", f"test `{short(s.test)}` or <extra>")
        elif isinstance(s, (ast.With, ast.AsyncWith)):
            b0 = s.body[0]
            if b0.lineno > s.lineno and all(i.optional_vars is None for i in s.items):
                st = src.off(s.lineno, s.col_offset)
                en = src.off(b0.lineno, b0.col_offset)
                txt = "if True:\n" + " " * b0.col_offset
                out.append((st, en, txt.encode(), "WITH", f"L{s.lineno} drop `with {short(s.items[0].context_expr)}`"))
        elif isinstance(s, ast.Try):
            for h in s.handlers:
                if isinstance(h.type, ast.Tuple) and len(h.type.elts) > 1:
                    for i, e in enumerate(h.type.elts):
                        n = ast.Tuple(elts=[x for j, x in enumerate(h.type.elts) if j != i], ctx=ast.Load())
                        rep(h.type, n, "EXC", f"handler no longer catches {short(e)}")

    def expr(e):
        if isinstance(e, ast.Compare):
            for i, op in enumerate(e.ops):
                for alt in CMP_ALT.get(type(op), []):
                    n = copy.copy(e)
                    n.ops = list(e.ops)
                    n.ops[i] = alt()
                    rep(e, n, "CMP", f"`{short(e)}` -> `{short(n)}`")
        elif isinstance(e, ast.BoolOp):
            for i in range(len(e.values)):
                vals = [v for j, v in enumerate(e.values) if j != i]
                n = vals[0] if len(vals) == 1 else ast.BoolOp(op=e.op, values=vals)
                rep(e, n, "BOOL", f"`{short(e)}` drop operand `{short(e.values[i])}`")
            n = ast.BoolOp(op=ast.Or() if isinstance(e.op, ast.And) else ast.And(), values=e.values)
            rep(e, n, "BOOL", f"`{short(e)}` and<->or")
        elif isinstance(e, ast.UnaryOp) and isinstance(e.op, ast.Not):
            rep(e, e.operand, "NEG", f"`{short(e)}` drop not")
        elif isinstance(e, ast.IfExp):
            n = ast.IfExp(test=e.test, body=e.orelse, orelse=e.body)
            rep(e, n, "NEG", f"`{short(e)}` swap arms")
        elif isinstance(e, ast.Constant):
            v = e.value
            if v is True or v is False:
                rep(e, ast.Constant(not v), "CONST", f"{v} -> {not v}")
            elif isinstance(v, int) and abs(v) < 2 ** 40:
                rep(e, ast.Constant(v + 1), "CONST", f"{v} -> {v + 1}")
                if v != 0:
                    rep(e, ast.Constant(v - 1), "CONST", f"{v} -> {v - 1}")
        elif isinstance(e, ast.BinOp):
            alt = BIN_ALT.get(type(e.op))
            if alt and not (isinstance(e.op, ast.Mod) and isinstance(e.left, ast.Constant) and isinstance(e.left.value, (str, bytes))):
                n = ast.BinOp(left=e.left, op=alt(), right=e.right)
                rep(e, n, "ARITH", f"`{short(e)}` -> `{short(n)}`")
        elif isinstance(e, ast.Call):
            for i, k in enumerate(e.keywords):
                if k.arg is None:
                    continue
                n = copy.copy(e)
                n.keywords = [x for j, x in enumerate(e.keywords) if j != i]
                rep(e, n, "KW", f"`{short(e)}` drop {k.arg}=")
            if len(e.args) >= 2 and not any(isinstance(a, ast.Starred) for a in e.args[:2]) and ast.dump(e.args[0]) != ast.dump(e.args[1]):
                n = copy.copy(e)
                n.args = [e.args[1], e.args[0]] + list(e.args[2:])
                rep(e, n, "ARG", f"`{short(e)}` swap first two args")
        elif isinstance(e, ast.Subscript) and isinstance(e.slice, ast.Slice) and isinstance(e.ctx, ast.Load):
            sl = e.slice
            if sl.lower is not None:
                n = copy.copy(e)
                n.slice = ast.Slice(lower=None, upper=sl.upper, step=sl.step)
                rep(e, n, "SLICE", f"`{short(e)}` drop lower")
            if sl.upper is not None:
                n = copy.copy(e)
                n.slice = ast.Slice(lower=sl.lower, upper=None, step=sl.step)
                rep(e, n, "SLICE", f"`{short(e)}` drop upper")
        elif isinstance(e, ast.Await) and isinstance(e.value, ast.Call):
            rep(e, e.value, "AWAIT", f"`{short(e)}` drop await")

    visit(fn)
    return out


MIRROR = {ast.Lt: ast.Gt, ast.Gt: ast.Lt, ast.LtE: ast.GtE, ast.GtE: ast.LtE, ast.Eq: ast.Eq, ast.NotEq: ast.NotEq}


def gen_twins(src, fn):
    """behaviour-preserving rewrites: the check must stay silent on every one of them"""
    out = []
    params = {a.arg for a in ast.walk(fn.args) if isinstance(a, ast.arg)}
    declared = {n for x in ast.walk(fn) if isinstance(x, (ast.Global, ast.Nonlocal)) for n in x.names}
    nested_params = {a.arg for x in ast.walk(fn) if x is not fn and isinstance(x, (ast.FunctionDef, ast.AsyncFunctionDef, ast.Lambda)) for a in ast.walk(x.args) if isinstance(a, ast.arg)}
    stores = {}
    own_nested = {x.name for x in ast.walk(fn) if x is not fn and isinstance(x, (ast.FunctionDef, ast.AsyncFunctionDef, ast.ClassDef))}
    for n in ast.walk(fn):
        if isinstance(n, ast.Name) and isinstance(n.ctx, ast.Store):
            stores.setdefault(n.id, 0)
    # is fn itself nested?  then names may be free variables of an outer scope: only rename names stored here
    for name in sorted(stores):
        if name in params or name in declared or name in nested_params or name in own_nested or name == "_":
            continue
        occ = [n for n in ast.walk(fn) if isinstance(n, ast.Name) and n.id == name]
        edits = [(src.off(n.lineno, n.col_offset), src.off(n.end_lineno, n.end_col_offset), (name + "_rn").encode()) for n in occ]
        out.append((edits, "RENAME", f"L{occ[0].lineno} rename local `{name}` -> `{name}_rn` ({len(occ)} occurrences)"))
    for n in ast.walk(fn):
        if isinstance(n, ast.Compare) and len(n.ops) == 1 and type(n.ops[0]) in MIRROR and not any(isinstance(a, ast.JoinedStr) for a in ast.walk(n)):
            m = ast.Compare(left=n.comparators[0], ops=[MIRROR[type(n.ops[0])]()], comparators=[n.left])
            s, e = src.span(n)
            out.append(([(s, e, ("(" + ast.unparse(m) + ")").encode())], "MIRROR", f"L{n.lineno} `{ast.unparse(n)[:70]}` -> `{ast.unparse(m)[:70]}`"))
        if isinstance(n, ast.If) and n.orelse and not (len(n.orelse) == 1 and isinstance(n.orelse[0], ast.If)) and n.body[0].lineno > n.lineno:
            # if c: A else: B  ->  if not c: B else: A   (re-rendered with ast.unparse at the statement's indentation)
            t = n.test.operand if isinstance(n.test, ast.UnaryOp) and isinstance(n.test.op, ast.Not) else ast.UnaryOp(op=ast.Not(), operand=n.test)
            m = ast.If(test=t, body=n.orelse, orelse=n.body)
            txt = ast.unparse(m)
            ind = " " * n.col_offset
            txt = txt.replace("\n", "\n" + ind)
            s, e = src.span(n)
            if src.raw[s:s + 4] == b"elif":
                continue
            out.append(([(s, e, txt.encode())], "FLIP", f"L{n.lineno} flip arms of `if {ast.unparse(n.test)[:60]}`"))
    # LOGALL: a logging statement after every simple statement of the function at once (adjacency-based rules must not care)
    edits = []
    for n in ast.walk(fn):
        if isinstance(n, (ast.Expr, ast.Assign, ast.AugAssign, ast.AnnAssign)) and not isinstance(getattr(n, "value", None), ast.Constant) and n.col_offset > 0:
            owner = None
            for m in ast.walk(fn):
                for fld in ("body", "orelse", "finalbody"):
                    blk = getattr(m, fld, None)
                    if isinstance(blk, list) and n in blk:
                        owner = m
            if owner is None or isinstance(owner, (ast.ClassDef,)):
                continue
            ln_start = src.starts[n.lineno - 1]
            if src.raw[ln_start:src.off(n.lineno, n.col_offset)].strip():
                continue            # not the first token on its line (e.g. `if x: stmt`)
            e = src.off(n.end_lineno, n.end_col_offset)
            eol = src.raw.find(b"\n", e)
            if eol < 0 or src.raw[e:eol].strip().startswith(b";"):
                continue
            edits.append((eol, eol, b"\n" + b" " * n.col_offset + b"log.debug('lbsa twin')"))
    if edits:
        out.append((edits, "LOGALL", f"L{fn.lineno} a log.debug(...) after each of {len(edits)} simple statements"))
    first = fn.body[0]
    if isinstance(first, ast.Expr) and isinstance(first.value, ast.Constant) and len(fn.body) > 1:
        first = fn.body[1]
    if first.lineno > fn.lineno:
        s = src.off(first.lineno, first.col_offset)
        out.append(([(s, s, b"lbsa_probe = None\n" + b" " * first.col_offset)], "PAD", f"L{first.lineno} insert an unrelated statement first"))
    return out


def find_function(tree, qual_tail):
    """qual_tail: list of names from module level, `<locals>` skipped"""
    cur = [tree]
    node = tree
    for name in qual_tail:
        if name == "<locals>":
            continue
        base = name.split("@")[0]
        found = None
        cands = [n for n in ast.walk(node) if isinstance(n, (ast.FunctionDef, ast.AsyncFunctionDef, ast.ClassDef)) and n.name == base and n is not node]
        # prefer direct children
        direct = [n for n in ast.iter_child_nodes(node) if n in cands]
        pool = direct or cands
        if "@" in name:
            pool = [n for n in pool if any("setter" in ast.unparse(d) for d in getattr(n, "decorator_list", []))] or pool
        if not pool:
            return None
        found = pool[0]
        node = found
    return node if node is not tree else None


def resolve(qualname):
    parts = qualname.split(".")
    for i in range(len(parts), 0, -1):
        rel = "/".join(parts[:i]) + ".py"
        if os.path.isfile(os.path.join(REPO, rel)):
            return rel, parts[i:]
        rel2 = "/".join(parts[:i]) + "/__init__.py"
        if os.path.isfile(os.path.join(REPO, rel2)) and i < len(parts):
            # could still be a deeper module; continue only if no deeper match was found (loop goes longest-first)
            return rel2, parts[i:]
    return None, None


def run_one(job):
    pid, rel, s, e, txt, op, desc, fq = job
    scratch = tempfile.mkdtemp(prefix="lbsa_am_")
    try:
        overlay(REPO, scratch, [rel])
        p = os.path.join(scratch, rel)
        raw = open(p, "rb").read()
        if isinstance(s, list):
            new = raw
            for a, b, t in sorted(s, reverse=True):
                new = new[:a] + t + new[b:]
        else:
            new = raw[:s] + txt + raw[e:]
        try:
            ast.parse(new)
        except SyntaxError:
            return job, "syntax", ""
        open(p, "wb").write(new)
        env = dict(os.environ, PYTHONPATH="/verif", LBSA_EVIDENCE_DIR=os.path.join(scratch, "evidence"), PYTHONDONTWRITEBYTECODE="1")
        r = subprocess.run(["/venv/bin/python", "-m", "lbsa.cli", "check", pid, "--repo", scratch], env=env, cwd="/verif", capture_output=True, text=True)
        tag = {0: "silent", 1: "VIOLATION", 2: "ANALYSIS-ERROR"}.get(r.returncode, str(r.returncode))
        first = ""
        if r.returncode:
            ls = [l for l in r.stdout.splitlines() if re.match(rf"{pid}-|ANALYSIS", l)]
            first = ls[0][:160] if ls else ""
        return job, tag, first
    finally:
        shutil.rmtree(scratch, ignore_errors=True)


def main():
    ap = argparse.ArgumentParser()
    ap.add_argument("pid")
    ap.add_argument("--func", action="append", default=[])
    ap.add_argument("--qual", action="append", default=[], help="additional function qualnames (helpers the check does not analyse directly)")
    ap.add_argument("--ops", default="")
    ap.add_argument("--out", default=None)
    ap.add_argument("--max", type=int, default=0)
    ap.add_argument("--show-killed", action="store_true")
    ap.add_argument("--twins", action="store_true", help="generate behaviour-preserving rewrites instead; every VIOLATION is a false alarm of the check")
    ap.add_argument("--emit", action="append", default=[], help="regex on 'L<line> <desc>': append matching KILLED mutants to variants/<pid>.json as break variants")
    ap.add_argument("--emit-twin", action="append", default=[], help="same, but SURVIVING mutants recorded as twins (expect silent)")
    a = ap.parse_args()
    pid = a.pid.upper()
    ev = json.load(open(f"/verif/evidence/{pid}.json"))
    funcs = ev["coverage"]["functions_analysed"]
    if a.func:
        funcs = [f for f in funcs if any(x in f for x in a.func)]
    if a.qual:
        funcs = ([] if not a.func else funcs) + list(a.qual)
    ops = set(a.ops.split(",")) if a.ops else None
    jobs = []
    srcs = {}
    for fq in funcs:
        rel, tail = resolve(fq)
        if rel is None or not tail:
            print("?? cannot resolve", fq)
            continue
        src = srcs.get(rel) or Src(os.path.join(REPO, rel))
        srcs[rel] = src
        fn = find_function(src.tree, tail)
        if fn is None:
            print("?? cannot find", fq)
            continue
        if a.twins:
            for edits, op, desc in gen_twins(src, fn):
                if ops and op not in ops:
                    continue
                jobs.append((pid, rel, edits, None, None, op, desc, fq))
            continue
        for s, e, txt, op, desc in gen(src, fn):
            if ops and op not in ops:
                continue
            jobs.append((pid, rel, s, e, txt, op, desc, fq))
    # de-duplicate (nested functions are visited from their parents too)
    seen, uniq = set(), []
    for j in jobs:
        k = (j[1], json.dumps(j[2], default=repr) if isinstance(j[2], list) else j[2], j[3], j[4])
        if k not in seen:
            seen.add(k)
            uniq.append(j)
    jobs = uniq[:a.max] if a.max else uniq
    print(f"{pid}: {len(funcs)} functions, {len(jobs)} mutants")
    res = []
    with cf.ThreadPoolExecutor(max_workers=16) as ex:
        for job, tag, first in ex.map(run_one, jobs):
            res.append((job, tag, first))
    stats = {}
    for job, tag, first in res:
        stats[tag] = stats.get(tag, 0) + 1
    print(stats)
    cur = None
    for job, tag, first in res:
        if a.twins:
            show = tag in ("VIOLATION", "ANALYSIS-ERROR")
        else:
            show = tag == "silent" or (a.show_killed and tag != "syntax") or tag == "ANALYSIS-ERROR"
        if show:
            if job[7] != cur:
                cur = job[7]
                print(f"== {cur}  ({job[1]})")
            mark = {"silent": "SURV", "VIOLATION": "FALSE-ALARM" if a.twins else "kill", "ANALYSIS-ERROR": "AERR"}[tag]
            print(f"  {mark} {job[5]:5s} {job[6]}" + (f"   [{first[:100]}]" if first and tag != "silent" else ""))
    if a.emit or a.emit_twin:
        vp = f"/verif/variants/{pid}.json"
        vs = json.load(open(vp)) if os.path.exists(vp) else []
        have = {json.dumps(v["subs"]) for v in vs}
        n = 0
        for job, tag, first in res:
            _, rel, st, en, txt, op, desc, fq = job
            ln, rest = desc.split(" ", 1)
            mkey = f"{ln} {op} {rest}"
            want = "VIOLATION" if any(re.search(x, mkey) for x in a.emit) else "silent" if any(re.search(x, mkey) for x in a.emit_twin) else None
            if want is None or tag != want:
                if want is not None:
                    print(f"  (not emitted, result {tag} != {want}: {desc})")
                continue
            raw = srcs[rel].raw
            ls = raw.rfind(b"\n", 0, st) + 1
            le = raw.find(b"\n", en)
            le = len(raw) if le < 0 else le
            while raw.count(raw[ls:le]) != 1 and ls > 0:
                ls = raw.rfind(b"\n", 0, ls - 1) + 1
            old = raw[ls:le].decode()
            new = (raw[ls:st] + txt + raw[en:le]).decode()
            sub = [[rel, old, new]]
            if json.dumps(sub) in have:
                continue
            vs.append({"name": f"{fq.split('.')[-1]} {desc}"[:150], "subs": sub, "expect": want, "origin": "automutate, triaged by hand"})
            have.add(json.dumps(sub))
            n += 1
        json.dump(vs, open(vp, "w"), indent=1)
        print(f"emitted {n} variant(s) to {vp}")
    if a.out:
        json.dump([{"func": j[7], "file": j[1], "op": j[5], "desc": j[6], "result": t} for j, t, f in res], open(a.out, "w"), indent=1)


if __name__ == "__main__":
    main()
