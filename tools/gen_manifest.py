#!/venv/bin/python
"""Regenerate /verif/MANIFEST.json from the property modules that exist (lbsa/props/cNN.py)."""
import importlib, json, os, sys
sys.path.insert(0, os.path.dirname(os.path.dirname(os.path.abspath(__file__))))
PENDING = {}
checks, na = [], []
for i in range(1, 21):
    pid = f"C{i:02d}"
    try:
        m = importlib.import_module(f"lbsa.props.{pid.lower()}")
    except ModuleNotFoundError:
        na.append({"property_id": pid, "reason": "static check not built yet in this session (DESIGN.md §5 lists the decidable clauses)"})
        continue
    if getattr(m, "NOT_APPLICABLE", None):
        na.append({"property_id": pid, "reason": m.NOT_APPLICABLE})
        continue
    checks.append({
        "property_id": pid,
        "quick_cmd": f"./check {pid} --tier quick",
        "thorough_cmd": f"./check {pid} --tier thorough",
        "evidence_file": f"/verif/evidence/{pid}.json",
        "replay_cmd_template": f"./check {pid} --replay {{path}}",
        "engine": "lbsa",
        "level_claimed": {
            "category": "other",
            "text": m.EXPLANATION + (" " + m.EXACTNESS if getattr(m, "EXACTNESS", "") else ""),
            "design_ref": f"DESIGN.md §5 {pid}",
        },
        "level_note": "Static analysis of /repo's source only (never executed). Sound up to: " + "; ".join(
            getattr(m, "ASSUMPTIONS", []) + ["Python dynamism outside the listed dispatch idioms is not modelled",
                                             "stdlib / cryptography / sqlite behave as documented"]) +
            (". NOT decided: " + m.NOT_DECIDED if getattr(m, "NOT_DECIDED", "") else ""),
        "technique": getattr(m, "TECHNIQUE", "static analysis: CFG guard dominance, def-use dependence, who-may-call / who-may-write"),
    })
man = {
    "version": 1,
    "setup_cmd": "PYTHONPATH=/verif PYTHONDONTWRITEBYTECODE=1 /venv/bin/python -m lbsa.cli self-check",
    "hooks": {
        "guard": "LBRY_SDK_VERIF",
        "enable": "none needed: the checks read source and never run the repository; no hook commit exists",
        "baseline_off_cmd": "cd /repo && /venv/bin/python -m pytest -ra -q -p no:cacheprovider --timeout=900 --continue-on-collection-errors",
        "source_commits": [],
        "add_only": True,
    },
    "engines": [{
        "name": "lbsa",
        "path": "/verif/lbsa",
        "serves_properties": [c["property_id"] for c in checks],
        "kind_free_text": "repository-specific static analyser (stdlib ast only): program index + resolver, statement CFG with guarded "
                          "edges, must-hold path facts with infeasible-edge pruning, reaching definitions / def-use dependence, "
                          "who-may-call and who-may-write indexes, constant folding, regex ASTs, SQL site lexer",
    }],
    "checks": checks,
    "not_applicable": na,
    "notes": "Every check is static analysis (technique family fixed for this task). Each claims named structural clauses of its "
             "property only; the behavioural remainder is listed under 'NOT decided' in level_note and in DESIGN.md §5. "
             "Exit 0 = all rule instances hold (KNOWN-FINDING lines allowed), 1 = VIOLATION, 2 = ANALYSIS-ERROR. "
             "Known findings: /verif/known_findings.json.",
}
json.dump(man, open(os.path.join(os.path.dirname(os.path.dirname(os.path.abspath(__file__))), "MANIFEST.json"), "w"), indent=1)
print("checks:", [c["property_id"] for c in checks], "n/a:", [n["property_id"] for n in na])
