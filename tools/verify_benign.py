#!/venv/bin/python
"""Confirm a BENIGN (behaviour-preserving) change independently and file it under /verif/benign/<ID>-<bN>/.

usage: verify_benign.py <src_dir containing patch.diff demo.py meta.json> <ID> <bN>
Creates a throw-away git worktree of /repo under /tmp/vbenign, checks that
 (1) demo passes on the clean tree, (2) the patch applies, (3) the pinned suite still has its 39 passes,
 (4) demo STILL passes with the patch; then removes the worktree.
"""
import json, os, shutil, subprocess, sys, re

def sh(cmd, cwd=None, timeout=900):
    p = subprocess.run(cmd, shell=True, cwd=cwd, capture_output=True, text=True, timeout=timeout)
    return p.returncode, (p.stdout + p.stderr)

def main():
    src, pid, mn = sys.argv[1], sys.argv[2], sys.argv[3]
    name = f"{pid}-{mn}"
    wt = f"/tmp/vbenign/{name}"
    os.makedirs("/tmp/vbenign", exist_ok=True)
    sh(f"git -C /repo worktree remove --force {wt}")
    import time, random
    for attempt in range(8):
        rc, out = sh(f"git -C /repo worktree add -q --detach {wt} HEAD")
        if rc == 0:
            break
        time.sleep(0.5 + random.random())
        sh(f"git -C /repo worktree remove --force {wt}"); sh(f"rm -rf {wt}"); sh("git -C /repo worktree prune")
    assert rc == 0, out
    res = {"name": name}
    try:
        os.makedirs(f"{wt}/_benign/{mn}", exist_ok=True)
        for f in os.listdir(src):
            if os.path.isfile(os.path.join(src, f)):
                shutil.copy(os.path.join(src, f), f"{wt}/_benign/{mn}/{f}")
        # helper files some demos share live one level up
        for f in os.listdir(os.path.dirname(src.rstrip('/'))):
            p = os.path.join(os.path.dirname(src.rstrip('/')), f)
            if os.path.isfile(p):
                shutil.copy(p, f"{wt}/_benign/{f}")
        demo = f"/venv/bin/python -W ignore _benign/{mn}/demo.py"
        rc0, out0 = sh(demo, cwd=wt, timeout=300)
        res["clean_demo_rc"] = rc0; res["clean_demo_tail"] = out0.strip().splitlines()[-1:] 
        rc, out = sh(f"git apply --whitespace=nowarn _benign/{mn}/patch.diff", cwd=wt)
        res["apply_rc"] = rc
        if rc != 0:
            res["apply_out"] = out[-500:]
        else:
            rc1, out1 = sh(demo, cwd=wt, timeout=300)
            res["patched_demo_rc"] = rc1; res["patched_demo_tail"] = out1.strip().splitlines()[-1:]
            rc2, out2 = sh("/venv/bin/python -m pytest -q -p no:cacheprovider --timeout=900 --continue-on-collection-errors 2>&1 | tail -1", cwd=wt)
            m = re.search(r"(\d+) passed", out2)
            res["tests_passed"] = int(m.group(1)) if m else -1
            mf = re.search(r"(\d+) failed", out2)
            res["tests_failed"] = int(mf.group(1)) if mf else 0
        res["ok"] = (res.get("clean_demo_rc") == 0 and res.get("apply_rc") == 0 and res.get("patched_demo_rc") == 0
                     and res.get("tests_passed") == 39 and res.get("tests_failed") == 0)
        if res["ok"]:
            dst = f"/verif/benign/{name}"
            os.makedirs(dst, exist_ok=True)
            shutil.copy(f"{src}/patch.diff", f"{dst}/patch.diff")
            shutil.copy(f"{src}/demo.py", f"{dst}/demo.py")
            try:
                meta = json.load(open(f"{src}/meta.json"))
            except Exception as e:
                meta = {"property": pid, "summary": "(meta.json unreadable)"}
            meta["property"] = pid
            meta["confirmed"] = {
                "how": "tools/verify_benign.py in a fresh scratch worktree of /repo HEAD (removed afterwards)",
                "clean_tree_demo": f"exit {res['clean_demo_rc']} {res['clean_demo_tail']}",
                "patched_demo": f"exit {res['patched_demo_rc']} {res['patched_demo_tail']}",
                "pinned_suite_with_patch": f"{res['tests_passed']} passed, {res['tests_failed']} failed",
                "repo_head": sh("git -C /repo rev-parse --short HEAD")[1].strip(),
            }
            json.dump(meta, open(f"{dst}/meta.json", "w"), indent=1)
    finally:
        sh(f"git -C /repo worktree remove --force {wt}")
    print(json.dumps(res))

main()
