#!/venv/bin/python
"""Development aid: apply a patch to an overlay of /repo, load it through the analyser's front end and print what the normalisations did and the
normalised source of the functions the patch touches.   usage: show_normalised.py <patch.diff> [function-name-substring]"""
import ast, os, re, shutil, subprocess, sys, tempfile
sys.path.insert(0, "/verif")
patch = os.path.abspath(sys.argv[1]); pat = sys.argv[2] if len(sys.argv) > 2 else None
d = tempfile.mkdtemp(prefix="lbsa_show_")
try:
    shutil.copytree("/repo/lbry", f"{d}/lbry", ignore=shutil.ignore_patterns("__pycache__"))
    r = subprocess.run(["patch", "-p1", "-s", "-i", patch], cwd=d, capture_output=True, text=True)
    if r.returncode: print("PATCH FAILED", r.stdout, r.stderr); sys.exit(3)
    files = re.findall(r"^\+\+\+ b/(\S+)", open(patch).read(), re.M)
    from lbsa.index import Program
    prog = Program(d)
    for f in files:
        mod = f[:-3].replace("/", ".")
        print("==", mod, "normalisations:", prog.renamed.get(mod))
        m = prog.modules[mod]
        hunks = [int(x) for x in re.findall(r"^@@ -\d+(?:,\d+)? \+(\d+)", open(patch).read(), re.M)]
        for n in ast.walk(m.tree):
            if isinstance(n, (ast.FunctionDef, ast.AsyncFunctionDef)) and ((pat and pat in n.name) or (not pat and any(n.lineno - 3 <= h <= (n.end_lineno or n.lineno) + 3 for h in hunks))):
                print(ast.unparse(n)); print()
finally:
    shutil.rmtree(d, ignore_errors=True)
