#!/bin/bash
# usage: benign_matrix.sh [pattern]  -> every registered check on every filed benign edit (overlay, never /repo): any non-silent verdict is a FALSE ALARM
ls -d /verif/benign/${1:-*} | xargs -P 6 -I{} bash -c 'd={}; n=$(basename $d); r=$(/venv/bin/python /verif/tools/try_patch.py $d/patch.diff 2>&1 | grep -v "WARNING\|KNOWN-FINDING" | grep -A2 "VIOLATION$\|ANALYSIS-ERROR$\|PATCH FAILED" | grep -v "^--" | cut -c1-260); if [ -z "$r" ]; then echo "$n silent"; else echo "$n ALARM"; echo "$r"; fi'
