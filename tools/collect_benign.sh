#!/bin/bash
# usage: collect_benign.sh <worktree-root e.g. /tmp/wt6> <name-prefix e.g. r6> C13 C09 ...   -- verify each agent's benign edits and file them as /verif/benign/<ID>-<prefix>bN
root=$1; pre=$2; shift 2
mkdir -p /verif/benign
for id in "$@"; do
  for b in b1 b2 b3 b4; do
    [ -f $root/$id/_benign/$b/meta.json ] || continue
    ( /verif/tools/verify_benign.py $root/$id/_benign/$b $id ${pre}$b > /tmp/vbenign_${id}_${pre}${b}.log 2>&1
      tail -1 /tmp/vbenign_${id}_${pre}${b}.log | cut -c1-300 ) &
  done
  wait
done
for id in "$@"; do
  n=$(ls -d /verif/benign/$id-${pre}b* 2>/dev/null | wc -l)
  echo "$id: $n benign edits filed (${pre})"
done
