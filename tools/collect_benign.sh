#!/bin/bash
# usage: collect_benign.sh C13 C09 ...   -- verify each agent's benign edits from /tmp/wt5 and file them as /verif/benign/<ID>-bN
mkdir -p /verif/benign
for id in "$@"; do
  for b in b1 b2 b3 b4; do
    [ -f /tmp/wt5/$id/_benign/$b/meta.json ] || continue
    ( /verif/tools/verify_benign.py /tmp/wt5/$id/_benign/$b $id $b > /tmp/vbenign_${id}_${b}.log 2>&1
      tail -1 /tmp/vbenign_${id}_${b}.log | cut -c1-300 ) &
  done
  wait
done
for id in "$@"; do
  n=$(ls -d /verif/benign/$id-b* 2>/dev/null | wc -l)
  echo "$id: $n benign edits filed"
done
