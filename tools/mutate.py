#!/venv/bin/python
"""Ad-hoc mutation probe: copy /repo/lbry to a scratch dir, apply textual substitutions, run checks there.

from tools.mutate import probe;  probe("C01", "lbry/blob/writer.py", "old text", "new text")
"""
import os, shutil, subprocess, sys, tempfile


def probe(pids, *subs, show=6, expect=None):
    if isinstance(pids, str):
        pids = [pids]
    d = tempfile.mkdtemp(prefix="lbsa_mut_")
    try:
        shutil.copytree("/repo/lbry", f"{d}/lbry", ignore=shutil.ignore_patterns("__pycache__"))
        it = iter(subs)
        for path, old, new in zip(it, it, it):
            p = f"{d}/{path}"
            s = open(p).read()
            if s.count(old) != 1:
                print(f"  !! substitution target occurs {s.count(old)} times in {path}: {old[:50]!r}")
                return None
            open(p, "w").write(s.replace(old, new))
        import ast
        env = dict(os.environ, PYTHONPATH="/verif", LBSA_EVIDENCE_DIR=f"{d}/evidence", PYTHONDONTWRITEBYTECODE="1")
        res = {}
        for pid in pids:
            r = subprocess.run(["/venv/bin/python", "-m", "lbsa.cli", "check", pid, "--repo", d], env=env, cwd="/verif",
                               capture_output=True, text=True)
            tag = {0: "silent", 1: "VIOLATION", 2: "ANALYSIS-ERROR"}.get(r.returncode, str(r.returncode))
            res[pid] = tag
            flag = "" if expect is None else ("  OK" if tag == expect else f"  <<<<<< expected {expect}")
            print(f"[{pid}] {tag}{flag}")
            if r.returncode:
                for l in r.stdout.splitlines()[:show]:
                    if l.startswith(("VIOLATION", pid + ":")):
                        continue
                    print("    " + l[:300])
        return res
    finally:
        shutil.rmtree(d, ignore_errors=True)
