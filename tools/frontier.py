#!/venv/bin/python
"""Coverage frontier (development aid): repo functions that the functions a check analyses CALL (resolved by bare name within lbry/, 1 level)
but which no check analyses.  usage: frontier.py [Cxx ...]"""
import ast, json, sys
sys.path.insert(0, "/verif")
from lbsa.index import Program
from lbsa.astutil import call_name
prog = Program("/repo")
pids = sys.argv[1:] or [f"C{i:02d}" for i in range(1, 21)]
analysed_any = set()
per = {}
for i in range(1, 21):
    pid = f"C{i:02d}"
    fs = json.load(open(f"/verif/evidence/{pid}.json"))["coverage"]["functions_analysed"]
    per[pid] = set(fs)
    analysed_any |= set(fs)
byname = {}
for q, f in prog.functions.items():
    if f.module.name.startswith(("lbry.wallet.server", "lbry.testcase", "lbry.wallet.orchstr8", "scripts")):
        continue
    byname.setdefault(f.name, []).append(q)
GENERIC = {"get", "write", "read", "close", "append", "add", "update", "pop", "remove", "run", "start", "stop", "items", "keys", "values", "encode", "decode", "set", "clear", "wait", "send",
           "__init__", "copy", "format", "join", "split", "index", "count", "sort", "insert", "extend", "debug", "info", "warning", "error", "exception", "hex", "lower", "strip", "seek", "flush", "delete", "done",
           "cancel", "result", "put", "find", "replace", "execute", "fetchall", "time", "sleep", "create_task", "open", "save", "load", "labels", "inc", "parse", "generate", "serialize", "deserialize", "to_dict", "from_dict"}
for pid in pids:
    out = {}
    for q in sorted(per[pid]):
        if q not in prog.functions:
            continue
        f = prog.functions[q]
        for n in ast.walk(f.node):
            if isinstance(n, ast.Call):
                nm = call_name(n)
                if not nm or nm in GENERIC or nm not in byname:
                    continue
                cands = [c for c in byname[nm] if c not in analysed_any]
                if cands and len(byname[nm]) <= 3 and len(cands) == len(byname[nm]):
                    out.setdefault(nm, set()).update(cands)
    print(f"== {pid}: {len(out)} callee names not analysed by any check")
    for nm in sorted(out):
        qs = sorted(out[nm])
        sizes = [len(prog.functions[x].node.body) for x in qs]
        print(f"   {nm:38s} {qs[0]}{' (+%d)' % (len(qs)-1) if len(qs) > 1 else ''}  [{sizes[0]} stmts]")
