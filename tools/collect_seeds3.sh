#!/bin/bash
# round 3: usage: collect_seeds2.sh C13 C09 ...   -- verify each agent's seeds from /tmp/wt3 and file them as <ID>-r3mN
for id in "$@"; do
  for m in m1 m2 m3; do
    [ -f /tmp/wt3/$id/_seed/$m/meta.json ] || continue
    ( /verif/tools/verify_seed.py /tmp/wt3/$id/_seed/$m $id r3$m > /tmp/vseed3_${id}_${m}.log 2>&1
      tail -1 /tmp/vseed3_${id}_${m}.log | cut -c1-300 ) &
  done
  wait
done
for id in "$@"; do
  n=$(ls -d /verif/seeded/$id-r3m* 2>/dev/null | wc -l)
  echo "$id: $n round-3 seeds filed"
done
