#!/venv/bin/python
"""Regenerate lbsa/primitive_specs.json (reference normal forms of the primitives of lbsa/frozen.py) from /repo's current tree.
Run after a reviewed change of a primitive (e.g. a `fix:` commit) — never from a check."""
import json, sys
sys.path.insert(0, "/verif")
from lbsa.index import Program
from lbsa import frozen
prog = Program(sys.argv[1] if len(sys.argv) > 1 else "/repo")
out, missing = {}, []
for pid in sorted(frozen.PRIMITIVES):
    for unit, why in frozen.rows_for(pid):
        try:
            us = frozen.expand_units(prog, unit)
        except Exception as e:
            missing.append((pid, unit, str(e)))
            continue
        for uid, kind, obj, _names in us:
            txt, dg = frozen.describe(prog, kind, obj)
            mod = obj.name if kind == "module" else obj.module.name
            out[uid] = {"kind": kind, "module": mod, "digest": dg, "text": txt}
for m in missing:
    print("MISSING", *m)
json.dump(out, open(frozen.SPEC_PATH, "w"), indent=1, sort_keys=True)
print(len(out), "units;", sum(len(v["text"].splitlines()) for v in out.values()), "normal-form lines")
sys.exit(1 if missing else 0)
