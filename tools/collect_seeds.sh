#!/bin/bash
# usage: collect_seeds.sh C13 C09 ...   -- verify each agent's three seeds, then remove its scratch worktree
for id in "$@"; do
  for m in m1 m2 m3 m4 m5; do
    [ -d /tmp/wt/$id/_seed/$m ] || continue
    ( /verif/tools/verify_seed.py /tmp/wt/$id/_seed/$m $id $m > /tmp/vseed_${id}_${m}.log 2>&1
      /venv/bin/python - <<PY
import json
try:
    r=json.loads(open('/tmp/vseed_${id}_${m}.log').read().strip().splitlines()[-1])
    print('${id}','${m}','ok' if r.get('ok') else 'NOT-OK', {k:r[k] for k in r if k not in ('clean_demo_tail','patched_demo_tail')})
except Exception as e:
    print('${id}','${m}','ERROR',e)
PY
    ) &
  done
done
wait
for id in "$@"; do
  n=$(ls -d /verif/seeded/$id-m* 2>/dev/null | wc -l)
  echo "$id: $n seeds filed"
done
