#!/venv/bin/python
"""Freeze the per-property minimum of evaluated rule instances (90 % of today's count on /repo) into lbsa/obligation_floors.json.
Run after changing rules; never run by a check."""
import json, os, subprocess, sys
out = {}
for i in range(1, 21):
    pid = f"C{i:02d}"
    d = "/tmp/lbsa_floor_ev"
    env = dict(os.environ, PYTHONPATH="/verif", LBSA_EVIDENCE_DIR=d, PYTHONDONTWRITEBYTECODE="1")
    subprocess.run(["/venv/bin/python", "-m", "lbsa.cli", "check", pid], env=env, cwd="/verif", capture_output=True, text=True)
    n = json.load(open(f"{d}/{pid}.json"))["coverage"]["obligations"]
    out[pid] = int(n * 0.9)
json.dump(out, open("/verif/lbsa/obligation_floors.json", "w"), indent=1)
print(out)
