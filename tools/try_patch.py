#!/venv/bin/python
"""Run registered checks against /repo + one patch WITHOUT touching /repo: the library source is copied to a scratch
directory, the patch applied there and the checker pointed at it with --repo.

usage: try_patch.py <patch.diff> [PID ...]     (default: all properties)
"""
import os, shutil, subprocess, sys, tempfile
patch = os.path.abspath(sys.argv[1])
pids = sys.argv[2:] or [f"C{i:02d}" for i in range(1, 21)]
d = tempfile.mkdtemp(prefix="lbsa_try_")
try:
    shutil.copytree("/repo/lbry", f"{d}/lbry", ignore=shutil.ignore_patterns("__pycache__"))
    if os.path.isdir("/repo/scripts"):
        shutil.copytree("/repo/scripts", f"{d}/scripts", ignore=shutil.ignore_patterns("__pycache__"))
    r = subprocess.run(["patch", "-p1", "-s", "-i", patch], cwd=d, capture_output=True, text=True)
    if r.returncode:
        print("PATCH FAILED", r.stdout, r.stderr); sys.exit(3)
    VR = os.environ.get("LBSA_ROOT", "/verif")
    env = dict(os.environ, PYTHONPATH=VR, LBSA_EVIDENCE_DIR=f"{d}/evidence", PYTHONDONTWRITEBYTECODE="1")
    worst = 0
    for pid in pids:
        r = subprocess.run(["/venv/bin/python", "-m", "lbsa.cli", "check", pid, "--repo", d], env=env, cwd=VR,
                           capture_output=True, text=True)
        lines = [l for l in r.stdout.splitlines() if l.strip()]
        tag = {0: "silent", 1: "VIOLATION", 2: "ANALYSIS-ERROR"}.get(r.returncode, str(r.returncode))
        print(f"[{pid}] {tag}")
        if r.returncode:
            for l in lines[:12]:
                print("    " + l[:400])
        worst = max(worst, r.returncode)
    sys.exit(worst)
finally:
    shutil.rmtree(d, ignore_errors=True)
