#!/bin/bash
# round 2: usage: collect_seeds2.sh C13 C09 ...   -- verify each agent's seeds from /tmp/wt2 and file them as <ID>-r2mN
for id in "$@"; do
  for m in m1 m2 m3; do
    [ -f /tmp/wt2/$id/_seed/$m/meta.json ] || continue
    ( /verif/tools/verify_seed.py /tmp/wt2/$id/_seed/$m $id r2$m > /tmp/vseed2_${id}_${m}.log 2>&1
      tail -1 /tmp/vseed2_${id}_${m}.log | cut -c1-300 ) &
  done
  wait
done
for id in "$@"; do
  n=$(ls -d /verif/seeded/$id-r2m* 2>/dev/null | wc -l)
  echo "$id: $n round-2 seeds filed"
done
