#!/venv/bin/python
"""dev aid: print the atomic must-facts the engine derives at every call/statement of a function whose text contains a substring
usage: facts_at.py <function qualname> <substring> [assume ...]"""
import ast, sys
sys.path.insert(0, "/verif")
from lbsa.index import Program
from lbsa.engine import Engine
from lbsa import rules as R
from lbsa.astutil import unparse
prog = Program("/repo"); eng = Engine(prog)
fa = eng.fa(sys.argv[1]); sub = sys.argv[2]; assume = sys.argv[3:]
for n in fa.local_nodes((ast.stmt, ast.Call)):
    t = unparse(n)
    if sub in t and (isinstance(n, ast.Call) or not hasattr(n, "body")):
        have, F = R.atomic_facts_at(fa, n, assume)
        print(f"L{n.lineno} {type(n).__name__} {t[:80]}")
        for k in sorted(have):
            fi = F.info[k]
            print("     ", ("" if k[1] else "not ") + k[0], ("   == " + fi.expanded) if fi.expanded and fi.expanded != k[0] else "")
        if not fa.reachable(n, assume): print("      <unreachable>")
