#!/venv/bin/python
"""Write the prompts for a round of BENIGN-edit sub-agents (maintainers making behaviour-preserving changes).   usage: gen_benign_prompts.py <round-dir e.g. /tmp/wt6> <prompt-dir>"""
import json, os, sys
wt, out = sys.argv[1], sys.argv[2]
os.makedirs(out, exist_ok=True)
for l in open("/verif/properties.jsonl"):
    prop = json.loads(l)
    pid = prop["id"]
    a = prop["anchors"]
    mech = "; ".join(f"{m['name']} ({m['where']})" for m in a.get("mechanism", []))
    s = f'''You are helping evaluate a verification effort for the open-source project lbryio/lbry-sdk (Python asyncio daemon: Kademlia DHT, blob exchange, SPV wallet, claim schema). Your job is to act as a careful *maintainer* and produce realistic source changes that do NOT change behaviour, in the code that one stated property of the software depends on. They will be used to measure whether a checker raises false alarms on harmless edits.

## Your scratch copy
You have your own git worktree of the repository at `{wt}/{pid}` (detached HEAD). Work ONLY inside `{wt}/{pid}`. Never touch `/repo` or `/verif` (do not even read `/verif`). There is no network. Python is `/venv/bin/python` (3.12) with the project's dependencies. Do NOT use `git stash` (the stash is shared between worktrees); use `git diff > file`, `git apply`, `git apply -R` and `git checkout -- lbry`.

## The property whose code you will touch (it must STAY TRUE)
**{pid} — {prop["title"]}**

{prop["statement"]}

Where the code that makes it hold lives (anchors): {", ".join(a.get("files", []))}
Mechanisms: {mech}

## What to produce
Produce **four different behaviour-preserving changes** (call them b1..b4) to the library source under `{wt}/{pid}/lbry/`, each inside (or directly next to) the functions named above, each of which:
1. leaves the observable behaviour of the library exactly as it was for every input, schedule and crash point — the property above and everything else still holds. No new feature, no changed default, no changed error type or message semantics, no changed ordering of side effects that another task or a crash could observe.
2. is the kind of edit a maintainer really makes and a reviewer waves through. Use a DIFFERENT kind for each of the four. An earlier round already produced the most common single-step edits (renaming locals, extracting ONE helper, ONE guard clause, ONE temporary, naming ONE magic number, f-strings). This time prefer edits such as:
   - a clean-up commit that combines two or three small steps in one function (e.g. rename + early return; extract a helper AND introduce a temporary for its result; name two constants and use them in two functions);
   - moving code: a nested function turned into a private method (or the reverse), a method moved up into the base class or down into the only subclass that uses it (keeping behaviour), a module-level helper moved into the class as a staticmethod, two adjacent independent statements reordered, a block moved into / out of a `with`/`try` when it provably cannot raise what the handler catches;
   - loops and collections: a `for` loop with append turned into a comprehension (or the reverse) where there is no break/else, `enumerate`/`zip`/`range(len())` forms swapped, `dict()`/`list()` literals vs constructors, iterating `.items()` instead of keys + lookup, tuple unpacking introduced or removed;
   - conditions: De Morgan, chained comparison split or joined (`0 <= x < n`), `x is None`/`x is not None` arms swapped, `if not a: … else: …` flipped, `elif` chain turned into a dispatch dict only where order and side effects allow, a boolean flag replaced by the condition it caches (or the reverse) when nothing in between can change it;
   - defensive / documentation edits: assertions that cannot fail, debug logging, type hints incl. `typing.cast`, docstrings, `__repr__` additions, unused-variable removal, dead-code removal that is provably dead;
   - API-neutral modernisation: `super().__init__()` forms, keyword arguments made explicit at a call (same values), a default argument made explicit at the call sites, `contextlib.suppress`, `pathlib` only inside one function, `dataclass`-neutral changes.
   Keep each change modest (typically 5-30 lines). At least two of the four should touch the *core* function(s) of the mechanism, not only its periphery.
3. the project's pinned test suite still passes exactly as before (39 passed; the other test modules fail at import in this sandbox for unrelated reasons — that is the expected baseline). The command is: `cd {wt}/{pid} && /venv/bin/python -m pytest -ra -q -p no:cacheprovider --timeout=900 --continue-on-collection-errors 2>&1 | tail -3` → expect `39 passed`.

For each change i in 1..4 create a directory `{wt}/{pid}/_benign/b<i>/` containing:
- `patch.diff` — output of `git -C {wt}/{pid} diff` for that change alone against the worktree HEAD (source changes under `lbry/` only). Each patch must apply cleanly on its own to a clean checkout with `git apply`.
- `demo.py` — a small standalone program (run as `cd {wt}/{pid} && /venv/bin/python -W ignore _benign/b<i>/demo.py`) that exercises the REAL changed code on a handful of representative and edge-case inputs (including the refusal / error paths of the touched function) and prints `PASS` / exits 0 on BOTH the unmodified tree and the tree with the change applied, by comparing against expected values computed independently or recorded from the unmodified tree. It must compute the repo root from `__file__` (two levels up from `_benign/b<i>/`) and put it first on `sys.path`.
- `meta.json` — {{"property": "{pid}", "kind": "<which kind of edit>", "summary": "<one line: what was changed>", "files": [...], "functions": [...], "why_equivalent": "<a short argument that behaviour is unchanged for all inputs/schedules>", "ran": ["<commands you ran and their observed result>"]}}

Verify each change yourself: with the patch applied the 39 tests pass and demo.py prints PASS; after `git -C {wt}/{pid} checkout -- lbry` demo.py prints PASS too. Apply one patch at a time; leave the worktree's `lbry/` clean (unmodified) when you finish — only `_benign/` should remain as untracked content.

Be strict with yourself about equivalence: if you are not sure an edit is behaviour-preserving for every input (think about falsy values such as 0, b'' and None; exceptions raised in a different order; iteration order; aliasing; an `await` moving relative to a state change), do not hand it in — pick another edit.

## Sandbox note: importing the library
Set `os.environ["PROTOCOL_BUFFERS_PYTHON_IMPLEMENTATION"] = "python"` before any import: this makes the generated `_pb2` modules (and so the real `lbry.schema.claim`, `lbry.wallet.ledger`, …) importable. Stub only the absent third-party modules (`filetype`, `appdirs`, `yaml`, `aioupnp`, `libtorrent`, `msgpack`, `pylru`) with empty `types.ModuleType` objects (give `appdirs` the functions `user_data_dir`, `user_config_dir`, `user_download_dir` returning '/tmp'), and if a package `__init__` still refuses to import, pre-register empty parent packages so that no package `__init__` runs:

```python
import sys, types, os
ROOT = os.path.dirname(os.path.dirname(os.path.dirname(os.path.abspath(__file__))))
sys.path.insert(0, ROOT)
def pkg(name):
    if name in sys.modules: return sys.modules[name]
    m = types.ModuleType(name); m.__path__ = [os.path.join(ROOT, *name.split('.'))]; m.__package__ = name
    sys.modules[name] = m
    if '.' in name:
        parent = pkg(name.rsplit('.', 1)[0]); setattr(parent, name.rsplit('.', 1)[1], m)
    return m
for n in ('lbry','lbry.wallet','lbry.extras','lbry.extras.daemon'):
    pkg(n)
sys.modules['lbry'].__version__ = '0.0.0'
```
`lbry.wallet` pieces that need a ledger can use `lbry.wallet.ledger.RegTestLedger` with `lbry.wallet.database.Database(':memory:')` and `lbry.wallet.header.Headers(':memory:')` (do not call `Headers.close()` on a ':memory:' path: it writes a file named ':memory:'); keep demos fast (< 30 s).

## Report
When done, reply with a short report: for each of the four changes, its kind, the one-line summary, files/functions touched, and the verified results (tests 39 passed? demo PASS with and without?). If you could only produce fewer than four verified changes, say so honestly; do not hand in unverified ones. If, while recording baselines, you notice behaviour of the UNMODIFIED tree that contradicts the property above, mention it at the end of the report (do not try to fix it).
'''
    open(os.path.join(out, f"{pid}.txt"), "w").write(s)
print("prompts written to", out)
