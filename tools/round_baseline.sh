#!/bin/bash
# usage: round_baseline.sh <tag e.g. r7>  -> own-property verdict for every filed seed of that round (overlay, never /repo)
ls -d /verif/seeded/*-$1m* | xargs -P 6 -I{} bash -c 'd={}; n=$(basename $d); p=${n%%-*}; r=$(/venv/bin/python /verif/tools/try_patch.py $d/patch.diff $p 2>&1 | grep -v "WARNING\|KNOWN-FINDING" | head -2 | tr "\n" " " | cut -c1-260); echo "$n $r"' | sort
