#!/venv/bin/python
"""Regenerate lbsa/refnames.json (local-name reference for alpha-normalisation, see lbsa/alpha.py) from /repo's tree.
Run after a change to /repo that is part of the reference (a fix: commit); never run by a check."""
import ast, json, os, sys
sys.path.insert(0, "/verif")
from lbsa import alpha
root = sys.argv[1] if len(sys.argv) > 1 else "/repo"
out = {}
for top in ("lbry", "scripts"):
    for dp, dn, fns in os.walk(os.path.join(root, top)):
        dn[:] = sorted(d for d in dn if d != "__pycache__")
        for fn in sorted(fns):
            if not fn.endswith(".py"):
                continue
            p = os.path.join(dp, fn)
            rel = os.path.relpath(p, root)
            parts = rel[:-3].split(os.sep)
            if parts[-1] == "__init__":
                parts = parts[:-1]
            raw = open(p, "rb").read()
            tree = ast.parse(raw)
            alpha.strip_logging(tree)
            d = alpha.describe(tree)
            if d:
                import hashlib
                d["__sha__"] = hashlib.sha1(raw).hexdigest()
                out[".".join(parts)] = d
json.dump(out, open(alpha.REF_PATH, "w"), separators=(",", ":"), sort_keys=True)
print(len(out), "modules,", sum(len(v) for v in out.values()), "units ->", alpha.REF_PATH, os.path.getsize(alpha.REF_PATH), "bytes")
