#!/bin/bash
# usage: collect_seeds_round.sh <worktree-root> <round-tag> C13 C09 ...   -- verify each agent's seeds from <root>/<ID>/_seed/mN and file them as <ID>-<tag>mN
root=$1; tag=$2; shift 2
for id in "$@"; do
  for m in m1 m2 m3; do
    [ -f $root/$id/_seed/$m/meta.json ] || continue
    ( /verif/tools/verify_seed.py $root/$id/_seed/$m $id $tag$m > /tmp/vseed_${tag}_${id}_${m}.log 2>&1
      tail -1 /tmp/vseed_${tag}_${id}_${m}.log | cut -c1-300 ) &
  done
  wait
done
for id in "$@"; do
  n=$(ls -d /verif/seeded/$id-${tag}m* 2>/dev/null | wc -l)
  echo "$id: $n seeds filed for round $tag"
done
