"""F17 / C03: with coin_selection_strategy == 'sqlite' a deficit below 10 dewies is refused although the wallet is full.

Ledger.get_spendable_utxos passes min_amount = min(amount // 10, 1) as the floor of the database chooser's geometric search; for amount < 10 that is 0,
the search window [floor, floor * multiplier) is [0, 0) on every pass (0 * multiplier == 0), nothing is ever found, and Transaction.create raises
InsufficientFundsError.  The same request under the default strategy is funded.
(harness: the wallet world of /verif/seeded/C03-r4m2/demo.py)      run:  cd /repo && /venv/bin/python /verif/triage/f17_sqlite_floor.py"""
import os, sys, types
os.environ["PROTOCOL_BUFFERS_PYTHON_IMPLEMENTATION"] = "python"
ROOT = os.getcwd()
sys.path.insert(0, ROOT)


def pkg(name):
    if name in sys.modules:
        return sys.modules[name]
    m = types.ModuleType(name)
    m.__path__ = [os.path.join(ROOT, *name.split('.'))]
    m.__package__ = name
    sys.modules[name] = m
    if '.' in name:
        parent = pkg(name.rsplit('.', 1)[0])
        setattr(parent, name.rsplit('.', 1)[1], m)
    return m


# register bare parent packages so that no package __init__ (which pulls in the
# whole daemon) runs; the leaf modules below are the real, unmodified sources
for n in ('lbry', 'lbry.wallet', 'lbry.extras', 'lbry.extras.daemon', 'lbry.blob',
          'lbry.stream', 'lbry.dht', 'lbry.file', 'lbry.torrent'):
    pkg(n)
sys.modules['lbry'].__version__ = '0.0.0'
for name in ('filetype', 'aioupnp', 'libtorrent', 'yaml'):
    sys.modules.setdefault(name, types.ModuleType(name))
ad = types.ModuleType('appdirs')
ad.user_data_dir = ad.user_config_dir = lambda *a, **k: '/tmp'
sys.modules.setdefault('appdirs', ad)

import logging
logging.disable(logging.CRITICAL)
import asyncio
from itertools import cycle
from lbry.error import InsufficientFundsError
from lbry.wallet.constants import CENT, COIN, NULL_HASH32
from lbry.wallet.transaction import Transaction, Output, Input
from lbry.wallet.ledger import Ledger
from lbry.wallet.database import Database
from lbry.wallet.header import Headers
from lbry.wallet.account import Account
from lbry.wallet.wallet import Wallet
import lbry.wallet.ledger as _ledger_mod
assert os.path.realpath(_ledger_mod.__file__).startswith(os.path.realpath(ROOT)), _ledger_mod.__file__

SEED = "carbon smart garage balance margin twelve chest sword toast envelope bottom stomach absent"


class World:
    """ A ledger with an in-memory wallet database and one account, as in the project's own wallet tests. """

    async def open(self, fee_per_byte=None, strategy=None):
        config = {'db': Database(':memory:'), 'headers': Headers(':memory:')}
        if fee_per_byte is not None:
            config['fee_per_byte'] = fee_per_byte
        self.ledger = Ledger(config)
        self.ledger.coin_selection_strategy = strategy
        await self.ledger.db.open()
        self.account = Account.from_dict(self.ledger, Wallet(), {"seed": SEED})
        addresses = await self.account.ensure_address_gap()
        self.hashes = cycle([self.ledger.address_to_hash160(a) for a in addresses])
        self.n = 0
        return self

    async def close(self):
        await self.ledger.db.close()

    async def add_utxos(self, amounts, height=10):
        """ Store one confirmed funding transaction paying `amounts` (dewies) to our receiving addresses. """
        self.n += 1
        utxos = [Output.pay_pubkey_hash(a, next(self.hashes)) for a in amounts]
        source = Transaction(height=height).add_outputs(
            [Output.pay_pubkey_hash(sum(amounts) + self.n, NULL_HASH32[:20])]).outputs[0]
        funding = Transaction(is_verified=True, height=height, position=self.n) \
            .add_inputs([Input.spend(source)]).add_outputs(utxos)
        await self.ledger.db.insert_transaction(funding)
        for utxo in utxos:
            await self.ledger.db.save_transaction_io(
                funding, self.ledger.hash160_to_address(utxo.pubkey_hash), utxo.pubkey_hash, '')
        return utxos

    async def reserved_ids(self):
        rows = await self.ledger.db.db.execute_fetchall("SELECT txoid FROM txo WHERE is_reserved")
        return sorted(r['txoid'] for r in rows)

    def minimum_fee(self, tx):
        return (tx.get_base_fee(self.ledger)
                + sum(txi.get_fee(self.ledger) for txi in tx.inputs)
                + sum(txo.get_fee(self.ledger) for txo in tx.outputs))



async def attempt(strategy):
    w = await World().open(strategy=strategy)
    try:
        utxos = await w.add_utxos([3 * COIN, 2 * COIN, 5 * CENT])
        # a supplied input that falls a few dewies short of output + fee: the deficit create() has to fund is < 10 dewies
        own = (await w.add_utxos([10 * CENT]))[0]
        tx0 = Transaction().add_inputs([Input.spend(own)])
        base = tx0.get_base_fee(w.ledger) + Input.spend(own).get_fee(w.ledger)
        out_fee = Output.pay_pubkey_hash(COIN, NULL_HASH32[:20]).get_fee(w.ledger)
        wanted = Output.pay_pubkey_hash(own.amount - base - out_fee + 5, NULL_HASH32[:20])      # 5 dewies short
        try:
            tx = await Transaction.create([Input.spend(own)], [wanted], [w.account], w.account, sign=False)
            return f"funded with {len(tx.inputs)} inputs"
        except InsufficientFundsError:
            return "InsufficientFundsError"
    finally:
        await w.close()


async def main():
    res = {s: await attempt(s) for s in (None, 'sqlite')}
    for s, r in res.items():
        print(f"strategy={s}: {r}")
    bad = res['sqlite'] == "InsufficientFundsError" and res[None] != "InsufficientFundsError"
    print("REPRODUCED (F17): the sqlite strategy refuses a 5-dewies deficit with 5 LBC of spendable outputs" if bad else "not reproduced (F17)")


if __name__ == '__main__':
    asyncio.run(main())
