"""F6 / C13: WalletStorage.write removes the destination before the fallback rename."""
import ast, os, json, stat, tempfile, shutil
cls=[n for n in ast.parse(open('/repo/lbry/wallet/wallet.py').read()).body if isinstance(n, ast.ClassDef) and n.name=='WalletStorage'][0]
ns={'os':os,'json':json,'stat':stat}; exec(compile(ast.Module(body=[cls],type_ignores=[]),'wallet.py','exec'),ns); WS=ns['WalletStorage']
d=tempfile.mkdtemp(); p=os.path.join(d,'default_wallet')
try:
    WS(p).write({'version':1,'name':'old','preferences':{},'accounts':[]})
    real=os.rename; calls=[]
    class Crash(BaseException): pass
    def win_rename(a,b):
        calls.append(a)
        if len(calls)==1: raise FileExistsError("dst exists (Windows semantics)")
        raise Crash()
    os.rename=win_rename
    try: WS(p).write({'version':1,'name':'new','preferences':{},'accounts':[]})
    except Crash: pass
    finally: os.rename=real
    print("directory after crash:", os.listdir(d))
    print("REPRODUCED" if not os.path.exists(p) else "not reproduced")
finally: shutil.rmtree(d, ignore_errors=True)
