"""F16 / C09: a transaction that pays a wallet address and ALSO carries a third-party output whose script matches none of the wallet's templates
(here: the one-byte script OP_1) cannot be stored: Database._transaction_io classifies every output with `txo.script.is_pay_pubkey_hash`, the
classification raises ValueError("No matching templates …"), the update task dies and the address's history stays behind the server's for good.
The property's quantifier includes "transactions that also carry arbitrary third-party outputs of any script kind".
(harness: the in-process server of /verif/seeded/C09-r4m1/demo.py)      run:  cd /repo && /venv/bin/python /verif/triage/f16_foreign_script.py"""
import os, sys, types
os.environ["PROTOCOL_BUFFERS_PYTHON_IMPLEMENTATION"] = "python"
ROOT = os.getcwd()
sys.path.insert(0, ROOT)


def _pkg(name):
    if name in sys.modules:
        return sys.modules[name]
    m = types.ModuleType(name)
    m.__path__ = [os.path.join(ROOT, *name.split('.'))]
    m.__package__ = name
    sys.modules[name] = m
    if '.' in name:
        parent = _pkg(name.rsplit('.', 1)[0])
        setattr(parent, name.rsplit('.', 1)[1], m)
    return m


for _n in ('lbry', 'lbry.wallet', 'lbry.extras', 'lbry.extras.daemon'):
    _pkg(_n)
sys.modules['lbry'].__version__ = '0.0.0'
for _n in ('filetype', 'appdirs', 'yaml', 'aioupnp', 'libtorrent', 'msgpack', 'pylru'):
    try:
        __import__(_n)
    except Exception:
        sys.modules[_n] = types.ModuleType(_n)
_ad = sys.modules['appdirs']
for _f in ('user_data_dir', 'user_config_dir', 'user_download_dir'):
    if not hasattr(_ad, _f):
        setattr(_ad, _f, lambda *a, **k: '/tmp')

import asyncio
import logging
from binascii import hexlify, unhexlify
from hashlib import sha256

logging.disable(logging.CRITICAL)

from lbry.wallet.ledger import RegTestLedger
from lbry.wallet.database import Database
from lbry.wallet.header import Headers
from lbry.wallet.account import Account
from lbry.wallet.wallet import Wallet
from lbry.wallet.stream import StreamController
from lbry.wallet.transaction import Transaction, Input, Output

assert sys.modules['lbry.wallet.ledger'].__file__.startswith(ROOT)


class FakeServer:
    """A tiny electrum-like server: keeps transactions, answers history/status, pushes notifications."""

    def __init__(self, ledger):
        self.ledger = ledger
        self.txs = {}        # txid -> Transaction
        self.heights = {}    # txid -> height
        self.seq = {}        # txid -> arrival number
        self.subscribed = set()
        self.notify = None   # callable(address, status)

    def addresses_of(self, tx):
        out = set()
        for txo in tx.outputs:
            try:
                if txo.has_address:
                    out.add(txo.get_address(self.ledger))
            except ValueError:
                pass
        for txi in tx.inputs:
            prev = self.txs.get(txi.txo_ref.tx_ref.id)
            if prev is not None:
                ptxo = prev.outputs[txi.txo_ref.position]
                if ptxo.has_address:
                    out.add(ptxo.get_address(self.ledger))
        return out

    def history(self, address):
        rows = [txid for txid, tx in self.txs.items() if address in self.addresses_of(tx)]
        confirmed = sorted((t for t in rows if self.heights[t] > 0), key=lambda t: (self.heights[t], self.seq[t]))
        mempool = sorted((t for t in rows if self.heights[t] <= 0), key=lambda t: self.seq[t])
        return [(t, self.heights[t]) for t in confirmed + mempool]

    def status(self, address):
        h = ''.join(f'{t}:{height}:' for t, height in self.history(address))
        return sha256(h.encode()).hexdigest() if h else None

    def merkle(self, txid):
        height = self.heights[txid]
        if height > 0:
            # every block of this toy chain holds exactly one transaction, so the proof is empty
            return {'block_height': height, 'merkle': [], 'pos': 0}
        return {'block_height': -1}

    def add(self, tx, height, announce=True):
        touched = self.addresses_of(tx)
        self.txs[tx.id] = tx
        self.heights[tx.id] = height
        self.seq.setdefault(tx.id, len(self.seq))
        touched |= self.addresses_of(tx)
        if announce:
            self.announce(touched)
        return touched

    def announce(self, addresses, order=None):
        addresses = [a for a in (order or sorted(addresses)) if a in self.subscribed]
        for a in addresses:
            self.notify(a, self.status(a))


class FakeNetwork:

    def __init__(self, server):
        self.server = server
        self.is_connected = True
        self.client = None
        self._on_header_controller = StreamController()
        self.on_header = self._on_header_controller.stream
        self._on_status_controller = StreamController()
        self.on_status = self._on_status_controller.stream
        server.notify = lambda a, s: self._on_status_controller.add([a, s])
        self.calls = []
        self.batch_gate = None      # when set to an asyncio.Event, transaction downloads wait for it
        self.batch_started = asyncio.Event()

    async def retriable_call(self, function, *args, **kwargs):
        return await function(*args, **kwargs)

    async def subscribe_address(self, address, *addresses):
        addresses = [address, *addresses]
        self.calls.append(('subscribe', tuple(addresses)))
        await asyncio.sleep(0)
        self.server.subscribed.update(addresses)
        return [self.server.status(a) for a in addresses]

    async def get_history(self, address):
        self.calls.append(('history', address))
        await asyncio.sleep(0)
        return [{'tx_hash': t, 'height': h} for t, h in self.server.history(address)]

    async def get_transaction_batch(self, txids, restricted=True):
        self.calls.append(('batch', tuple(txids)))
        self.batch_started.set()
        if self.batch_gate is not None:
            await self.batch_gate.wait()
        await asyncio.sleep(0)
        return {t: (hexlify(self.server.txs[t].raw).decode(), self.server.merkle(t)) for t in txids}

    async def get_merkle(self, txid, height):
        return self.server.merkle(txid)


async def make_wallet(receiving_gap=20, change_gap=6):
    server = FakeServer(None)
    network = FakeNetwork(server)
    ledger = RegTestLedger({'db': Database(':memory:'), 'headers': Headers(':memory:'), 'network': network})
    server.ledger = ledger
    await ledger.db.open()
    await ledger.headers.open()
    account = Account.generate(ledger, Wallet(), 'demo', {
        'name': 'deterministic-chain',
        'receiving': {'gap': receiving_gap, 'maximum_uses_per_address': 1},
        'change': {'gap': change_gap, 'maximum_uses_per_address': 1},
    })
    return ledger, server, network, account


_foreign = [0]


def foreign_input():
    _foreign[0] += 1
    src = Transaction().add_outputs([Output.pay_pubkey_hash(10**12, sha256(b'foreign%d' % _foreign[0]).digest()[:20])])
    return Input.spend(src.outputs[0])


def pay(ledger, inputs, outs):
    """inputs: list of Output (to spend) or None for a foreign input; outs: list of (address, amount)"""
    tx = Transaction()
    tx.add_inputs([foreign_input() if i is None else Input.spend(i) for i in inputs])
    tx.add_outputs([Output.pay_pubkey_hash(amount, ledger.address_to_hash160(a)) for a, amount in outs])
    return Transaction(tx.raw)


async def settle(ledger):
    for _ in range(1000):
        await asyncio.sleep(0)
        if len(ledger._update_tasks) == 0:
            await asyncio.sleep(0)
            if len(ledger._update_tasks) == 0:
                return
        await ledger._update_tasks.done.wait()


async def compare(ledger, server, account):
    """returns list of discrepancies between wallet state and server state"""
    problems = []
    addresses = await account.get_addresses()
    mine = set(addresses)
    for a in addresses:
        _, local = await ledger.get_local_status_and_history(a)
        if local != server.history(a):
            problems.append(f'history of {a}: wallet has {len(local)} entries, server has {len(server.history(a))}')
    spent = set()
    for tx in server.txs.values():
        for txi in tx.inputs:
            spent.add(txi.txo_ref.id)
    expected = {}
    for tx in server.txs.values():
        for txo in tx.outputs:
            try:
                ours = txo.has_address and txo.get_address(ledger) in mine
            except ValueError:
                ours = False
            if ours and txo.id not in spent:
                expected[txo.id] = txo.amount
    utxos = {txo.id: txo.amount for txo in await account.get_utxos(no_tx=True, no_channel_info=True)}
    if utxos != expected:
        problems.append(f'utxo set: wallet {sorted(utxos)} vs expected {sorted(expected)}')
    balance = await account.get_balance()
    if balance != sum(expected.values()):
        problems.append(f'balance: wallet {balance} vs expected {sum(expected.values())}')
    return problems




async def main():
    from lbry.wallet.script import OutputScript
    ledger, server, network, account = await make_wallet()
    await ledger.subscribe_account(account)
    await settle(ledger)
    address = (await account.receiving.get_addresses(order_by='n asc'))[0]
    tx = Transaction()
    tx.add_inputs([foreign_input()])
    tx.add_outputs([Output.pay_pubkey_hash(500, ledger.address_to_hash160(address)), Output(1000, OutputScript(b'\x51'))])   # ours + bare OP_1
    tx = Transaction(tx.raw)
    server.add(tx, 0)
    try:
        await asyncio.wait_for(settle(ledger), 10)
    except Exception as e:
        print("settle:", type(e).__name__, e)
    problems = await compare(ledger, server, account)
    await ledger.db.close()
    print("REPRODUCED (F16): " + "; ".join(problems) if problems else "not reproduced (F16)")


if __name__ == '__main__':
    asyncio.run(main())
