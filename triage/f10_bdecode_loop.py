"""F10 / C17: a negative length prefix makes _bdecode loop forever (list never advances), growing memory."""
import stubload; stubload.std()
import signal, sys
from lbry.dht.serialization.bencoding import bdecode
from lbry.dht.error import DecodeError
def alarm(*_): raise TimeoutError
signal.signal(signal.SIGALRM, alarm)
hit = 0
for name, d in {'list neg len': b'l-3:e', 'dict neg len': b'd-3:e', 'args neg len': b'di0ei0ei4el-3:ee'}.items():
    signal.alarm(2)
    try:
        bdecode(d); print(f"{name:14s} returned")
    except TimeoutError:
        hit += 1; print(f"{name:14s} STILL LOOPING after 2 s")
    except (DecodeError, Exception) as e:
        print(f"{name:14s} raised {type(e).__name__}")
    finally:
        signal.alarm(0)
print("REPRODUCED" if hit else "not reproduced")
