"""F7 / C14: Account.fund(everything=True) reads then reserves outside the reservation lock;
a concurrent Transaction.create selects the same output."""
import stubload; stubload.std()
import sys, types, asyncio, tempfile, os
sys.modules['lbry'].__version__='0.113.0'
stubload.stub_pkgs('lbry.schema.types','lbry.schema.types.v2')
class Purchase:
    def __init__(self,*a): pass
    @classmethod
    def has_start_byte(cls,d): return False
class Support: pass
stubload.stub_module('lbry.schema.purchase', Purchase=Purchase)
stubload.stub_module('lbry.schema.support', Support=Support)
stubload.stub_module('lbry.schema.result', Outputs=object, INVALID='INVALID', NOT_FOUND='NOT_FOUND')
stubload.stub_module('lbry.schema.attrs', country_str_to_int=lambda c:0, country_int_to_str=lambda i:'US')
class Network:
    def __init__(self, ledger):
        from lbry.wallet.stream import StreamController
        self.on_header=StreamController().stream; self.on_status=StreamController().stream
stubload.stub_module('lbry.wallet.network', Network=Network)
import lbry.wallet.ledger as L
from lbry.wallet.ledger import RegTestLedger
from lbry.wallet.account import Account
from lbry.wallet.transaction import Transaction, Output, Input
from lbry.wallet.wallet import Wallet
from lbry.wallet.header import UnvalidatedHeaders
from lbry.wallet.constants import COIN, NULL_HASH32
from lbry.wallet.database import Database

async def main():
    d=tempfile.mkdtemp()
    ledger=RegTestLedger({'db': Database(os.path.join(d,'blockchain.db')), 'headers': UnvalidatedHeaders(':memory:'), 'data_path': d})
    await ledger.db.open()
    await ledger.headers.open()
    wallet=Wallet()
    account=Account.generate(ledger, wallet)
    await account.ensure_address_gap() if False else None
    # generate addresses without network: add keys directly
    async with account.receiving.address_generator_lock:
        addrs=await account.receiving._generate_keys(0,5)
    async with account.change.address_generator_lock:
        await account.change._generate_keys(0,2)
    # fund: one fake confirmed tx paying 5 outputs of 10 LBC to our addresses
    class FakeIn: pass
    from lbry.wallet.transaction import TXORef
    from lbry.wallet.hash import TXRefImmutable
    cb=Input(TXORef(TXRefImmutable.from_hash(NULL_HASH32, 0), 0xFFFFFFFF), b'\x01\x02coinbase')
    funding=Transaction(height=1, is_verified=True).add_inputs([cb]).add_outputs(
        [Output.pay_pubkey_hash(10*COIN, ledger.address_to_hash160(a)) for a in addrs[:5]])
    # needs at least one input to serialise sensibly: coinbase-like
    from lbry.wallet.transaction import TXORef
    from lbry.wallet.hash import TXRefImmutable
    from lbry.wallet.script import InputScript
    for a in addrs[:5]:
        await ledger.db.save_transaction_io(funding, a, ledger.address_to_hash160(a), f"{funding.id}:1:")
    print("utxos:", len(await account.get_utxos()))
    dest=ledger.address_to_hash160(addrs[5])
    async def build_A():   # account_fund --everything (to itself), not broadcast here: returns tx
        return await account.fund(account, everything=True, broadcast=True)
    async def build_B():
        return await Transaction.create([], [Output.pay_pubkey_hash(3*COIN, dest)], [account], account)
    # broadcast stub so that fund(broadcast=True) keeps outputs reserved like a real broadcast
    async def fake_broadcast(tx): return True
    ledger.broadcast=fake_broadcast
    txA, txB = await asyncio.gather(build_A(), build_B(), return_exceptions=True)
    for n, t in (('A', txA), ('B', txB)):
        if isinstance(t, Exception): print(n, "refused:", type(t).__name__)
    inA=set() if isinstance(txA, Exception) else {txi.txo_ref.id for txi in txA.inputs}
    inB=set() if isinstance(txB, Exception) else {txi.txo_ref.id for txi in txB.inputs}
    print("A inputs:", len(inA), "B inputs:", len(inB), "SHARED:", len(inA&inB), sorted(inA&inB))
    print("REPRODUCED" if inA&inB else "not reproduced")
    await ledger.db.close()
    import shutil; shutil.rmtree(d, ignore_errors=True)
asyncio.run(main())
