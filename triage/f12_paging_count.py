"""
F12 / C12 (harness adapted from seeded/C12-m2/demo.py; all announcer counts 1..100 on the UNCHANGED tree)
C12 / m2: when more peers hold a blob than fit in one findValue reply, paging must return all of them.

One node stores the announcements of N announcers for a blob (N > K); a second node looks the blob up.
Every announcer must come back from the value lookup, for several N.
"""
import sys, types, os, asyncio, socket, logging
ROOT = "/repo"
sys.path.insert(0, ROOT)


def pkg(name):
    if name in sys.modules:
        return sys.modules[name]
    m = types.ModuleType(name)
    m.__path__ = [os.path.join(ROOT, *name.split('.'))]
    m.__package__ = name
    sys.modules[name] = m
    if '.' in name:
        parent = pkg(name.rsplit('.', 1)[0])
        setattr(parent, name.rsplit('.', 1)[1], m)
    return m


for n in ('lbry', 'lbry.wallet', 'lbry.schema', 'lbry.blob', 'lbry.dht', 'lbry.dht.protocol', 'lbry.dht.serialization',
          'lbry.crypto', 'lbry.stream', 'lbry.blob_exchange', 'lbry.extras', 'lbry.extras.daemon', 'lbry.file',
          'lbry.torrent'):
    pkg(n)


class Claim:
    pass


stub = types.ModuleType('lbry.schema.claim')
stub.Claim = Claim
sys.modules['lbry.schema.claim'] = stub
sys.modules['lbry.schema'].claim = stub

logging.disable(logging.CRITICAL)

from lbry.dht import constants  # noqa: E402
from lbry.dht.node import Node  # noqa: E402
from lbry.dht.peer import PeerManager, make_kademlia_peer  # noqa: E402

assert os.path.realpath(sys.modules['lbry.dht.node'].__file__).startswith(os.path.realpath(ROOT))


class Network:
    """loss-free in-memory datagram network, delivery through the event loop (asynchronous, in order)"""
    def __init__(self, loop):
        self.loop = loop
        self.endpoints = {}
        loop.create_datagram_endpoint = self.create_datagram_endpoint

    async def create_datagram_endpoint(self, proto_lam, from_addr):
        network = self
        protocol = proto_lam()

        class Transport(asyncio.DatagramTransport):
            closed = False

            def sendto(self, data, to_addr=None):
                rx = network.endpoints.get(to_addr)
                if rx is not None:
                    network.loop.call_soon(rx.datagram_received, data, from_addr)

            def is_closing(self):
                return self.closed

            def close(self):
                self.closed = True
                network.endpoints.pop(from_addr, None)

        transport = Transport()
        protocol.connection_made(transport)
        self.endpoints[from_addr] = protocol
        return transport, protocol


def ip(i):
    return socket.inet_ntoa(int(i + 0x01020301).to_bytes(4, 'big'))


async def value_lookup(node, blob_hash: bytes):
    found = set()
    finder = node.get_iterative_value_finder(blob_hash)
    try:
        async for peers in finder:
            for peer in peers:
                found.add((peer.address, peer.tcp_port))
    finally:
        await finder.aclose()
    return found


async def main():
    loop = asyncio.get_running_loop()
    Network(loop)

    async def listening_node(i):
        node = Node(loop, PeerManager(loop), constants.generate_id(i), 4444, 4444, 3333 + i, ip(i), rpc_timeout=0.5)
        await node.start_listening(ip(i))
        return node

    storing = await listening_node(0)
    searcher = await listening_node(1)
    storing_peer = make_kademlia_peer(storing.protocol.node_id, ip(0), 4444)
    announcers = [await listening_node(i) for i in range(2, 2 + 100)]

    # the searcher learns about the storing node
    await searcher.protocol.get_rpc_peer(storing_peer).ping()
    for _ in range(50):
        if searcher.protocol.routing_table.get_peers():
            break
        await asyncio.sleep(0.01)
    if [p.node_id for p in searcher.protocol.routing_table.get_peers()] != [storing.protocol.node_id]:
        return "setup: searcher did not add the storing node to its routing table"

    problems = []
    for count in tuple(range(1, 101)):
        blob_hash = constants.generate_id(f"blob-{count}")
        for announcer in announcers[:count]:
            _, ok = await announcer.protocol.store_to_peer(blob_hash, storing_peer)
            if not ok:
                return f"setup: store from {announcer.protocol.external_ip} failed"
        if len(storing.protocol.data_store.get_peers_for_blob(blob_hash)) != count:
            return f"setup: storing node holds {len(storing.protocol.data_store.get_peers_for_blob(blob_hash))} " \
                   f"peers for the blob, expected {count}"
        expected = {(a.protocol.external_ip, a.protocol.peer_port) for a in announcers[:count]}
        found = await asyncio.wait_for(value_lookup(searcher, blob_hash), 20)
        if found != expected:
            problems.append(f"{count} announcers: lookup returned {len(found & expected)} of them"
                            f"{' plus ' + str(len(found - expected)) + ' unexpected' if found - expected else ''}")
    for node in [storing, searcher] + announcers:
        node.stop()
    if problems:
        return "paged value lookup lost peers - " + "; ".join(problems)
    return None


if __name__ == '__main__':
    problem = asyncio.run(main())
    print(problem or "all announcer counts 1..100 returned completely")
    print("REPRODUCED" if problem else "not reproduced")
