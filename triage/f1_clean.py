"""F1 / C19: DiskSpaceManager._clean deletes while usage is under a non-zero limit."""
import stubload; stubload.std()
import asyncio, types
from lbry.blob.disk_space_manager import DiskSpaceManager
class DB:
    def __init__(s): s.blobs=[('h%d'%i, 2*1024*1024, i) for i in range(10)]
    async def get_stored_blob_disk_usage(s):
        t=sum(b[1] for b in s.blobs); return {'network_storage':0,'content_storage':t,'private_storage':0,'total':t}
    async def get_stored_blobs(s, is_mine, is_network_blob=False): return [] if is_network_blob else list(s.blobs)
    async def stop_all_files(s): pass
class BM:
    def __init__(s, db): s.db=db
    async def delete_blobs(s, hashes, delete_from_db=True): s.db.blobs=[b for b in s.db.blobs if b[0] not in hashes]
async def main():
    db=DB(); cfg=types.SimpleNamespace(network_storage_limit=0, blob_storage_limit=1000)   # 20 MB used, limit 1000 MB
    dsm=DiskSpaceManager(cfg, db, BM(db))
    left=[]
    for _ in range(3):
        await dsm.clean(); left.append(len(db.blobs))
    print("blobs left after each pass (10 at start, 980 MB under the limit):", left)
    print("REPRODUCED" if left[-1] < 10 else "not reproduced")
asyncio.run(main())
