"""F3 / C11: _join_buckets leaves a hole in the key space."""
import stubload; stubload.std()
import asyncio
from lbry.dht.protocol.routing_table import TreeRoutingTable
from lbry.dht.peer import PeerManager, make_kademlia_peer
async def main():
    loop=asyncio.get_event_loop(); rt=TreeRoutingTable(loop, PeerManager(loop), b'\x00'*48, split_buckets_under_index=1)
    async def probe(p): return True
    n=0
    def mk(i):
        nonlocal n; n+=1
        return make_kademlia_peer(i.to_bytes(48,'big'), f"1.2.{n//250}.{n%250+1}", 4444)
    for base in (383,382,381,380):
        for k in range(8): await rt.add_peer(mk((1<<base)+k+1), probe)
    for p in list(rt.buckets[2].peers): rt.remove_peer(p)
    prev=0; gaps=[]
    for b in rt.buckets:
        if b.range_min!=prev: gaps.append((prev,b.range_min))
        prev=b.range_max
    print("gaps in [0, 2**384):", [(hex(a)[:14]+'…', b-a) for a,b in gaps])
    if gaps:
        key=gaps[0][0].to_bytes(48,'big')
        try: await rt.add_peer(make_kademlia_peer(key,"9.9.9.9",4444), probe); print("added")
        except IndexError as e: print("add_peer for the uncovered id raises IndexError: REPRODUCED")
    else: print("not reproduced")
asyncio.run(main())
