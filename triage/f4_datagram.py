"""F4, F4e / C17: exceptions escaping KademliaProtocol.datagram_received."""
import stubload; stubload.std()
import asyncio
from lbry.dht.protocol.protocol import KademliaProtocol
from lbry.dht.peer import PeerManager
from lbry.dht.serialization.datagram import RequestDatagram, REQUEST_TYPE
class T:
    sent=[]
    def is_closing(s): return False
    def sendto(s,d,a): s.sent.append((d,a))
    def close(s): pass
async def main():
    import logging; logging.disable(logging.CRITICAL)
    loop=asyncio.get_event_loop()
    p=KademliaProtocol(loop, PeerManager(loop), b'\x01'*48, '1.2.3.4', 4444, 3333); p.connection_made(T())
    good=RequestDatagram.make_ping(b'\x03'*48, b'\x02'*20).bencode()
    cases={'truncated "d"': b'd', 'truncated prefix': good[:10], 'field 0 renamed': good.replace(b'di0ei0e', b'di9ei0e',1),
           'type 0->2': good.replace(b'di0ei0e', b'di0ei2e',1), 'nesting 5000': b'l'*5000,
           'F4e long method': RequestDatagram(REQUEST_TYPE, b'\x02'*20, b'\x03'*48, b'A'*2000, []).bencode()}
    hit=0
    for name,d in cases.items():
        try: p.datagram_received(d, ('8.8.8.8',4444)); print(f"{name:20s} handled")
        except Exception as e: hit+=1; print(f"{name:20s} ESCAPES: {type(e).__name__}")
    print("REPRODUCED" if hit else "not reproduced")
asyncio.run(main())
