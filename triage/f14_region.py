"""F14 / C16: a language region that starts with 'R' does not read back as written.

country_str_to_int prefixes 'R' to the 3-character UN M49 codes ('001' -> enum name 'R001'); country_int_to_str strips a leading 'R' from EVERY
name that starts with one — also from the two-letter countries RE, RO, RS, RU, RW.   run:  cd /repo && /venv/bin/python /verif/triage/f14_region.py"""
import os, sys
os.environ["PROTOCOL_BUFFERS_PYTHON_IMPLEMENTATION"] = "python"
sys.path.insert(0, os.getcwd())
import types
sys.modules.setdefault("filetype", types.ModuleType("filetype"))
from lbry.schema.attrs import Language, country_str_to_int, country_int_to_str
from lbry.schema.types.v2.claim_pb2 import Language as LanguageMessage
bad = []
for region in ("US", "RU", "RO", "RS", "RW", "RE", "001", "419"):
    lang = Language(LanguageMessage())
    lang.langtag = f"ru-{region}" if region.isalpha() else f"es-{region}"
    back = lang.region
    print(f"region {region!r:6} stored as {country_str_to_int(region):4d} reads back {back!r}")
    if back != region:
        bad.append(region)
print("REPRODUCED (F14): " + ", ".join(bad) if bad else "not reproduced (F14)")
