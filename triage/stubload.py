"""triage helper: import lbry submodules without running package __init__ files / protobuf"""
import sys, types, os
ROOT='/repo'
def pkg(name):
    if name in sys.modules: return sys.modules[name]
    m=types.ModuleType(name); m.__path__=[os.path.join(ROOT,*name.split('.'))]; m.__package__=name
    sys.modules[name]=m
    if '.' in name:
        parent=pkg(name.rsplit('.',1)[0]); setattr(parent,name.rsplit('.',1)[1],m)
    return m
def stub_pkgs(*names):
    for n in names: pkg(n)
def stub_module(name, **attrs):
    m=types.ModuleType(name)
    for k,v in attrs.items(): setattr(m,k,v)
    sys.modules[name]=m
    if '.' in name:
        parent=pkg(name.rsplit('.',1)[0]); setattr(parent,name.rsplit('.',1)[1],m)
    return m
def std():
    stub_pkgs('lbry','lbry.wallet','lbry.schema','lbry.blob','lbry.dht','lbry.dht.protocol','lbry.dht.serialization',
              'lbry.crypto','lbry.stream','lbry.blob_exchange','lbry.extras','lbry.extras.daemon')
    class Claim: pass
    stub_module('lbry.schema.claim', Claim=Claim)
