"""F11 / C17: datagrams whose rpc_id / node_id are bencoded *lists* of the right length pass the len() checks
of the datagram classes and raise TypeError (unhashable) later, out of datagram_received."""
import stubload; stubload.std()
import asyncio
from lbry.dht.protocol.protocol import KademliaProtocol
from lbry.dht.peer import PeerManager
from lbry.dht.serialization.bencoding import bencode
class T:
    def is_closing(s): return False
    def sendto(s,d,a): pass
    def close(s): pass
async def main():
    import logging; logging.disable(logging.CRITICAL)
    loop=asyncio.get_event_loop()
    p=KademliaProtocol(loop, PeerManager(loop), b'\x01'*48, '1.2.3.4', 4444, 3333); p.connection_made(T())
    cases={
      'request, node_id is a list of 48 ints': bencode({0:0, 1:b'\x02'*20, 2:[3]*48, 3:b'ping', 4:[{b'protocolVersion':1}]}),
      'response, rpc_id is a list of 20 ints': bencode({0:1, 1:[2]*20, 2:b'\x03'*48, 3:b'pong'}),
      'error, rpc_id is a list of 20 ints':    bencode({0:2, 1:[2]*20, 2:b'\x03'*48, 3:b'x', 4:b'y'}),
    }
    hit=0
    for name,d in cases.items():
        try: p.datagram_received(d, ('8.8.8.8',4444)); print(f"{name:42s} handled")
        except Exception as e: hit+=1; print(f"{name:42s} ESCAPES: {type(e).__name__}: {e}")
    print("REPRODUCED" if hit else "not reproduced")
asyncio.run(main())
