"""F2 / C20: float formatting of dewies; lenient parse grammar."""
import stubload; stubload.std()
from lbry.wallet.util import satoshis_to_coins, coins_to_satoshis
n=10000000000000002
print(n, '->', satoshis_to_coins(n), "REPRODUCED (F2a)" if satoshis_to_coins(n)!='100000000.00000002' else "not reproduced")
for s in ("1.0\n", "١.٠"):
    try: print(repr(s), 'accepted ->', coins_to_satoshis(s), "REPRODUCED (F2b)")
    except ValueError: print(repr(s), 'rejected: not reproduced')
