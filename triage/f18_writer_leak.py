"""F18 / C01: a pending writer is NOT shut down when the blob becomes verified, if the same peer re-requested the blob.

AbstractBlob.get_blob_writer registers writers under the key (address, port); the done-callback `remove_writer` of a writer deletes THE KEY, whoever is
registered under it.  Same peer: writer 1 is closed (its future's callbacks are still queued) and writer 2 handed out in the same loop pass; writer 1's
remove_writer then unregisters writer 2.  The duplicate guard is now blind for that peer: writer 3 is handed out while writer 2 is open.  Writer 2 delivers
the correct bytes: its own remove_writer deletes the key again — writer 3's registration — and the winner's loop over `self.writers` finds nobody to close.
run:  cd /repo && /venv/bin/python /verif/triage/f18_writer_leak.py"""
import asyncio, hashlib, os, sys
os.environ["PROTOCOL_BUFFERS_PYTHON_IMPLEMENTATION"] = "python"
sys.path.insert(0, os.getcwd())
import types
for _n in ("filetype", "appdirs", "yaml", "aioupnp", "libtorrent"):
    sys.modules.setdefault(_n, types.ModuleType(_n))
import logging
logging.disable(logging.CRITICAL)
from lbry.blob.blob_file import BlobBuffer


async def main():
    loop = asyncio.get_event_loop()
    data = os.urandom(5000)
    h = hashlib.sha384(data).hexdigest()
    blob = BlobBuffer(loop, h, len(data))
    peer = ("10.0.0.1", 3333)
    w1 = blob.get_blob_writer(*peer)
    w1.close_handle()                       # the peer's first attempt is abandoned …
    w2 = blob.get_blob_writer(*peer)        # … and it asks again in the same loop pass
    await asyncio.sleep(0)                  # writer 1's done-callbacks run now
    try:
        w3 = blob.get_blob_writer(*peer)    # duplicate guard no longer sees writer 2
    except OSError as e:
        w2.write(data)
        await blob.verified.wait()
        print(f"third writer refused while the second is open ({e}); blob verified={blob.get_is_verified()}")
        print("not reproduced (F18)")
        return
    w2.write(data)                          # writer 2 delivers a complete correct copy
    await blob.verified.wait()
    await asyncio.sleep(0)
    leaked = not w3.closed() and not w3.finished.done()
    print(f"blob verified={blob.get_is_verified()}  writer3: closed={w3.closed()} finished.done={w3.finished.done()} registered={w3 in blob.writers.values()}")
    print("REPRODUCED (F18): a pending writer stays open after the blob was verified" if leaked else "not reproduced (F18)")

asyncio.run(main())
