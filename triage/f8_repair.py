"""F8 / C07: Headers.repair never examines the tip when (height - start) % 36 == 0."""
import stubload; stubload.std()
import asyncio, os, struct, tempfile, shutil
from binascii import hexlify
from lbry.wallet.header import UnvalidatedHeaders
from lbry.crypto.hash import double_sha256
def chain(n):
    hs=[]; prev=b'\x00'*32
    for i in range(n):
        h=struct.pack('<I',1)+prev+bytes([i%256])*32+b'\x00'*32+struct.pack('<III',1500000000+i*150,0x207fffff,i); hs.append(h); prev=double_sha256(h)
    return hs
class H(UnvalidatedHeaders): checkpoints={}; genesis_hash=None
async def run(n, bad):
    hs=chain(n); H.genesis_hash=hexlify(double_sha256(hs[0])[::-1]); raw=bytearray(b''.join(hs)); raw[bad*112+4:bad*112+36]=b'\xaa'*32
    d=tempfile.mkdtemp()
    try:
        p=os.path.join(d,'headers'); open(p,'wb').write(raw); h=H(p); await h.open()
        ok=all(h._read(i)[4:36]==double_sha256(h._read(i-1)) for i in range(1,len(h)))
        print(f"n={n} damaged={bad} loaded={len(h)} chain_links={ok}"); return ok
    finally: shutil.rmtree(d, ignore_errors=True)
import logging; logging.disable(logging.CRITICAL)
start=999   # no checkpoints: repair starts at -1+1000
a=asyncio.run(run(start+37, start+36)); b=asyncio.run(run(start+38, start+37))
print("REPRODUCED" if (not a and b) else "not reproduced")
