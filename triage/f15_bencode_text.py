"""F15 / C17: _bencode(str) writes the number of CHARACTERS as the length prefix, the payload is the UTF-8 BYTES.

An error datagram whose text is not pure ASCII (ErrorDatagram keeps exception_type / response as str) encodes to a datagram that does not decode
back to the same message.   run:  cd /repo && /venv/bin/python /verif/triage/f15_bencode_text.py"""
import sys, os
sys.path.insert(0, "/verif/triage")
import stubload; stubload.std()
from lbry.dht.serialization.bencoding import bencode, bdecode, _bencode
from lbry.dht.serialization.datagram import ErrorDatagram, decode_datagram, ERROR_TYPE
from lbry.dht.error import DecodeError
text = "não encontrado: ключ"
print("_bencode(%r) = %r" % (text, _bencode(text)))
e = ErrorDatagram(ERROR_TYPE, b"1" * 20, b"2" * 48, b"<class 'ValueError'>", text.encode())
wire = e.bencode()
try:
    back = decode_datagram(wire)
    same = back.response == text
    print("decoded response:", repr(back.response))
except (DecodeError, ValueError, Exception) as err:
    same = False
    print("decode failed:", type(err).__name__, err)
print("not reproduced (F15)" if same else "REPRODUCED (F15): an error message with non-ASCII text does not survive encode/decode")
