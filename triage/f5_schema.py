"""F5a, F5b / C16: accessor asymmetry; URL accepted with trailing newline."""
import stubload; stubload.std()
import types
from lbry.schema.url import URL
try: print("URL.parse('foo\\n') ->", repr(str(URL.parse("foo\n"))), "REPRODUCED (F5b)")
except ValueError: print("rejected: not reproduced (F5b)")
class D: pass
stubload.stub_pkgs('lbry.schema.types','lbry.schema.types.v2')
stubload.stub_module('lbry.schema.types.v2.claim_pb2', Fee=D, Location=D, Language=D)
stubload.stub_module('lbry.schema.mime_types', guess_media_type=lambda p:(None,None))
stubload.stub_module('lbry.constants', COIN=10**8)
stubload.stub_module('lbry.error', MissingPublishedFileError=Exception, EmptyPublishedFileError=Exception)
from lbry.schema.attrs import Source
s=Source(types.SimpleNamespace(bt_infohash=b'')); s.bt_infohash_bytes=b'abc'
print("set b'abc' -> get", repr(s.bt_infohash_bytes), "REPRODUCED (F5a)" if s.bt_infohash_bytes!=b'abc' else "not reproduced (F5a)")
