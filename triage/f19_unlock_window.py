import sys, types, os, json, tempfile, shutil, asyncio

ROOT = os.environ.get('LBRY_ROOT', '/repo')
sys.path.insert(0, ROOT)


def pkg(name):
    if name in sys.modules:
        return sys.modules[name]
    m = types.ModuleType(name)
    m.__path__ = [os.path.join(ROOT, *name.split('.'))]
    m.__package__ = name
    sys.modules[name] = m
    if '.' in name:
        parent = pkg(name.rsplit('.', 1)[0])
        setattr(parent, name.rsplit('.', 1)[1], m)
    return m


for n in ('lbry', 'lbry.wallet', 'lbry.schema', 'lbry.blob', 'lbry.dht', 'lbry.dht.protocol',
          'lbry.dht.serialization', 'lbry.crypto', 'lbry.stream', 'lbry.blob_exchange', 'lbry.extras',
          'lbry.extras.daemon', 'lbry.file', 'lbry.torrent'):
    pkg(n)


sys.modules['lbry'].__version__ = '0.0.0'


class Claim:
    pass


def stub_module(name, **attrs):
    stub = types.ModuleType(name)
    for key, value in attrs.items():
        setattr(stub, key, value)
    sys.modules[name] = stub
    setattr(sys.modules[name.rsplit('.', 1)[0]], name.rsplit('.', 1)[1], stub)


# modules that need the (unloadable) generated protobuf classes; not used by the wallet file code
stub_module('lbry.schema.claim', Claim=Claim)
stub_module('lbry.schema.base', Signable=type('Signable', (), {}))
stub_module('lbry.schema.purchase', Purchase=type('Purchase', (), {}))
stub_module('lbry.schema.support', Support=type('Support', (), {}))
stub_module('lbry.schema.result', Outputs=type('Outputs', (), {}), INVALID=1, NOT_FOUND=2)

from lbry.wallet.stream import StreamController  # noqa: E402


class Network:
    # stands in for lbry.wallet.network (needs protobuf/filetype at import); never connected here
    def __init__(self, ledger):
        self.ledger = ledger
        self.on_header = StreamController().stream
        self.on_status = StreamController().stream
        self.is_connected = False


stub_module('lbry.wallet.network', Network=Network)

from lbry.wallet.wallet import Wallet, WalletStorage  # noqa: E402
from lbry.wallet.account import Account  # noqa: E402
from lbry.wallet.ledger import RegTestLedger  # noqa: E402
from lbry.wallet.database import Database  # noqa: E402
from lbry.wallet.header import Headers  # noqa: E402


"""F19 triage: Wallet.unlock hands control back to the event loop (ensure_cache_primed awaits the database) after the accounts are decrypted and BEFORE
the password is recorded.  A wallet.save() that runs in that window (any API call that saves: preference_set, account_set, ...) finds
ENCRYPT_ON_DISK set, no password and an unlocked wallet, takes the "reset the preference and save unencrypted" branch and writes the seed in clear.

usage: /venv/bin/python triage/f19_unlock_window.py     (LBRY_ROOT=<tree> to run against another checkout)
exit 0 + "PLAINTEXT WRITTEN" lines = defect present; exit 0 + "ok" = repaired tree"""


async def scenario(tmp):
    path = os.path.join(tmp, 'wallet.json')
    ledger = RegTestLedger({'db': Database(':memory:'), 'headers': Headers(':memory:')})
    await ledger.db.open()
    try:
        wallet = Wallet('w', storage=WalletStorage(path))
        account = Account.generate(ledger, wallet, name='first')
        seed = account.seed
        wallet.encrypt('correct horse')
        wallet.lock()
        wallet.save()
        assert seed not in open(path).read()
        # the daemon after a restart: the wallet is loaded from the file, locked, no password in memory
        wallet.encryption_password = None          # state of a freshly loaded encrypted wallet
        assert wallet.is_locked and wallet.preferences.get('encrypt-on-disk', False)

        async def other_api_call():
            await asyncio.sleep(0)                  # runs as soon as unlock() awaits the database
            wallet.preferences['theme'] = 'dark'    # what preference_set does ...
            wallet.save()                           # ... followed by save()

        task = asyncio.ensure_future(other_api_call())
        ok = await wallet.unlock('correct horse')
        await task
        raw = open(path).read()
        print('unlock returned', ok, '| encrypt-on-disk now', wallet.preferences.get('encrypt-on-disk', False))
        if seed in raw:
            print('PLAINTEXT WRITTEN: the wallet file of an encrypted wallet contains the seed after a save() that ran during unlock()')
        else:
            print('ok: file still holds ciphertext only')
    finally:
        await ledger.db.close()


tmp = tempfile.mkdtemp(prefix='f19-')
try:
    asyncio.run(scenario(tmp))
finally:
    shutil.rmtree(tmp, ignore_errors=True)
