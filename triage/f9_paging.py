"""F9 / C12: one hostile peer keeps an iterative value lookup running indefinitely."""
import stubload; stubload.std()
import asyncio, types
from lbry.dht.peer import PeerManager, make_kademlia_peer
from lbry.dht.protocol.iterative_find import IterativeValueFinder
from lbry.dht.serialization.datagram import make_compact_address, PAGE_KEY
calls=0
class RPC:
    async def find_value(s, key, page=0):
        global calls; calls+=1; b=page*8
        addrs=[bytes(make_compact_address((b+i+1).to_bytes(48,'big'), f"8.{(b+i)//62500%250}.{(b+i)//250%250}.{(b+i)%250+1}", 4000+i)) for i in range(8)]
        await asyncio.sleep(0.001); return {b'token': b'\0'*48, b'contacts': [], key: addrs, PAGE_KEY: 2**40}
async def main():
    loop=asyncio.get_event_loop()
    proto=types.SimpleNamespace(peer_manager=PeerManager(loop), node_id=b'\xff'*48, external_ip='7.7.7.7', udp_port=4444,
                                get_rpc_peer=lambda p: RPC(), data_store=types.SimpleNamespace(has_peers_for_blob=lambda k: False))
    f=IterativeValueFinder(loop, proto, b'\x02'*48, -1, [make_kademlia_peer(b'\x01'*48,'6.6.6.6',4444)])
    async def consume():
        async for _ in f: pass
    try: await asyncio.wait_for(consume(), 3.0); print("finished after", calls, "probes: not reproduced")
    except asyncio.TimeoutError: print("still running after 3 s,", calls, "probes to one hostile peer: REPRODUCED")
asyncio.run(main())
