"""F13 / C03: CoinSelector.random_draw passes random= to Random.shuffle, which Python >= 3.11 no longer accepts:
a build that falls through to random_draw fails with TypeError instead of succeeding / InsufficientFundsError."""
import stubload; stubload.std()
import sys, types
for n in ('lbry.schema.purchase','lbry.schema.support','lbry.schema.base'):
    m=types.ModuleType(n); sys.modules[n]=m
sys.modules['lbry.schema.purchase'].Purchase=type('Purchase',(),{})
sys.modules['lbry.schema.support'].Support=type('Support',(),{})
sys.modules['lbry.schema.base'].Signable=type('Signable',(),{})
try:
    from lbry.wallet.coinselection import CoinSelector
except Exception as e:
    print("import problem:", e); raise
class E:
    def __init__(s,a): s.effective_amount=a; s.fee=1; s.txo=None
    def __lt__(s,o): return s.effective_amount<o.effective_amount
sel=CoinSelector(target=100, cost_of_change=10, seed="x")
try:
    r=sel.random_draw([E(60),E(70)], 130)
    print("random_draw returned", [x.effective_amount for x in r]); print("not reproduced")
except TypeError as e:
    print("random_draw raised TypeError:", e, f"(python {sys.version.split()[0]})"); print("REPRODUCED")
