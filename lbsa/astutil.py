"""Small AST helpers shared by every analysis."""
import ast

FUNC_NODES = (ast.FunctionDef, ast.AsyncFunctionDef)
SCOPE_NODES = (ast.FunctionDef, ast.AsyncFunctionDef, ast.Lambda, ast.ClassDef)

MUTATORS = frozenset("""append add update pop remove clear insert extend popitem discard setdefault
set_result set_exception cancel set sort reverse write truncate appendleft popleft
intersection_update difference_update symmetric_difference_update""".split())


def dotted(node):
    """'self.finished.set_result' for a Name/Attribute chain, else None."""
    parts = []
    while isinstance(node, ast.Attribute):
        parts.append(node.attr)
        node = node.value
    if isinstance(node, ast.Name):
        parts.append(node.id)
        return ".".join(reversed(parts))
    if isinstance(node, ast.Call) and isinstance(node.func, ast.Name) and node.func.id == "super" and parts:
        parts.append("super()")
        return ".".join(reversed(parts))
    return None


def call_name(call):
    """last identifier of the callee of a Call ('set_result', 'len'), else None."""
    f = call.func
    if isinstance(f, ast.Attribute):
        return f.attr
    if isinstance(f, ast.Name):
        return f.id
    return None


def call_dotted(call):
    return dotted(call.func)


def unparse(node):
    try:
        return ast.unparse(node)
    except Exception:  # pragma: no cover
        return "<unparse failed>"


def norm_text(node):
    """Position independent key for a statement/expression: its unparsed text
    (ast.unparse normalises whitespace, quotes, parentheses and comments)."""
    return " ".join(unparse(node).split())


def walk_local(node):
    """ast.walk that does not descend into nested function / lambda / class bodies
    (their code runs at another time).  The nested def node itself is yielded."""
    stack = [node]
    while stack:
        n = stack.pop()
        yield n
        if n is not node and isinstance(n, SCOPE_NODES):
            continue
        stack.extend(ast.iter_child_nodes(n))


def walk_local_body(func_node):
    """All nodes executed when the function body runs (not nested scopes' bodies).
    Decorators, defaults and annotations of the function itself are excluded."""
    for s in func_node.body:
        if isinstance(s, SCOPE_NODES):
            yield s               # a nested def directly in the body: its code runs at another time
        else:
            yield from walk_local(s)


def local_calls(node):
    return [n for n in walk_local(node) if isinstance(n, ast.Call)]


def set_parents(tree):
    for parent in ast.walk(tree):
        for child in ast.iter_child_nodes(parent):
            child._parent = parent
    tree._parent = None


def ancestors(node):
    n = getattr(node, "_parent", None)
    while n is not None:
        yield n
        n = getattr(n, "_parent", None)


def enclosing(node, types):
    for a in ancestors(node):
        if isinstance(a, types):
            return a
    return None


def enclosing_stmt(node):
    n = node
    while n is not None and not isinstance(n, ast.stmt):
        n = getattr(n, "_parent", None)
    return n


def names_loaded(node):
    return {n.id for n in ast.walk(node) if isinstance(n, ast.Name)}


def attr_chains(node):
    """every dotted chain (and its prefixes of length >= 2) mentioned in node"""
    out = set()
    for n in ast.walk(node):
        if isinstance(n, ast.Attribute):
            d = dotted(n)
            if d:
                parts = d.split(".")
                for i in range(2, len(parts) + 1):
                    out.add(".".join(parts[:i]))
    return out


def const_value(node):
    if isinstance(node, ast.Constant):
        return node.value
    raise ValueError


def is_const(node, value=None):
    if not isinstance(node, ast.Constant):
        return False
    return value is None or (node.value == value and type(node.value) is type(value))


def kwarg(call, name):
    for k in call.keywords:
        if k.arg == name:
            return k.value
    return None


def stmt_targets(stmt):
    """(names, chains) written by a single (non-compound part of a) statement."""
    names, chains = set(), set()

    def tgt(t):
        if isinstance(t, ast.Name):
            names.add(t.id)
        elif isinstance(t, (ast.Tuple, ast.List)):
            for e in t.elts:
                tgt(e)
        elif isinstance(t, ast.Starred):
            tgt(t.value)
        elif isinstance(t, ast.Attribute):
            d = dotted(t)
            if d:
                chains.add(d)
        elif isinstance(t, ast.Subscript):
            d = dotted(t.value)
            if d:
                if "." in d:
                    chains.add(d)
                else:
                    names.add(d)  # x[k] = v changes what facts about x mean

    if isinstance(stmt, ast.Assign):
        for t in stmt.targets:
            tgt(t)
    elif isinstance(stmt, (ast.AugAssign, ast.AnnAssign)):
        if not (isinstance(stmt, ast.AnnAssign) and stmt.value is None):
            tgt(stmt.target)
    elif isinstance(stmt, ast.Delete):
        for t in stmt.targets:
            tgt(t)
    elif isinstance(stmt, (ast.For, ast.AsyncFor)):
        tgt(stmt.target)
    elif isinstance(stmt, (ast.With, ast.AsyncWith)):
        for it in stmt.items:
            if it.optional_vars is not None:
                tgt(it.optional_vars)
    elif isinstance(stmt, ast.ExceptHandler):
        if stmt.name:
            names.add(stmt.name)
    elif isinstance(stmt, (ast.Import, ast.ImportFrom)):
        for a in stmt.names:
            names.add((a.asname or a.name).split(".")[0])
    elif isinstance(stmt, (ast.FunctionDef, ast.AsyncFunctionDef, ast.ClassDef)):
        names.add(stmt.name)
    # walrus anywhere in the evaluated expression
    if isinstance(stmt, ast.AST):
        for n in walk_local(stmt):
            if isinstance(n, ast.NamedExpr):
                tgt(n.target)
    return names, chains
