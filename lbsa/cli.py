"""Command line: python -m lbsa.cli check C01 [--tier quick|thorough] [--repo /repo]

exit 0  every rule instance held (KNOWN-FINDING lines allowed)
exit 1  at least one unlisted violation; prints `VIOLATION property=<id> replay=<path>`
exit 2  ANALYSIS-ERROR: the checker cannot decide (parse failure, vanished anchor, floor not met, bug)
"""
import argparse
import ast
import importlib
import json
import os
import sys
import time
import traceback

from . import AnalysisError, REPO_DEFAULT
from .index import Program
from .engine import Engine
from . import report, frozen

PROPS = [f"C{i:02d}" for i in range(1, 21)]

COMMON_ASSUMPTIONS = [
    "static analysis of /repo's working tree; repository code is never imported or executed",
    "no setattr/exec/monkey-patching of the protected attributes beyond the dispatch idioms listed in DESIGN.md §3.2",
    "CPython, hashlib, struct, json, re, asyncio, sqlite3, cryptography, coincurve and protobuf behave as documented",
    "comparisons in guards are over totally ordered values (ints, lengths, floats other than NaN)",
]


def awaited(ctx):
    from . import awaitables
    aw = awaitables.Awaitables(ctx.prog)
    rule = f"{ctx.pid}-A/AWAIT"
    for q in sorted(ctx.eng._fa):
        fa = ctx.eng._fa[q]
        for c, ok, why in awaitables.check_function(aw, fa):
            ctx.ob(rule, ok, fa.site(c), f"the awaitable returned by `{ast.unparse(c.func)}(…)` is awaited, returned by a plain function, or handed to a scheduler", detail=why,
                   func=q, key=f"{rule}|{q}|{ast.unparse(c.func)}")


def run_property(pid, repo, tier):
    mod = importlib.import_module(f"lbsa.props.{pid.lower()}")
    prog = Program(repo, extra_dirs=("scripts",) if tier == "thorough" else ())
    eng = Engine(prog)
    ctx = report.Ctx(pid, eng, tier)
    frozen.check(ctx)             # Cxx-P/PRIMITIVE: the leaf formulas the mechanism is built from (lbsa/frozen.py)
    try:
        mod.check(ctx)
        if tier == "thorough" and hasattr(mod, "check_thorough"):
            mod.check_thorough(ctx)
        awaited(ctx)              # Cxx-A/AWAIT: no awaitable created by the analysed functions is dropped (lbsa/awaitables.py)
    except AnalysisError as e:
        # a vanished anchor / unsupported construct: if rule instances already failed on this tree, those
        # reports stand (the tree is not the reference tree); otherwise the checker cannot decide
        if not report.split_known(pid, ctx.violations)[1]:
            raise
        ctx.note(f"analysis stopped early: {e}")
    except Exception as e:
        # a rule written against the mechanism's shape (attribute of a node that is no longer there, an index into a list that
        # became shorter) failed INSIDE a property module: the analysed construct no longer has the shape the mechanism had.  That is
        # reported as a missing mechanism (like a floor), not as a checker failure; crashes inside the engine stay ANALYSIS-ERRORs.
        tb = traceback.extract_tb(e.__traceback__)
        inner = tb[-1] if tb else None
        in_props = inner is not None and os.sep + "props" + os.sep in inner.filename
        shape = isinstance(e, (AttributeError, IndexError, TypeError, KeyError, ValueError, AssertionError, StopIteration))
        if in_props and shape:
            rule_frame = next((f for f in reversed(tb) if os.sep + "props" + os.sep in f.filename), inner)
            ctx.ob(f"{pid}-SHAPE", False, f"lbsa/props/{os.path.basename(rule_frame.filename)}:{rule_frame.lineno}",
                   "every rule instance can be evaluated on the analysed code (the construct a rule inspects still has the shape of the mechanism)",
                   detail=f"{type(e).__name__}: {e} while evaluating `{(rule_frame.line or '').strip()[:120]}` — the code this rule reads was restructured or removed; "
                          f"remaining rule instances were not evaluated", key=f"{pid}-SHAPE|{os.path.basename(rule_frame.filename)}|{rule_frame.name}")
        elif not report.split_known(pid, ctx.violations)[1]:
            raise                 # nothing but listed findings so far: a crash must not hide behind them
        else:
            ctx.note("analysis stopped early after reporting violations: " + traceback.format_exc(limit=3))
    if not ctx.obligations:
        raise AnalysisError(f"{pid}: no obligation was evaluated")
    known, new = report.split_known(pid, ctx.violations)
    floor = report.obligation_floor(pid)
    if not new and len(ctx.obligations) < floor:
        # rule families do not vanish silently: a removed mechanism is a floor VIOLATION; fewer evaluated instances without any
        # report means part of the analysis did not run
        raise AnalysisError(f"{pid}: only {len(ctx.obligations)} rule instances were evaluated, at least {floor} were confirmed on the reference tree "
                            f"(lbsa/obligation_floors.json) — part of the analysis did not run")
    extra = {}
    if tier == "thorough" and not new:
        # the variants are edits of THIS tree: on a tree that already violates the property the verdict stands and twins cannot be silent
        from . import selftest
        extra = selftest.run(pid, repo)
    elif tier == "thorough":
        extra = {"selftest": {"skipped": "the tree under analysis violates the property; variants of it are not meaningful", "passed": 0, "total": 0, "failed": []}}
    path, vpath = report.write_evidence(
        ctx, mod.EXPLANATION + (" " + mod.EXACTNESS if getattr(mod, "EXACTNESS", "") else ""), COMMON_ASSUMPTIONS + list(getattr(mod, "ASSUMPTIONS", [])), known, new, extra=extra)
    return ctx, known, new, path, vpath, extra


def main(argv=None):
    ap = argparse.ArgumentParser(prog="lbsa")
    sub = ap.add_subparsers(dest="cmd", required=True)
    c = sub.add_parser("check")
    c.add_argument("property")
    c.add_argument("--tier", default=os.environ.get("VERIF_TIER", "quick"), choices=["quick", "thorough"])
    c.add_argument("--repo", default=os.environ.get("LBSA_REPO", REPO_DEFAULT))
    c.add_argument("--replay", default=None, help="print a stored violations file and exit")
    c.add_argument("-v", "--verbose", action="store_true")
    s = sub.add_parser("self-check")
    args = ap.parse_args(argv)

    if args.cmd == "self-check":
        import json as _json
        here = os.path.dirname(os.path.dirname(os.path.abspath(__file__)))
        with open(os.path.join(here, "MANIFEST.json")) as f:
            man = _json.load(f)
        n = 0
        for chk in man["checks"]:
            importlib.import_module(f"lbsa.props.{chk['property_id'].lower()}")
            n += 1
        report.load_known()
        print(f"lbsa self-check ok: {n} property modules import, known_findings.json readable; nothing to build "
              f"(stdlib-only static analyser, python {sys.version.split()[0]})")
        return 0

    pid = args.property.upper()
    if args.replay:
        with open(args.replay) as f:
            data = json.load(f)
        for v in data.get("violations", []):
            print(f"{v['rule']} {v['site']} {v.get('function', '')}: {v['what']} :: {v.get('detail', '')}")
        return 1 if data.get("violations") else 0
    t0 = time.time()
    try:
        ctx, known, new, path, vpath, extra = run_property(pid, args.repo, args.tier)
    except AnalysisError as e:
        print(f"ANALYSIS-ERROR property={pid} {e}")
        return 2
    except Exception:  # a bug in the checker must not look like a violation
        tb = traceback.format_exc()
        print(f"ANALYSIS-ERROR property={pid} internal error in checker:\n{tb}")
        return 2
    n_ob = len(ctx.obligations)
    if args.verbose:
        for o in ctx.obligations:
            print(f"  [{o['verdict']:8s}] {o['rule']:18s} {o['site']:42s} {o['what']}")
    for v, k in known:
        print(f"KNOWN-FINDING: property={pid} {v['rule']} {v['site']} {v.get('function', '')}: {v['what']}"
              f" -- {k.get('what', '')}")
    for v in new:
        print(f"{v['rule']} {v['site']} {v.get('function', '')}: {v['what']}"
              + (f" :: {v['detail']}" if v.get("detail") else ""))
    st = extra.get("selftest") if extra else None
    if st and st.get("failed") and not new:
        print(f"ANALYSIS-ERROR property={pid} checker self-test failed: {st['failed']}")
        return 2
    print(f"{pid}: {n_ob} obligations over {len(ctx.eng._fa)} analysed functions "
          f"({len(ctx.prog.consulted)} files), {n_ob - len(ctx.violations)} hold, "
          f"{len(known)} known finding(s), {len(new)} violation(s); tier={args.tier}; "
          f"{time.time() - t0:.2f}s; evidence {os.path.relpath(path, report.VERIF)}"
          + (f"; self-test {st['passed']}/{st['total']} variants" if st else ""))
    if new:
        print(f"VIOLATION property={pid} replay={vpath}")
        return 1
    return 0


if __name__ == "__main__":
    sys.exit(main())
