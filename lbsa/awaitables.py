"""Which repo functions hand back something that must be awaited, and whether a call site does await it (rule family Cxx-A/AWAIT).

A coroutine that is created and then dropped never runs; one that an `async def` RETURNS un-awaited is delivered, as an object, to a caller
that already awaited — it never runs either.  Both leave the program type-correct and every test that does not reach the call green, while the
effect the property relies on (a release, a write, a flush) silently does not happen.

awaitable(f):   f is `async def` (not an async generator), or f is a plain function each of whose returns hands on the result of an awaitable
                call (fixpoint) or of asyncio.ensure_future / create_task / gather / wait_for / run_in_executor.
call sites are resolved by the called attribute / function NAME; a call counts as awaitable only when EVERY repo function of that name is
awaitable (so the rule never guesses), and never for names that also exist on builtin containers / files / asyncio objects.
"""
import ast

from .astutil import call_name, dotted

_SCHEDULERS = {"create_task", "ensure_future", "gather", "wait", "wait_for", "shield", "run_until_complete", "as_completed", "run_coroutine_threadsafe", "run", "async_timed_cache",
               "cache_concurrent"}
_FUTURE_MAKERS = {"ensure_future", "create_task", "gather", "wait_for", "run_in_executor", "shield", "wait", "sleep"}
_AMBIENT = {"get", "pop", "close", "read", "write", "wait", "put", "send", "start", "stop", "run", "update", "clear", "add", "remove", "open", "connect", "join", "acquire", "release",
            "flush", "drain", "result", "cancel", "set", "copy", "sleep", "__init__", "execute", "commit", "fetchall", "fetchone", "executemany", "executescript", "save", "delete", "find",
            "index", "count", "insert", "extend", "append", "send_request", "ping", "store", "decode", "encode", "listen", "discard", "setup", "download", "emit"}
_SKIP_MODULES = ("lbry.wallet.server", "lbry.testcase", "lbry.wallet.orchstr8", "scripts", "lbry.extras.daemon.migrator")


# plain functions that hand back an awaitable the name-based resolution cannot see (one line of reason each)
_KNOWN = {
    "lbry.wallet.network.Network.rpc": "returns ClientSession.send_request(…), a coroutine (`send_request` also names the synchronous JSON-RPC framing method)",
}


class Awaitables:
    def __init__(self, prog):
        self.prog = prog
        self.by_name = {}
        for q, f in prog.functions.items():
            if f.module.name.startswith(_SKIP_MODULES):
                continue
            self.by_name.setdefault(f.name, []).append(f)
        # (receiver text, method) pairs that some call site of the program awaits directly: evidence that `<…>.recv.method()` is awaitable
        self.awaited_pairs = {}
        for m in prog.modules.values():
            if m.name.startswith(_SKIP_MODULES):
                continue
            for n in ast.walk(m.tree):
                if isinstance(n, ast.Await) and isinstance(n.value, ast.Call) and isinstance(n.value.func, ast.Attribute):
                    k = self._pair(n.value)
                    if k:
                        self.awaited_pairs[k] = self.awaited_pairs.get(k, 0) + 1
        self.aw = {q for q in _KNOWN if q in prog.functions}
        for q, f in prog.functions.items():
            if isinstance(f.node, ast.AsyncFunctionDef) and not self._is_generator(f.node):
                self.aw.add(q)
        changed = True
        while changed:
            changed = False
            for q, f in prog.functions.items():
                if q in self.aw or isinstance(f.node, ast.AsyncFunctionDef) or self._is_generator(f.node):
                    continue
                if any(dotted(d.func if isinstance(d, ast.Call) else d) in ("property", "contextlib.contextmanager", "contextmanager") for d in f.node.decorator_list):
                    continue
                rets = [n for n in self._local(f.node) if isinstance(n, ast.Return)]
                if rets and all(r.value is not None and isinstance(r.value, ast.Call) and (call_name(r.value) in _FUTURE_MAKERS or self.awaitable_call(r.value, exclude=f, owner=f if f.cls is not None else None, owner_module=f.module)) for r in rets):
                    self.aw.add(q)
                    changed = True

    @staticmethod
    def _local(fn):
        todo = list(fn.body)
        while todo:
            n = todo.pop()
            yield n
            for ch in ast.iter_child_nodes(n):
                if not isinstance(ch, (ast.FunctionDef, ast.AsyncFunctionDef, ast.Lambda, ast.ClassDef)):
                    todo.append(ch)

    def _is_generator(self, fn):
        return any(isinstance(n, (ast.Yield, ast.YieldFrom)) for n in self._local(fn))

    @staticmethod
    def _pair(call):
        f = call.func
        if not isinstance(f, ast.Attribute):
            return None
        recv = dotted(f.value)
        if recv is None or recv in ("self", "cls"):
            return None
        return (recv, f.attr)

    def awaitable_call(self, call, exclude=None, owner=None, owner_module=None):
        nm = call_name(call)
        if not nm:
            return False
        # self.m(...): the method of the enclosing class (exact)
        if owner is not None and owner.cls is not None and isinstance(call.func, ast.Attribute) and isinstance(call.func.value, ast.Name) and call.func.value.id == "self":
            m = self.prog.lookup_method(owner.cls, nm)
            if m is not None:
                return 2 if (m.qualname in self.aw and m is not exclude) else 0
        # Class.m(...) / module_function(...): resolved through the module's own names (exact)
        if owner_module is not None:
            tgt = None
            if isinstance(call.func, ast.Attribute) and isinstance(call.func.value, ast.Name) and call.func.value.id not in ("self", "cls"):
                c = self.prog.resolve_name(owner_module, call.func.value.id)
                if hasattr(c, "methods"):
                    tgt = self.prog.lookup_method(c, nm)
            elif isinstance(call.func, ast.Name):
                c = self.prog.resolve_name(owner_module, nm)
                if hasattr(c, "node") and isinstance(getattr(c, "node", None), (ast.FunctionDef, ast.AsyncFunctionDef)):
                    tgt = c
            if tgt is not None and hasattr(tgt, "qualname"):
                return 2 if (tgt.qualname in self.aw and tgt is not exclude) else 0
        k = self._pair(call)
        if k and self.awaited_pairs.get(k, 0) >= 2 and nm not in ("get", "pop", "wait", "put", "acquire", "close", "read", "write", "send", "drain", "result", "add"):
            return 2           # the same receiver.method is awaited at two or more other places
        if nm in _AMBIENT:
            return False
        if isinstance(call.func, ast.Name):
            # a bare name: a local / module function or an imported one; classes are constructors
            cands = [f for f in self.by_name.get(nm, []) if f.cls is None]
        else:
            cands = [f for f in self.by_name.get(nm, []) if f.cls is not None or f.parent is None]
        cands = [f for f in cands if f is not exclude]
        if bool(cands) and all(f.qualname in self.aw for f in cands):
            return 2 if (k and self.awaited_pairs.get(k, 0) >= 1) else 1
        return 0


def check_function(aw, fa):
    """-> [(call node, verdict, why)] for every awaitable call made directly by the function"""
    fn = fa.fi.node
    is_async = isinstance(fn, ast.AsyncFunctionDef)
    parents = {}
    for n in ast.walk(fn):
        for ch in ast.iter_child_nodes(n):
            parents[id(ch)] = n
    awaited_names = {dotted(n.value) for n in ast.walk(fn) if isinstance(n, ast.Await) and dotted(n.value)}
    loosely = {x.id for n in ast.walk(fn) if isinstance(n, ast.Call) for a in list(n.args) + [k.value for k in n.keywords] for x in ast.walk(a) if isinstance(x, ast.Name)}
    handed = set()
    for n in ast.walk(fn):
        if isinstance(n, ast.Call) and call_name(n) in _SCHEDULERS | {"add_done_callback", "append", "add", "put_nowait", "extend"}:
            for a in list(n.args) + [k.value for k in n.keywords]:
                for x in ast.walk(a):
                    if isinstance(x, ast.Name):
                        handed.add(x.id)
        elif isinstance(n, (ast.Return, ast.Yield)) and n.value is not None and not is_async:
            for x in ast.walk(n.value):
                if isinstance(x, ast.Name):
                    handed.add(x.id)
    out = []
    for c in Awaitables._local(fn):
        if not isinstance(c, ast.Call):
            continue
        strength = aw.awaitable_call(c, owner=fa.fi if fa.fi.cls is not None else (fa.fi.parent if getattr(fa.fi, "parent", None) is not None and fa.fi.parent.cls is not None else None), owner_module=fa.fi.module)
        if not strength:
            continue
        p = parents.get(id(c))
        verdict, why = True, ""
        if isinstance(p, (ast.Await, ast.withitem)):
            pass
        elif isinstance(p, ast.Return):
            if is_async:
                verdict, why = False, "an `async def` returns the un-awaited result: its caller's await yields a coroutine object that never runs"
        elif isinstance(p, ast.Expr):
            verdict, why = False, "the result is dropped: the coroutine is created and never runs"
        elif isinstance(p, (ast.Assign, ast.AnnAssign, ast.NamedExpr)):
            tg = p.targets[0] if isinstance(p, ast.Assign) else p.target
            nm = dotted(tg)
            if nm and nm.split(".")[0] not in ("self",) and nm not in awaited_names and nm.split(".")[0] not in handed and (strength == 2 or nm.split(".")[0] not in loosely):
                verdict, why = False, f"stored in `{nm}` which is neither awaited nor handed on"
        else:
            # argument of another call, element of a list / comprehension, operand of a conditional expression: follow up to the statement
            q, ok = p, False
            while q is not None and not isinstance(q, ast.stmt):
                if isinstance(q, ast.Await) or (isinstance(q, ast.Call) and q is not c):
                    ok = True
                    break
                q = parents.get(id(q))
            if not ok and isinstance(q, ast.Return) and not is_async:
                ok = True
            if not ok and isinstance(q, (ast.Assign, ast.Return)):
                ok = True           # built into a value that is stored / returned: followed no further
            if not ok:
                verdict, why = False, "the awaitable is neither awaited, returned by a plain function, nor handed to a scheduler"
        out.append((c, verdict, why))
    return out
