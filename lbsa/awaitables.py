"""Which repo functions hand back something that must be awaited, and whether a call site does await it (rule family Cxx-A/AWAIT).

A coroutine that is created and then dropped never runs; one that an `async def` RETURNS un-awaited is delivered, as an object, to a caller
that already awaited — it never runs either.  Both leave the program type-correct and every test that does not reach the call green, while the
effect the property relies on (a release, a write, a flush) silently does not happen.

awaitable(f):   f is `async def` (not an async generator), or f is a plain function each of whose returns hands on the result of an awaitable
                call (fixpoint) or of asyncio.ensure_future / create_task / gather / wait_for / run_in_executor.
call sites are resolved by the called attribute / function NAME; a call counts as awaitable only when EVERY repo function of that name is
awaitable (so the rule never guesses), and never for names that also exist on builtin containers / files / asyncio objects.
"""
import ast

from .astutil import call_name, dotted

_SCHEDULERS = {"create_task", "ensure_future", "gather", "wait", "wait_for", "shield", "run_until_complete", "as_completed", "run_coroutine_threadsafe", "run", "async_timed_cache",
               "cache_concurrent"}
_FUTURE_MAKERS = {"ensure_future", "create_task", "gather", "wait_for", "run_in_executor", "shield", "wait", "sleep"}
_AMBIENT = {"get", "pop", "close", "read", "write", "wait", "put", "send", "start", "stop", "run", "update", "clear", "add", "remove", "open", "connect", "join", "acquire", "release",
            "flush", "drain", "result", "cancel", "set", "copy", "sleep", "__init__", "execute", "commit", "fetchall", "fetchone", "executemany", "executescript", "save", "delete", "find",
            "index", "count", "insert", "extend", "append", "send_request", "ping", "store", "decode", "encode", "listen", "discard", "setup", "download", "emit"}
_SKIP_MODULES = ("lbry.wallet.server", "lbry.testcase", "lbry.wallet.orchstr8", "scripts", "lbry.extras.daemon.migrator")


class Awaitables:
    def __init__(self, prog):
        self.prog = prog
        self.by_name = {}
        for q, f in prog.functions.items():
            if f.module.name.startswith(_SKIP_MODULES):
                continue
            self.by_name.setdefault(f.name, []).append(f)
        self.aw = set()
        for q, f in prog.functions.items():
            if isinstance(f.node, ast.AsyncFunctionDef) and not self._is_generator(f.node):
                self.aw.add(q)
        changed = True
        while changed:
            changed = False
            for q, f in prog.functions.items():
                if q in self.aw or isinstance(f.node, ast.AsyncFunctionDef) or self._is_generator(f.node):
                    continue
                if any(dotted(d.func if isinstance(d, ast.Call) else d) in ("property", "contextlib.contextmanager", "contextmanager") for d in f.node.decorator_list):
                    continue
                rets = [n for n in self._local(f.node) if isinstance(n, ast.Return)]
                if rets and all(r.value is not None and isinstance(r.value, ast.Call) and (call_name(r.value) in _FUTURE_MAKERS or self.awaitable_call(r.value, exclude=f)) for r in rets):
                    self.aw.add(q)
                    changed = True

    @staticmethod
    def _local(fn):
        todo = list(fn.body)
        while todo:
            n = todo.pop()
            yield n
            for ch in ast.iter_child_nodes(n):
                if not isinstance(ch, (ast.FunctionDef, ast.AsyncFunctionDef, ast.Lambda, ast.ClassDef)):
                    todo.append(ch)

    def _is_generator(self, fn):
        return any(isinstance(n, (ast.Yield, ast.YieldFrom)) for n in self._local(fn))

    def awaitable_call(self, call, exclude=None):
        nm = call_name(call)
        if not nm or nm in _AMBIENT:
            return False
        if isinstance(call.func, ast.Name):
            # a bare name: a local / module function or an imported one; classes are constructors
            cands = [f for f in self.by_name.get(nm, []) if f.cls is None]
        else:
            cands = [f for f in self.by_name.get(nm, []) if f.cls is not None or f.parent is None]
        cands = [f for f in cands if f is not exclude]
        return bool(cands) and all(f.qualname in self.aw for f in cands)


def check_function(aw, fa):
    """-> [(call node, verdict, why)] for every awaitable call made directly by the function"""
    fn = fa.fi.node
    is_async = isinstance(fn, ast.AsyncFunctionDef)
    parents = {}
    for n in ast.walk(fn):
        for ch in ast.iter_child_nodes(n):
            parents[id(ch)] = n
    awaited_names = {dotted(n.value) for n in ast.walk(fn) if isinstance(n, ast.Await) and dotted(n.value)}
    handed = set()
    for n in ast.walk(fn):
        if isinstance(n, ast.Call):
            for a in list(n.args) + [k.value for k in n.keywords]:
                for x in ast.walk(a):
                    if isinstance(x, ast.Name):
                        handed.add(x.id)
        elif isinstance(n, (ast.Return, ast.Yield)) and n.value is not None:
            for x in ast.walk(n.value):
                if isinstance(x, ast.Name):
                    handed.add(x.id)
    out = []
    for c in Awaitables._local(fn):
        if not isinstance(c, ast.Call) or not aw.awaitable_call(c):
            continue
        p = parents.get(id(c))
        verdict, why = True, ""
        if isinstance(p, (ast.Await, ast.withitem)):
            pass
        elif isinstance(p, ast.Return):
            if is_async:
                verdict, why = False, "an `async def` returns the un-awaited result: its caller's await yields a coroutine object that never runs"
        elif isinstance(p, ast.Expr):
            verdict, why = False, "the result is dropped: the coroutine is created and never runs"
        elif isinstance(p, (ast.Assign, ast.AnnAssign, ast.NamedExpr)):
            tg = p.targets[0] if isinstance(p, ast.Assign) else p.target
            nm = dotted(tg)
            if nm and nm.split(".")[0] not in ("self",) and nm not in awaited_names and nm.split(".")[0] not in handed:
                verdict, why = False, f"stored in `{nm}` which is neither awaited nor handed on"
        else:
            # argument of another call, element of a list / comprehension, operand of a conditional expression: follow up to the statement
            q, ok = p, False
            while q is not None and not isinstance(q, ast.stmt):
                if isinstance(q, ast.Await) or (isinstance(q, ast.Call) and q is not c):
                    ok = True
                    break
                q = parents.get(id(q))
            if not ok and isinstance(q, ast.Return) and not is_async:
                ok = True
            if not ok and isinstance(q, (ast.Assign, ast.Return)):
                ok = True           # built into a value that is stored / returned: followed no further
            if not ok:
                verdict, why = False, "the awaitable is neither awaited, returned by a plain function, nor handed to a scheduler"
        out.append((c, verdict, why))
    return out
