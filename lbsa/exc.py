"""Exception class hierarchy (builtins + repository classes) and handler coverage."""
import ast
import builtins

from .astutil import dotted
from .index import ClassInfo

EXTERNAL_BASES = {
    # third party / stdlib classes the repo catches or raises, with their documented bases
    "json.JSONDecodeError": "ValueError", "json.decoder.JSONDecodeError": "ValueError", "JSONDecodeError": "ValueError",
    "asyncio.TimeoutError": "Exception", "asyncio.CancelledError": "BaseException",
    "asyncio.InvalidStateError": "Exception", "asyncio.IncompleteReadError": "EOFError",
    "binascii.Error": "ValueError", "struct.error": "Exception", "sqlite3.Error": "Exception",
    "sqlite3.OperationalError": "sqlite3.Error", "sqlite3.IntegrityError": "sqlite3.Error",
    "socket.error": "OSError", "socket.timeout": "OSError", "socket.gaierror": "OSError",
    "concurrent.futures.CancelledError": "BaseException", "TimeoutError": "OSError",
}


def builtin_chain(name):
    cls = getattr(builtins, name, None)
    if isinstance(cls, type) and issubclass(cls, BaseException):
        return [c.__name__ for c in cls.__mro__ if c is not object]
    return None


class Hierarchy:
    def __init__(self, prog):
        self.prog = prog

    def chain(self, name, module=None):
        """[name, base, base-of-base, …] as far as known"""
        out, seen = [], set()
        cur = name
        while cur and cur not in seen:
            seen.add(cur)
            b = builtin_chain(cur.rpartition(".")[2]) if "." not in cur or cur.startswith("builtins.") else None
            if b:
                out.extend(x for x in b if x not in out)
                return out
            out.append(cur)
            tgt = None
            if module is not None:
                tgt = self.prog.resolve_name(module, cur)
            if not isinstance(tgt, ClassInfo):
                tgt = self.prog.classes.get(cur)
            if isinstance(tgt, ClassInfo):
                if tgt.qualname not in out:
                    out.append(tgt.qualname)
                nxt = None
                for base in tgt.bases:
                    nxt = base.qualname if isinstance(base, ClassInfo) else base
                    break
                module = tgt.module
                cur = nxt
                continue
            if cur in EXTERNAL_BASES:
                cur = EXTERNAL_BASES[cur]
                continue
            short = cur.rpartition(".")[2]
            if short in EXTERNAL_BASES and short != cur:
                cur = EXTERNAL_BASES[short]
                continue
            b = builtin_chain(short)
            if b:
                out.extend(x for x in b if x not in out)
                return out
            break
        return out

    def catches(self, handler_names, raised, handler_module=None, raised_module=None):
        """does an `except (handler_names)` clause catch exception class `raised`?"""
        rc = self.chain(raised, raised_module)
        rc_short = {x.rpartition(".")[2] for x in rc} | set(rc)
        for h in handler_names:
            if h == "<bare>":
                return True
            hc = self.chain(h, handler_module)
            if not hc:
                continue
            top = hc[0]
            cands = {top, top.rpartition(".")[2]}
            if len(hc) > 1 and isinstance(self.prog.resolve_name(handler_module, h) if handler_module else None, ClassInfo):
                cands.add(hc[1])
            if cands & rc_short:
                return True
        return False


def handler_names(h):
    if h.type is None:
        return ["<bare>"]
    elts = h.type.elts if isinstance(h.type, ast.Tuple) else [h.type]
    return [dotted(e) or ast.unparse(e) for e in elts]
