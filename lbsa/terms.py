"""Normalised guard terms.

A *term* is a canonical string for an atomic boolean test together with a
polarity.  Order comparisons are all expressed through `<=` (the repo compares
ints / lengths / floats, which are totally ordered; NaN is out of scope and that
is listed as an assumption), equality and identity operands are sorted, negated
operators become a polarity flip.  Two source tests that mean the same under
these rules get the same (term, polarity) pair, whatever their orientation.
"""
import ast

from .astutil import unparse


_FLIP = {ast.Gt: ast.Lt, ast.GtE: ast.LtE}


def _canon(node):
    """copy of an expression in which every NESTED single comparison is oriented canonically (a > b -> b < a; operands of
    == != is / is not sorted by text), so that `any(x == 0 for …)` and `any(0 == x for …)` give the same term"""
    if isinstance(node, list):
        return [_canon(x) for x in node]
    if not isinstance(node, ast.AST):
        return node
    new = node.__class__()
    for f in node._fields:
        if hasattr(node, f):
            setattr(new, f, _canon(getattr(node, f)))
    if isinstance(new, ast.Compare) and len(new.ops) == 1:
        op = new.ops[0]
        if type(op) in _FLIP:
            new.left, new.comparators, new.ops = new.comparators[0], [new.left], [_FLIP[type(op)]()]
        elif isinstance(op, (ast.Eq, ast.NotEq, ast.Is, ast.IsNot)):
            a, b = new.left, new.comparators[0]
            if unparse(b) < unparse(a):
                new.left, new.comparators = b, [a]
    return new


def _txt(node):
    if any(isinstance(n, ast.Compare) for n in ast.walk(node)):
        return unparse(_canon(node))
    return unparse(node)


def atom(expr):
    """(term, polarity) for an expression used as a test; handles not / single compare."""
    pol = True
    while isinstance(expr, ast.UnaryOp) and isinstance(expr.op, ast.Not):
        pol = not pol
        expr = expr.operand
    if isinstance(expr, ast.Compare) and len(expr.ops) == 1:
        a, op, b = expr.left, expr.ops[0], expr.comparators[0]
        ta, tb = _txt(a), _txt(b)
        if isinstance(op, ast.LtE):
            return f"({ta}) <= ({tb})", pol
        if isinstance(op, ast.GtE):
            return f"({tb}) <= ({ta})", pol
        if isinstance(op, ast.Lt):          # a < b  ==  not (b <= a)
            return f"({tb}) <= ({ta})", not pol
        if isinstance(op, ast.Gt):          # a > b  ==  not (a <= b)
            return f"({ta}) <= ({tb})", not pol
        if isinstance(op, (ast.Eq, ast.NotEq)):
            x, y = sorted((ta, tb))
            return f"({x}) == ({y})", pol if isinstance(op, ast.Eq) else not pol
        if isinstance(op, (ast.Is, ast.IsNot)):
            x, y = sorted((ta, tb))
            return f"({x}) is ({y})", pol if isinstance(op, ast.Is) else not pol
        if isinstance(op, (ast.In, ast.NotIn)):
            return f"({ta}) in ({tb})", pol if isinstance(op, ast.In) else not pol
    if isinstance(expr, (ast.BoolOp, ast.IfExp)) or (isinstance(expr, ast.Compare) and len(expr.ops) > 1):
        t, p = whole(expr)
        return t, p if pol else not p
    return _txt(expr), pol


def split_chain(expr):
    """a <= b < c  ->  [a <= b, b < c] as Compare nodes (b is evaluated once in Python; the
    repo's chained operands are side-effect free names/attributes/constants)"""
    out, left = [], expr.left
    for op, right in zip(expr.ops, expr.comparators):
        c = ast.Compare(left=left, ops=[op], comparators=[right])
        ast.copy_location(c, expr)
        out.append(c)
        left = right
    return out


def whole(expr):
    """canonical (term, polarity) of a compound boolean expression"""
    if isinstance(expr, ast.UnaryOp) and isinstance(expr.op, ast.Not):
        t, p = whole(expr.operand)
        return t, not p
    if isinstance(expr, ast.BoolOp):
        name = "and" if isinstance(expr.op, ast.And) else "or"
        parts = []
        for v in expr.values:
            t, p = whole(v)
            parts.append(("" if p else "!") + t)
        return f"{name}[{'; '.join(parts)}]", True
    if isinstance(expr, ast.Compare) and len(expr.ops) > 1:
        parts = []
        for c in split_chain(expr):
            t, p = atom(c)
            parts.append(("" if p else "!") + t)
        return f"and[{'; '.join(parts)}]", True
    if isinstance(expr, ast.IfExp):
        tc, pc = whole(expr.test)
        ta, pa = whole(expr.body)
        tb, pb = whole(expr.orelse)
        return f"ite[{'' if pc else '!'}{tc}; {'' if pa else '!'}{ta}; {'' if pb else '!'}{tb}]", True
    return atom(expr)


def parse_guard(text):
    """guard written by a rule ('available < 0', 'not a.b()') -> list of (term, polarity):
    a conjunction (top-level `and` and comparison chains are split)."""
    if not text.strip():
        return []                 # the empty conjunction: "unconditionally"
    expr = ast.parse(text, mode="eval").body
    return conj(expr)


def conj(expr, pol=True):
    while isinstance(expr, ast.UnaryOp) and isinstance(expr.op, ast.Not):
        pol = not pol
        expr = expr.operand
    if pol and isinstance(expr, ast.BoolOp) and isinstance(expr.op, ast.And):
        out = []
        for v in expr.values:
            out.extend(conj(v))
        return out
    if not pol and isinstance(expr, ast.BoolOp) and isinstance(expr.op, ast.Or):
        out = []
        for v in expr.values:
            out.extend(conj(v, False))
        return out
    if pol and isinstance(expr, ast.Compare) and len(expr.ops) > 1:
        return [atom(c) for c in split_chain(expr)]
    t, p = atom(expr)
    return [(t, p if pol else not p)]


def is_compound(expr):
    while isinstance(expr, ast.UnaryOp) and isinstance(expr.op, ast.Not):
        expr = expr.operand
    return isinstance(expr, (ast.BoolOp, ast.IfExp)) or (isinstance(expr, ast.Compare) and len(expr.ops) > 1)


def atoms_of(expr):
    """set of atomic terms (polarity dropped) occurring anywhere in a boolean expression"""
    while isinstance(expr, ast.UnaryOp) and isinstance(expr.op, ast.Not):
        expr = expr.operand
    if isinstance(expr, ast.BoolOp):
        out = set()
        for v in expr.values:
            out |= atoms_of(v)
        return out
    if isinstance(expr, ast.Compare) and len(expr.ops) > 1:
        out = set()
        for c in split_chain(expr):
            out |= atoms_of(c)
        return out
    if isinstance(expr, ast.IfExp):
        return atoms_of(expr.test) | atoms_of(expr.body) | atoms_of(expr.orelse)
    return {atom(expr)[0]}


def atoms_of_text(text):
    return atoms_of(ast.parse(text, mode="eval").body) if text.strip() else set()
