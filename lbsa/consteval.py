"""Constant folding of module / class level expressions without importing anything."""
import ast
import operator

from .index import Module, ClassInfo, FunctionInfo


class Unknown(Exception):
    pass


_BIN = {ast.Add: operator.add, ast.Sub: operator.sub, ast.Mult: operator.mul, ast.FloorDiv: operator.floordiv,
        ast.Div: operator.truediv, ast.Mod: operator.mod, ast.Pow: operator.pow, ast.LShift: operator.lshift,
        ast.RShift: operator.rshift, ast.BitOr: operator.or_, ast.BitAnd: operator.and_, ast.BitXor: operator.xor}
_UN = {ast.USub: operator.neg, ast.UAdd: operator.pos, ast.Invert: operator.invert, ast.Not: operator.not_}

# external facts the analysis is allowed to know (each with its reason)
EXTERNAL = {
    "hashlib.sha384().digest_size": 48,   # FIPS 180-4
    "hashlib.sha256().digest_size": 32,
    "hashlib.sha512().digest_size": 64,
}
HASH_DIGEST = {"hashlib.sha384": 48, "hashlib.sha256": 32, "hashlib.sha512": 64, "hashlib.sha1": 20,
               "hashlib.md5": 16}


class Struct:
    """folded struct.Struct(fmt)"""
    SIZES = {"b": (1, True), "B": (1, False), "h": (2, True), "H": (2, False), "i": (4, True), "I": (4, False),
             "l": (4, True), "L": (4, False), "q": (8, True), "Q": (8, False), "?": (1, False)}

    def __init__(self, fmt):
        self.fmt = fmt
        self.endian = fmt[0] if fmt and fmt[0] in "<>!=@" else "@"
        body = fmt[1:] if fmt and fmt[0] in "<>!=@" else fmt
        self.codes = body
        if len(body) == 1 and body in self.SIZES:
            self.size, self.signed = self.SIZES[body]
        else:
            self.size, self.signed = None, None

    def __repr__(self):
        return f"Struct({self.fmt!r})"

    def __eq__(self, other):
        return isinstance(other, Struct) and other.fmt == self.fmt

    def __hash__(self):
        return hash(self.fmt)


class Evaluator:
    def __init__(self, prog):
        self.prog = prog

    def eval_in_module(self, module, expr, _depth=0, scope=None):
        return self._ev(expr, module, scope, _depth)

    def name(self, module, dotted_name):
        """fold a (possibly dotted) name as seen from module"""
        return self._ev(ast.parse(dotted_name, mode="eval").body, module, None, 0)

    def class_attr(self, cls, attr):
        for k in self.prog.mro(cls):
            if attr in k.assigns:
                return self._ev(k.assigns[attr], k.module, k, 0)
        raise Unknown(f"{cls.qualname}.{attr}")

    def _resolved(self, target, depth):
        if isinstance(target, tuple) and target[0] == "const":
            _, owner, nm = target
            if isinstance(owner, Module):
                return self._ev(owner.assigns[nm], owner, None, depth + 1)
            return self._ev(owner.assigns[nm], owner.module, owner, depth + 1)
        raise Unknown(str(target))

    def _ev(self, e, module, scope, depth):
        if depth > 40:
            raise Unknown("depth")
        if isinstance(e, ast.Constant):
            return e.value
        if isinstance(e, (ast.Tuple, ast.List)):
            vals = [self._ev(x, module, scope, depth + 1) for x in e.elts]
            return tuple(vals) if isinstance(e, ast.Tuple) else vals
        if isinstance(e, ast.Set):
            return {self._ev(x, module, scope, depth + 1) for x in e.elts}
        if isinstance(e, ast.Dict):
            return {self._ev(k, module, scope, depth + 1): self._ev(v, module, scope, depth + 1)
                    for k, v in zip(e.keys, e.values)}
        if isinstance(e, ast.BinOp) and type(e.op) in _BIN:
            return _BIN[type(e.op)](self._ev(e.left, module, scope, depth + 1), self._ev(e.right, module, scope, depth + 1))
        if isinstance(e, ast.UnaryOp) and type(e.op) in _UN:
            return _UN[type(e.op)](self._ev(e.operand, module, scope, depth + 1))
        if isinstance(e, ast.JoinedStr):
            out = ""
            for v in e.values:
                if isinstance(v, ast.Constant):
                    out += str(v.value)
                else:
                    out += str(self._ev(v.value, module, scope, depth + 1))
            return out
        if isinstance(e, ast.Name):
            if isinstance(scope, ClassInfo):
                for k in self.prog.mro(scope):
                    if e.id in k.assigns:
                        return self._ev(k.assigns[e.id], k.module, k, depth + 1)
            if e.id in module.assigns:
                return self._ev(module.assigns[e.id], module, None, depth + 1)
            if e.id in module.imports:
                t = self.prog._resolve_abs(module.imports[e.id])
                if t is not None:
                    return self._resolved(t, depth)
            if e.id in ("True", "False", "None"):
                return {"True": True, "False": False, "None": None}[e.id]
            raise Unknown(e.id)
        if isinstance(e, ast.Attribute):
            from .astutil import dotted
            d = dotted(e)
            if d:
                if d in EXTERNAL:
                    return EXTERNAL[d]
                head = d.split(".")[0]
                if head in ("self", "cls") and isinstance(scope, ClassInfo) and d.count(".") == 1:
                    return self.class_attr(scope, d.split(".")[1])
                t = self.prog.resolve_name(module, d)
                if t is not None:
                    return self._resolved(t, depth)
            # X().digest_size where X folds to a hashlib constructor name
            if e.attr == "digest_size" and isinstance(e.value, ast.Call):
                fn = self._callee_text(e.value.func, module, depth)
                hops = 0
                while fn not in HASH_DIGEST and fn and hops < 4:
                    # a repo helper whose whole body is `return <hash constructor>()`
                    t = self.prog._resolve_abs(fn) or self.prog.resolve_name(module, fn)
                    rets = [x for x in ast.walk(t.node) if isinstance(x, ast.Return)] if isinstance(t, FunctionInfo) else []
                    if len(rets) == 1 and rets[0] in t.node.body and isinstance(rets[0].value, ast.Call) and not rets[0].value.args:
                        # a repo helper that returns `<hash constructor>()` on its single, unconditional return
                        fn = self._callee_text(rets[0].value.func, t.module, depth + 1)
                        hops += 1
                    else:
                        break
                if fn in HASH_DIGEST:
                    return HASH_DIGEST[fn]
            raise Unknown(ast.unparse(e))
        if isinstance(e, ast.Call):
            fn = self._callee_text(e.func, module, depth)
            args = e.args
            if fn in ("struct.Struct", "Struct") and len(args) == 1:
                return Struct(self._ev(args[0], module, scope, depth + 1))
            if fn == "bytes" and len(args) == 1:
                return bytes(self._ev(args[0], module, scope, depth + 1))
            if fn in ("int", "len", "str", "tuple", "list", "frozenset", "set", "min", "max", "ord", "chr", "abs") \
                    and not e.keywords:
                f = {"int": int, "len": len, "str": str, "tuple": tuple, "list": list, "frozenset": frozenset,
                     "set": set, "min": min, "max": max, "ord": ord, "chr": chr, "abs": abs}[fn]
                return f(*[self._ev(a, module, scope, depth + 1) for a in args])
            if fn in ("re.compile",) and args:
                return ("re", self._ev(args[0], module, scope, depth + 1),
                        [ast.unparse(a) for a in args[1:]] + [f"{k.arg}={ast.unparse(k.value)}" for k in e.keywords])
            raise Unknown(ast.unparse(e)[:80])
        if isinstance(e, ast.Subscript):
            v = self._ev(e.value, module, scope, depth + 1)
            if isinstance(e.slice, ast.Slice):
                lo = self._ev(e.slice.lower, module, scope, depth + 1) if e.slice.lower else None
                hi = self._ev(e.slice.upper, module, scope, depth + 1) if e.slice.upper else None
                st = self._ev(e.slice.step, module, scope, depth + 1) if e.slice.step else None
                return v[lo:hi:st]
            return v[self._ev(e.slice, module, scope, depth + 1)]
        if isinstance(e, ast.Compare) and len(e.ops) == 1:
            a = self._ev(e.left, module, scope, depth + 1)
            b = self._ev(e.comparators[0], module, scope, depth + 1)
            ops = {ast.Eq: operator.eq, ast.NotEq: operator.ne, ast.Lt: operator.lt, ast.LtE: operator.le,
                   ast.Gt: operator.gt, ast.GtE: operator.ge}
            if type(e.ops[0]) in ops:
                return ops[type(e.ops[0])](a, b)
        raise Unknown(type(e).__name__)

    def _callee_text(self, f, module, depth):
        from .astutil import dotted
        d = dotted(f)
        if d is None:
            return None
        head = d.split(".")[0]
        if head in module.imports:
            full = module.imports[head] + d[len(head):]
            # alias of a hashlib constructor assigned at module level elsewhere
            t = self.prog._resolve_abs(full)
            if isinstance(t, tuple) and t[0] == "const":
                _, owner, nm = t
                inner = owner.assigns[nm]
                it = dotted(inner)
                if it:
                    return self._callee_text(inner, owner if isinstance(owner, Module) else owner.module, depth + 1)
            return full
        if head in module.assigns and depth < 10:
            inner = module.assigns[head]
            it = dotted(inner)
            if it and d == head:
                return self._callee_text(inner, module, depth + 1)
        return d


def fold(prog, module, expr, scope=None):
    return Evaluator(prog).eval_in_module(module, expr, scope=scope)


def eval_with(prog, module, expr, env, scope=None):
    """evaluate a pure arithmetic / comparison expression AST over a finite assignment: `env` maps the
    *text* of sub-expressions (e.g. 'len(peers)', 'page') to values; everything else must fold to a
    constant.  Used to enumerate reader/writer arithmetic agreement over a small parameter range."""
    ev = Evaluator(prog)

    def go(e):
        t = ast.unparse(e)
        if t in env:
            return env[t]
        if isinstance(e, ast.Constant):
            return e.value
        if isinstance(e, ast.BinOp) and type(e.op) in _BIN:
            return _BIN[type(e.op)](go(e.left), go(e.right))
        if isinstance(e, ast.UnaryOp) and type(e.op) in _UN:
            return _UN[type(e.op)](go(e.operand))
        if isinstance(e, ast.BoolOp):
            vals = [go(v) for v in e.values]
            if isinstance(e.op, ast.And):
                out = True
                for v in vals:
                    out = out and v
                return out
            out = False
            for v in vals:
                out = out or v
            return out
        if isinstance(e, ast.Compare):
            ops = {ast.Eq: operator.eq, ast.NotEq: operator.ne, ast.Lt: operator.lt, ast.LtE: operator.le,
                   ast.Gt: operator.gt, ast.GtE: operator.ge}
            left = go(e.left)
            for op, c in zip(e.ops, e.comparators):
                right = go(c)
                if type(op) not in ops:
                    raise Unknown(t)
                if not ops[type(op)](left, right):
                    return False
                left = right
            return True
        if isinstance(e, ast.Call) and isinstance(e.func, ast.Name) and e.func.id in ("min", "max", "abs", "int") and not e.keywords:
            return {"min": min, "max": max, "abs": abs, "int": int}[e.func.id](*[go(a) for a in e.args])
        if isinstance(e, ast.IfExp):
            return go(e.body) if go(e.test) else go(e.orelse)
        return ev.eval_in_module(module, e, scope=scope)
    return go(expr)
