"""May-raise analysis with typed taint (DESIGN.md §3.6).

Values derived from untrusted wire data carry a *kind*:
  B bytes   I int   S str   L list/tuple   D dict   A any bencode value (int|bytes|list|dict)
  M:<class> an object built by a repo constructor from tainted arguments (fields have kinds)
  T(k1,k2,…) a tuple with known element kinds
Trusted values have kind None.  The analysis is flow sensitive on the statement CFG (isinstance tests
narrow kinds along their edges) and interprocedural over resolved repo callees (memoised per
(function, argument kinds)).  Operations raise only according to the *implicit raise table* below,
which is applied to tainted operands only; explicit `raise` statements and assertions are added;
everything is filtered through the enclosing handlers using the exception class hierarchy.

The result over-approximates what hostile input can make a function raise; it is used for
`may-raise ⊆ caught` obligations, so imprecision can only produce a report that is then triaged.
"""
import ast

from .astutil import dotted, call_name, unparse, walk_local, FUNC_NODES
from . import cfg as cfgmod
from .exc import Hierarchy, handler_names
from .index import ClassInfo, FunctionInfo
from . import terms

ISINSTANCE_KIND = {"bytes": "B", "bytearray": "B", "int": "I", "str": "S", "dict": "D", "list": "L", "tuple": "L",
                   "bool": "I", "float": "I"}
UNHASHABLE = {"A", "L", "D"}
SCALARS = {"B", "I", "S", "U"}

BYTES_METHODS = {"find": "I", "rfind": "I", "index": "I", "decode": "S", "hex": "S", "startswith": None, "endswith": None,
                 "split": "L", "rpartition": "L", "partition": "L", "ljust": "B", "rjust": "B", "strip": "B", "lower": "B",
                 "upper": "B", "replace": "B", "count": "I", "join": "B", "isdigit": None, "lstrip": "B", "rstrip": "B"}
STR_METHODS = {"encode": "U", "split": "L", "strip": "S", "lower": "S", "upper": "S", "startswith": None, "endswith": None,
               "format": "S", "join": "S", "replace": "S", "find": "I", "casefold": "S", "isdigit": None}
DICT_METHODS = {"items": "L", "keys": "L", "values": "L", "get": "A", "pop": "A", "update": None, "setdefault": "A",
                "copy": "D", "clear": None}
LIST_METHODS = {"append": None, "pop": "A", "extend": None, "insert": None, "index": "I", "count": "I", "copy": "L",
                "sort": None, "reverse": None, "remove": None, "clear": None}
INT_METHODS = {"to_bytes": "B", "bit_length": "I"}
SAFE_BUILTINS = {"str", "repr", "type", "isinstance", "bool", "id", "print", "callable", "format", "getattr", "hasattr",
                 "issubclass", "vars", "super", "object"}


def is_tuple_kind(k):
    return isinstance(k, tuple)


def is_obj(k):
    return k == "O" or (isinstance(k, str) and k.startswith("M:"))


def mcls(k):
    """class qualname of an M kind ('M:<qualname>' or 'M:<qualname>#<instance>')"""
    return k[2:].split("#")[0]


def join(a, b):
    if a == b:
        return a
    if a is None:
        return b
    if b is None:
        return a
    if is_obj(a) and is_obj(b):
        return "O"
    if {a, b} == {"B", "U"}:
        return "B"
    sa = a if isinstance(a, frozenset) else frozenset([a]) if a in SCALARS else None
    sb = b if isinstance(b, frozenset) else frozenset([b]) if b in SCALARS else None
    if sa is not None and sb is not None:
        u = sa | sb
        if {"B", "U"} <= u:
            u = u - {"U"}
        return next(iter(u)) if len(u) == 1 else u      # union of scalar wire types: kept precise
    if is_tuple_kind(a) and is_tuple_kind(b) and len(a) == len(b):
        return tuple(join(x, y) for x, y in zip(a, b))
    return "A"


def elem_kind(k):
    """kind of the elements obtained by iterating a value of kind k"""
    if k == "B":
        return "I"
    if k in ("L", "D", "A"):
        return "A"
    if k == "S":
        return "S"
    if is_tuple_kind(k):
        out = None
        for x in k:
            out = join(out, x)
        return out
    return None


class Raise:
    __slots__ = ("exc", "site", "why", "func", "guards")

    def __init__(self, exc, site, why, func=None, guards=()):
        self.exc, self.site, self.why, self.func, self.guards = exc, site, why, func, guards

    def __repr__(self):
        return f"{self.exc}@{self.site}({self.why})"


class MayRaise:
    def __init__(self, eng, field_kinds=None, assume=None):
        self.eng, self.prog = eng, eng.prog
        self.hier = Hierarchy(eng.prog)
        self.memo = {}
        self.active = set()
        self.field_kinds = field_kinds or {}     # class qualname -> {field: kind}
        self.assume = assume or {}               # function qualname -> tuple(guard texts) for constant parameters
        self.calls_resolved = 0
        self.calls_unresolved = []
        self.functions = set()

    def fields_of(self, mkind):
        """field kinds of an M value: the instance's own table when it was built in the analysed code,
        else the class level table (decoded messages: what the constructors guarantee for hostile input)"""
        key = mkind[2:]
        if key in self.field_kinds:
            return self.field_kinds[key]
        return self.field_kinds.get(mcls(mkind), {})

    # ------------------------------------------------------------------ public
    def function(self, fi, kinds, validated=None):
        """-> (list[Raise] escaping fi, return kind, {self-field: kind} stores) when called with param kinds
        `kinds` (dict param->kind)"""
        validated = validated or {}
        key = (fi.qualname, tuple(sorted((k, v) for k, v in kinds.items() if v is not None)),
               tuple(sorted((k, tuple(sorted(v))) for k, v in validated.items())))
        if key in self.memo:
            return self.memo[key]
        if key in self.active:
            return None                                   # recursion: caller adds RecursionError
        self.active.add(key)
        self.functions.add(fi.qualname)
        try:
            res = self._analyse(fi, kinds, validated)
        finally:
            self.active.discard(key)
        self.memo[key] = res
        return res

    # ---------------------------------------------------------------- analysis
    def _analyse(self, fi, kinds, validated):
        fa = self.eng.fa_of(fi)
        F = fa.facts(self.assume.get(fi.qualname, ()))
        cfg = fa.cfg
        env_in = {cfg.entry.id: dict((k, v) for k, v in kinds.items() if v is not None)}
        work = [cfg.entry]
        seen_out = {}
        raises = {}
        returns = {}
        stores = {}
        iterations = 0
        while work:
            iterations += 1
            if iterations > 5000:
                break
            n = work.pop()
            env = dict(env_in.get(n.id, {}))
            ctx = _NodeCtx(self, fa, fi, n, env, F, validated)
            ctx.run()
            raises[n.id] = ctx.raises
            if ctx.returned is not _NOVAL:
                returns[n.id] = ctx.returned
            for f, k in ctx.stores.items():
                stores[f] = join(stores.get(f), k) if f in stores else k
            out = ctx.env
            seen_out[n.id] = out
            for e in n.succ:
                if id(e) not in F.feasible:
                    continue
                new = dict(out)
                # isinstance narrowing along the edge; edges contradicting a known kind are infeasible
                dead = False
                for l in e.labels:
                    if l.whole:
                        continue
                    nm, k = _isinstance_test(l.expr)
                    if nm is not None and nm in new:
                        truth = l.pol == _atom_pol(l.expr)          # does this edge mean "isinstance holds"?
                        cur = "B" if new[nm] == "U" else new[nm]
                        if isinstance(cur, frozenset):
                            cur = frozenset("B" if x == "U" else x for x in cur)
                            if truth:
                                if k in cur:
                                    new[nm] = k
                                else:
                                    dead = True
                            else:
                                rest = cur - {k}
                                if not rest:
                                    dead = True
                                else:
                                    new[nm] = next(iter(rest)) if len(rest) == 1 else rest
                        elif cur in ("B", "I", "S", "L", "D"):
                            if (cur == k) != truth:
                                dead = True
                        elif truth:
                            new[nm] = k
                        continue
                    verdict = self._class_isinstance(l.expr, new, fi)
                    if verdict is not None:
                        truth = l.pol == _atom_pol(l.expr)
                        if verdict != truth:
                            dead = True
                if dead:
                    continue
                old = env_in.get(e.dst.id)
                if old is None:
                    env_in[e.dst.id] = new
                    work.append(e.dst)
                else:
                    merged = dict(old)
                    changed = False
                    for nm in set(old) | set(new):
                        j = join(old.get(nm), new.get(nm)) if (nm in old and nm in new) else (old.get(nm) or new.get(nm))
                        if merged.get(nm) != j:
                            merged[nm] = j
                            changed = True
                    if changed:
                        env_in[e.dst.id] = merged
                        work.append(e.dst)
        # filter through handlers
        escaping = []
        for n in cfg.nodes:
            if F.at(n) is None:
                continue
            for r in raises.get(n.id, []):
                if not self._caught(n, r, fi):
                    escaping.append(r)
        # dedupe by (exc, site)
        seen, out = set(), []
        for r in escaping:
            k = (r.exc, r.site, r.why)
            if k not in seen:
                seen.add(k)
                out.append(r)
        rk = None
        for v in returns.values():
            rk = join(rk, v)
        return out, rk, stores

    def _class_isinstance(self, expr, env, fi):
        """isinstance(NAME, RepoClass | (RepoClass, …)) decided from an M:<class> kind; None if unknown"""
        while isinstance(expr, ast.UnaryOp) and isinstance(expr.op, ast.Not):
            expr = expr.operand
        if not (isinstance(expr, ast.Call) and isinstance(expr.func, ast.Name) and expr.func.id == "isinstance"
                and len(expr.args) == 2 and isinstance(expr.args[0], ast.Name)):
            return None
        k = env.get(expr.args[0].id)
        if not (isinstance(k, str) and k.startswith("M:")):
            return None
        cls = self.prog.classes.get(mcls(k))
        if cls is None:
            return None
        t = expr.args[1]
        res = []
        for x in (t.elts if isinstance(t, ast.Tuple) else [t]):
            c = self.prog.resolve_name(fi.module, dotted(x) or "")
            if not isinstance(c, ClassInfo):
                return None
            res.append(self.prog.is_subclass(cls, c.qualname))
        return any(res)

    def _caught(self, node, r, fi):
        stack = node.in_try or []
        for t in reversed(stack):
            names = []
            for hn in t["handlers"]:
                names.extend(handler_names(hn.ast))
            if names and self.hier.catches(names, r.exc, fi.module):
                return True
        return False

    # -------------------------------------------------------------- resolution
    def resolve_call(self, call, fi):
        """-> ('func', FunctionInfo, bound_self) | ('class', ClassInfo) | None"""
        f = call.func
        d = dotted(f)
        if d is None:
            return None
        parts = d.split(".")
        if len(parts) == 1:
            # nested function of the enclosing function(s)
            p = fi
            while p is not None:
                if parts[0] in p.locals:
                    return ("func", p.locals[parts[0]], False)
                p = p.parent
            t = self.prog.resolve_name(fi.module, d)
            if isinstance(t, FunctionInfo):
                return ("func", t, False)
            if isinstance(t, ClassInfo):
                return ("class", t)
            return None
        owner = fi
        while owner is not None and owner.cls is None:
            owner = owner.parent
        cls = owner.cls if owner is not None else None
        if parts[0] in ("self", "cls") and cls is not None:
            if len(parts) == 2:
                m = self.prog.lookup_method(cls, parts[1])
                if m is not None:
                    return ("func", m, True)
                return None
            if len(parts) == 3:
                tcls = self.attr_class(cls, parts[1])
                if tcls is not None:
                    m = self.prog.lookup_method(tcls, parts[2])
                    if m is not None:
                        return ("func", m, True)
                return None
        if parts[0] == "super()" and cls is not None and len(parts) == 2:
            for k in self.prog.mro(cls)[1:]:
                if parts[1] in k.methods:
                    return ("func", k.methods[parts[1]], True)
            return None
        t = self.prog.resolve_name(fi.module, d)
        if isinstance(t, FunctionInfo):
            return ("func", t, t.cls is not None and "staticmethod" not in t.decorators() and False)
        if isinstance(t, ClassInfo):
            return ("class", t)
        return None

    def attr_class(self, cls, attr):
        """class of `self.<attr>` from `self.attr = Cls(...)` / annotations in any method of cls"""
        for k in self.prog.mro(cls):
            for m in k.methods.values():
                for n in ast.walk(m.node):
                    tgt, val, ann = None, None, None
                    if isinstance(n, ast.Assign) and len(n.targets) == 1:
                        tgt, val = n.targets[0], n.value
                    elif isinstance(n, ast.AnnAssign):
                        tgt, val, ann = n.target, n.value, n.annotation
                    if tgt is None or dotted(tgt) != f"self.{attr}":
                        continue
                    for cand in (val.func if isinstance(val, ast.Call) else None, ann):
                        if cand is None:
                            continue
                        if isinstance(cand, ast.Constant) and isinstance(cand.value, str):
                            nm = cand.value
                        else:
                            nm = dotted(cand)
                        if nm:
                            t = self.prog.resolve_name(k.module, nm)
                            if isinstance(t, ClassInfo):
                                return t
        return None


_NOVAL = object()


def _atom_pol(expr):
    pol = True
    while isinstance(expr, ast.UnaryOp) and isinstance(expr.op, ast.Not):
        pol = not pol
        expr = expr.operand
    return pol


def _isinstance_test(expr):
    """for (not)* isinstance(NAME, T): (NAME, kind) else (None, None)"""
    while isinstance(expr, ast.UnaryOp) and isinstance(expr.op, ast.Not):
        expr = expr.operand
    if isinstance(expr, ast.Call) and isinstance(expr.func, ast.Name) and expr.func.id == "isinstance" and len(expr.args) == 2 \
            and isinstance(expr.args[0], ast.Name):
        t = expr.args[1]
        names = [dotted(x) for x in (t.elts if isinstance(t, ast.Tuple) else [t])]
        ks = {ISINSTANCE_KIND.get(x) for x in names}
        if len(ks) == 1 and None not in ks:
            return expr.args[0].id, ks.pop()
    return None, None


class _NodeCtx:
    """evaluates one CFG node"""

    def __init__(self, mr, fa, fi, node, env, F, validated=None):
        self.mr, self.fa, self.fi, self.node, self.env, self.F = mr, fa, fi, node, env, F
        self.validated = validated or {}
        self.raises = []
        self.returned = _NOVAL
        self.stores = {}

    def site(self, n):
        return f"{self.fi.relpath}:{getattr(n, 'lineno', self.node.lineno)}"

    def r(self, exc, n, why, guards=()):
        self.raises.append(Raise(exc, self.site(n), why, self.fi.qualname, guards))

    def tainted(self, k):
        return k is not None

    # ------------------------------------------------------------- statements
    def run(self):
        n, a = self.node, self.node.ast
        k = n.kind
        if k in ("entry", "exit", "raise", "loop"):
            return
        if k == "test":
            self.ev(a)
            return
        if k == "foriter":
            ik = self.ev(a.iter)
            if ik in ("A", "I"):
                self.r("TypeError", a.iter, f"iteration over a value of kind {ik} (may be an int)")
            return
        if k == "for":
            ik = self.kind_only(a.iter)
            self.bind(a.target, self.iter_elem(a.iter, ik))
            return
        if k == "with":
            for it in a.items:
                v = self.ev(it.context_expr)
                if it.optional_vars is not None:
                    self.bind(it.optional_vars, v)
            return
        if k == "except":
            if a.name:
                # the message of an exception raised while processing tainted input echoes that input
                if self.env:
                    self.env[a.name] = "E"
                else:
                    self.env.pop(a.name, None)
            return
        if k == "raise_stmt":
            if isinstance(a, ast.Assert):
                if not self.statically_true(a.test):
                    self.r("AssertionError", a, f"assert {unparse(a.test)[:50]}")
                return
            self.explicit_raise(a)
            return
        if k == "return":
            self.returned = self.ev(a.value) if a.value is not None else None
            return
        if isinstance(a, ast.Assign):
            v = self.ev(a.value)
            for t in a.targets:
                self.assign(t, v, a.value)
        elif isinstance(a, ast.AnnAssign):
            if a.value is not None:
                self.assign(a.target, self.ev(a.value), a.value)
        elif isinstance(a, ast.AugAssign):
            v = self.ev(a.value)
            cur = self.ev(a.target) if not isinstance(a.target, ast.Name) else self.env.get(a.target.id)
            if cur == "A" or v == "A":
                self.r("TypeError", a, "augmented assignment with a value of kind A")
            if isinstance(a.target, ast.Name):
                j = join(cur, v)
                if j is not None:
                    self.env[a.target.id] = j
        elif isinstance(a, ast.Expr):
            self.ev(a.value)
        elif isinstance(a, ast.Delete):
            for t in a.targets:
                if isinstance(t, ast.Subscript):
                    self.subscript(t, store=True)
        elif isinstance(a, FUNC_NODES + (ast.ClassDef, ast.Import, ast.ImportFrom, ast.Pass, ast.Global, ast.Nonlocal,
                                         ast.Break, ast.Continue)):
            pass

    def tainted_guards(self):
        """(term, polarity) of the path facts at this node that mention tainted names / attributes"""
        out = []
        have = self.F.at(self.node) or set()
        for k in have:
            fi_ = self.F.info.get(k)
            if fi_ is None or k[0].startswith(("and[", "or[", "ite[")):
                continue
            if fi_.names & set(self.env) or any(ch in self.env for ch in fi_.chains):
                out.append(k)
        return tuple(sorted(out))

    def input_driven(self):
        """does a guard on the path to this node mention a tainted name / attribute?"""
        have = self.F.at(self.node) or set()
        for k in have:
            fi_ = self.F.info.get(k)
            if fi_ is None:
                continue
            tnames = fi_.names & set(self.env)
            done = {nm for nm in tnames if (self.fi.qualname, nm) in self.validated.get(nm, ())}
            if tnames - done:
                return True
            for ch in fi_.chains:
                if ch in self.env:
                    return True
                head = ch.split(".")[0]
                hk = self.env.get(head)
                if isinstance(hk, str) and (hk.startswith("M:") or hk in ("A", "D", "L")):
                    return True
        return False

    def explicit_raise(self, a):
        if not self.input_driven() and not getattr(self.mr, "all_explicit", False):
            return
        e = a.exc
        if e is None:
            h = self.fa.lexically_inside(a, lambda x: isinstance(x, ast.ExceptHandler))
            for nm in (handler_names(h) if h is not None else ["Exception"]):
                self.r(self.qual_exc(nm), a, "re-raise")
            return
        if isinstance(e, ast.Call):
            for x in e.args:
                self.ev(x)
            nm = dotted(e.func)
        else:
            nm = dotted(e)
            if isinstance(e, ast.Name):
                # `raise err` where err was bound by an except clause
                h = self.fa.lexically_inside(a, lambda x: isinstance(x, ast.ExceptHandler) and x.name == e.id)
                if h is not None:
                    for hn in handler_names(h):
                        self.r(self.qual_exc(hn), a, "re-raise of caught exception")
                    return
                d = self.fa.rd.reaching(e.id, self.node)
                vals = [x.value for x in d if x.value is not None]
                if vals and all(isinstance(v, ast.Call) for v in vals):
                    for v in vals:
                        self.r(self.qual_exc(dotted(v.func) or "Exception"), a, "raise of a constructed exception")
                    return
                # exception object obtained elsewhere (future.exception() …)
                self.r("Exception", a, f"raise {e.id}")
                return
        self.r(self.qual_exc(nm or "Exception"), a, "explicit raise", self.tainted_guards())

    def qual_exc(self, nm):
        t = self.mr.prog.resolve_name(self.fi.module, nm) if nm else None
        if isinstance(t, ClassInfo):
            return t.qualname
        if nm in self.fi.module.imports:
            return self.fi.module.imports[nm]
        return nm

    def assign(self, target, kind, value_expr=None):
        if isinstance(target, ast.Name):
            if kind is None:
                self.env.pop(target.id, None)
            else:
                self.env[target.id] = kind
        elif isinstance(target, (ast.Tuple, ast.List)):
            self.bind(target, kind)
        elif isinstance(target, ast.Attribute):
            d = dotted(target)
            if d and d.startswith("self.") and d.count(".") == 1:
                self.stores[d.split(".")[1]] = kind
                if kind is not None:
                    self.env[d] = kind
                else:
                    self.env.pop(d, None)
        elif isinstance(target, ast.Subscript):
            self.subscript(target, store=True)

    def bind(self, target, kind):
        if isinstance(target, ast.Name):
            if kind is None:
                self.env.pop(target.id, None)
            else:
                self.env[target.id] = kind
        elif isinstance(target, (ast.Tuple, ast.List)):
            if is_tuple_kind(kind) and len(kind) == len(target.elts):
                for t, k in zip(target.elts, kind):
                    self.bind(t, k)
            else:
                if kind in ("A", "I", "B", "S"):
                    self.r("TypeError" if kind in ("A", "I") else "ValueError", target,
                           f"unpacking a value of kind {kind}")
                if kind in ("A", "L", "D"):
                    self.r("ValueError", target, "unpacking: wrong number of elements")
                ek = elem_kind(kind)
                for t in target.elts:
                    self.bind(t.value if isinstance(t, ast.Starred) else t, ek)

    def iter_elem(self, it_expr, ik):
        if isinstance(it_expr, ast.Call):
            fn = call_name(it_expr)
            if fn == "enumerate" and it_expr.args:
                inner = self.kind_only(it_expr.args[0])
                return (None, elem_kind(inner)) if inner is not None else None
            if fn == "items" and isinstance(it_expr.func, ast.Attribute):
                base = self.kind_only(it_expr.func.value)
                if base in ("D", "A"):
                    return ("A", "A")
            if fn == "zip":
                return tuple(elem_kind(self.kind_only(x)) for x in it_expr.args)
        return elem_kind(ik)

    # ------------------------------------------------------------ expressions
    def kind_only(self, e):
        saved = self.raises
        self.raises = []
        try:
            return self.ev(e)
        finally:
            self.raises = saved

    def statically_true(self, test):
        nm, k = _isinstance_test(test)
        if nm is not None and _atom_pol(test) and self.env.get(nm) == k:
            return True
        tainted_names = any(isinstance(s, ast.Name) and s.id in self.env for s in ast.walk(test)) or \
            any(self.env.get(dotted(s) or "") for s in ast.walk(test) if isinstance(s, ast.Attribute))
        return not tainted_names

    def ev(self, e):
        if e is None:
            return None
        m = getattr(self, "ev_" + type(e).__name__, None)
        if m is not None:
            return m(e)
        out = None
        for c in ast.iter_child_nodes(e):
            if isinstance(c, ast.expr):
                out = join(out, self.ev(c))
        return out

    def ev_Constant(self, e):
        return None

    def ev_Name(self, e):
        return self.env.get(e.id)

    @staticmethod
    def nb(k):
        """U (utf-8 bytes) is B for everything except decode(); a union of scalar kinds is treated as A by
        operations that do not split on it"""
        if isinstance(k, frozenset):
            return "A"
        return "B" if k == "U" else k

    def ev_JoinedStr(self, e):
        for v in e.values:
            if isinstance(v, ast.FormattedValue):
                self.ev(v.value)
        return None

    def ev_Await(self, e):
        return self.ev(e.value)

    def ev_Starred(self, e):
        return self.ev(e.value)

    def ev_Lambda(self, e):
        return None

    def ev_NamedExpr(self, e):
        v = self.ev(e.value)
        self.assign(e.target, v)
        return v

    def ev_Tuple(self, e):
        ks = tuple(self.ev(x) for x in e.elts)
        return ks if any(k is not None for k in ks) else None

    def ev_List(self, e):
        ks = [self.ev(x) for x in e.elts]
        return "L" if any(k is not None for k in ks) else None

    def ev_Set(self, e):
        for x in e.elts:
            k = self.ev(x)
            if k in UNHASHABLE:
                self.r("TypeError", x, f"unhashable set element of kind {k}")
        return None

    def ev_Dict(self, e):
        t = False
        for k_, v_ in zip(e.keys, e.values):
            kk = self.ev(k_) if k_ is not None else None
            if kk in UNHASHABLE:
                self.r("TypeError", k_, f"unhashable dict key of kind {kk}")
            vk = self.ev(v_)
            if k_ is None and vk in ("A", "I", "B", "S", "L"):
                self.r("TypeError", v_, "** of a non-mapping")
            t = t or kk is not None or vk is not None
        return "D" if t else None

    def _comp(self, e, elts):
        saved = dict(self.env)
        for g in e.generators:
            ik = self.ev(g.iter)
            if ik in ("A", "I"):
                self.r("TypeError", g.iter, f"iteration over a value of kind {ik}")
            self.bind(g.target, self.iter_elem(g.iter, ik))
            for c in g.ifs:
                self.ev(c)
        ks = [self.ev(x) for x in elts]
        self.env = saved
        return ks

    def ev_ListComp(self, e):
        ks = self._comp(e, [e.elt])
        return "L" if ks[0] is not None else None

    ev_GeneratorExp = ev_ListComp

    def ev_SetComp(self, e):
        ks = self._comp(e, [e.elt])
        if ks[0] in UNHASHABLE:
            self.r("TypeError", e.elt, f"unhashable set element of kind {ks[0]}")
        return "L" if ks[0] is not None else None

    def ev_DictComp(self, e):
        ks = self._comp(e, [e.key, e.value])
        if ks[0] in UNHASHABLE:
            self.r("TypeError", e.key, f"unhashable dict key of kind {ks[0]}")
        return "D" if any(k is not None for k in ks) else None

    def ev_IfExp(self, e):
        self.ev(e.test)
        nm, k = _isinstance_test(e.test)
        pol = _atom_pol(e.test)
        saved = dict(self.env)
        if nm is not None and nm in self.env and pol:
            self.env[nm] = k
        a = self.ev(e.body)
        self.env = dict(saved)
        if nm is not None and nm in self.env and not pol:
            self.env[nm] = k
        b = self.ev(e.orelse)
        self.env = saved
        return join(a, b)

    def ev_BoolOp(self, e):
        out = None
        saved = dict(self.env)
        for v in e.values:
            out = join(out, self.ev(v))
            nm, k = _isinstance_test(v)
            if nm is not None and nm in self.env:
                pol = _atom_pol(v)
                if (isinstance(e.op, ast.And) and pol) or (isinstance(e.op, ast.Or) and not pol):
                    self.env[nm] = k
        self.env = saved
        return out

    def ev_UnaryOp(self, e):
        k = self.nb(self.ev(e.operand))
        if isinstance(e.op, ast.Not):
            return None
        if k in ("A", "B", "S", "L", "D"):
            self.r("TypeError", e, f"unary operator on a value of kind {k}")
        return k

    def ev_BinOp(self, e):
        a, b = self.nb(self.ev(e.left)), self.nb(self.ev(e.right))
        if isinstance(e.op, ast.Mod) and isinstance(e.left, ast.Constant):
            # %-formatting: %d needs a number
            if b in ("A",) or (is_tuple_kind(b) and "A" in b):
                self.r("TypeError", e, "%-format of a value of kind A")
            if b is None:
                return None
            return "B" if isinstance(e.left.value, bytes) else "S"
        if a == "A" or b == "A":
            self.r("TypeError", e, "arithmetic / concatenation with a value of kind A")
            return "A"
        if a is None and b is None:
            return None
        if {a, b} <= {"I", None}:
            if isinstance(e.op, (ast.Div, ast.FloorDiv, ast.Mod)) and b == "I":
                self.r("ZeroDivisionError", e, "division by a tainted int")
            return "I"
        if a != b and a is not None and b is not None:
            self.r("TypeError", e, f"operands of kinds {a} and {b}")
            return "A"
        return a or b

    def ev_Compare(self, e):
        left = self.nb(self.ev(e.left))
        lk = left
        for op, c in zip(e.ops, e.comparators):
            ck = self.nb(self.ev(c))
            if isinstance(op, (ast.In, ast.NotIn)):
                if ck in ("A", "I"):
                    self.r("TypeError", e, f"membership test in a value of kind {ck}")
                elif ck is None and lk in UNHASHABLE and not isinstance(c, (ast.List, ast.Tuple)):
                    self.r("TypeError", e, f"membership test of an unhashable value (kind {lk}) in a dict/set")
                elif ck in ("B",) and lk in ("A", "L", "D", "S"):
                    self.r("TypeError", e, f"`{lk} in bytes`")
            elif isinstance(op, (ast.Lt, ast.LtE, ast.Gt, ast.GtE)):
                if "A" in (lk, ck) or (lk is not None and ck is not None and lk != ck) or \
                        (lk in ("B", "S", "L", "D") and ck is None) or (ck in ("B", "S", "L", "D") and lk is None):
                    if not (lk in ("B", "S") and ck is None and isinstance(c, ast.Constant) and
                            isinstance(c.value, (bytes, str))):
                        self.r("TypeError", e, f"ordering comparison with kinds {lk}/{ck}")
            lk = ck
        return None

    def ev_Attribute(self, e):
        d = dotted(e)
        if d is not None and d in self.env:
            return self.env[d]
        base = self.ev(e.value)
        if base is None:
            return None
        if isinstance(base, str) and base.startswith("M:"):
            return self.mr.fields_of(base).get(e.attr)
        if base in ("O", "E"):
            return None
        if base == "A":
            self.r("AttributeError", e, f"attribute `{e.attr}` of a value of kind A")
            return "A"
        return None

    def ev_Subscript(self, e):
        return self.subscript(e, store=False)

    def subscript(self, e, store):
        base = self.nb(self.ev(e.value))
        if base in ("O", "E"):
            base = None
        sl = e.slice
        if isinstance(sl, ast.Slice):
            for x in (sl.lower, sl.upper, sl.step):
                k = self.ev(x)
                if k in ("A", "B", "S", "L", "D"):
                    self.r("TypeError", e, f"slice index of kind {k}")
            if base in ("A", "D", "I"):
                self.r("TypeError", e, f"slicing a value of kind {base}")
                return "A"
            return base
        ik = self.nb(self.ev(sl))
        if ik in ("O", "E") or (isinstance(ik, str) and ik.startswith("M:")):
            ik = None
        if base is None:
            if ik is None:
                return None
            # trusted container, tainted key
            if ik in UNHASHABLE:
                self.r("TypeError", e, f"unhashable key of kind {ik} used to index a container")
            if not store and not self.guarded_membership(e):
                self.r("KeyError", e, "lookup with a tainted key")
            return None
        if is_tuple_kind(base):
            if isinstance(sl, ast.Constant) and isinstance(sl.value, int) and -len(base) <= sl.value < len(base):
                return base[sl.value]
            out = None
            for x in base:
                out = join(out, x)
            return out
        if base == "B":
            if not store:
                self.r("IndexError", e, "index into tainted bytes")
            if ik in ("A", "B", "S", "L", "D"):
                self.r("TypeError", e, f"bytes index of kind {ik}")
            return "I"
        if base == "S":
            self.r("IndexError", e, "index into tainted str")
            return "S"
        if base == "L":
            self.r("IndexError", e, "index into a tainted list")
            if ik in ("A", "B", "S", "L", "D"):
                self.r("TypeError", e, f"list index of kind {ik}")
            return "A"
        if base == "D":
            if not store:
                self.r("KeyError", e, "key lookup in a tainted dict")
            if ik in UNHASHABLE:
                self.r("TypeError", e, f"unhashable key of kind {ik}")
            return "A"
        if base == "I":
            self.r("TypeError", e, "subscript of an int")
            return "A"
        # A or M
        self.r("IndexError", e, f"subscript of a value of kind {base}")
        self.r("KeyError", e, f"subscript of a value of kind {base}")
        self.r("TypeError", e, f"subscript of a value of kind {base}")
        return "A"

    def guarded_membership(self, e):
        have = self.F.at(self.node) or set()
        t, p = terms.atom(ast.Compare(left=e.slice, ops=[ast.In()], comparators=[e.value]))
        return (t, p) in have

    # ------------------------------------------------------------------ calls
    def ev_Call(self, e):
        f = e.func
        fn = call_name(e)
        argk = [self.ev(a) for a in e.args]
        kwk = {}
        for k in e.keywords:
            v = self.ev(k.value)
            if k.arg is None:
                if v in ("A", "I", "B", "S", "L"):
                    self.r("TypeError", k.value, f"** of a value of kind {v} (not a mapping)")
                if v is not None:
                    self.r("TypeError", k.value, "** of a tainted mapping: unexpected / missing keyword arguments")
                kwk["**"] = v
            else:
                kwk[k.arg] = v
        star = any(isinstance(a, ast.Starred) for a in e.args)
        any_t = any(k is not None for k in argk) or any(v is not None for v in kwk.values())

        # ---- builtins on tainted operands
        if isinstance(f, ast.Name) and f.id not in self.env:
            b = f.id
            bargk = [self.nb(k) for k in argk]
            a0 = bargk[0] if bargk else None
            if a0 in ("O", "E") and b not in ("str", "repr"):
                a0 = None
            if b in ("str", "repr") and a0 == "E":
                return "S"
            if b == "getattr" and isinstance(argk[0] if argk else None, str) and str(argk[0]).startswith("M:"):
                j = None
                for fk_ in self.mr.fields_of(argk[0]).values():
                    j = join(j, fk_)
                return j                   # one of the fields of that message
            if b in SAFE_BUILTINS:
                return None
            if b == "len":
                if a0 in ("A", "I"):
                    self.r("TypeError", e, f"len() of a value of kind {a0} (may be an int)")
                return None
            if b == "int":
                if a0 in ("B", "S"):
                    self.r("ValueError", e, "int() of tainted text")
                elif a0 in ("A", "L", "D"):
                    self.r("ValueError", e, "int() of a value of kind A")
                    self.r("TypeError", e, "int() of a value of kind A")
                return "I" if a0 is not None else None
            if b in ("bytes", "bytearray"):
                if a0 in ("A", "S", "D", "I"):
                    self.r("TypeError", e, f"{b}() of a value of kind {a0}")
                if a0 in ("A", "L"):
                    self.r("ValueError", e, f"{b}() of out-of-range ints")
                return "B" if a0 is not None else None
            if b in ("list", "tuple", "sorted", "reversed", "enumerate", "iter", "set", "frozenset", "sum", "min", "max",
                     "any", "all", "dict", "zip", "map", "filter"):
                for k in bargk:
                    if k in ("A", "I"):
                        self.r("TypeError", e, f"{b}() of a value of kind {k} (not iterable)")
                if b in ("set", "frozenset", "dict") and a0 in ("A", "L"):
                    self.r("TypeError", e, f"{b}() of unhashable elements")
                if b in ("sorted", "min", "max", "sum") and a0 in ("A", "L"):
                    self.r("TypeError", e, f"{b}() over mixed-type elements")
                if b == "dict" and a0 in ("A", "L"):
                    self.r("ValueError", e, "dict() of a malformed sequence")
                return ("L" if b not in ("sum", "min", "max", "any", "all", "dict") else ("D" if b == "dict" else "A")) \
                    if a0 is not None else None
            if b == "hash":
                if a0 in UNHASHABLE:
                    self.r("TypeError", e, "hash() of an unhashable value")
                return None
            if b in ("ord", "chr", "abs", "hex", "bin", "round", "divmod", "pow", "float"):
                if a0 in ("A", "L", "D") or (b in ("chr", "abs") and a0 in ("B", "S")):
                    self.r("TypeError", e, f"{b}() of a value of kind {a0}")
                if b in ("chr", "float") and a0 is not None:
                    self.r("ValueError", e, f"{b}() of an out-of-range value")
                return "I" if a0 is not None else None

        # ---- methods on tainted receivers
        if isinstance(f, ast.Attribute):
            rk = self.ev(f.value)
            if rk is not None and not (isinstance(rk, str) and rk.startswith("M:")):
                return self.method_on_tainted(e, rk, f.attr, argk)
            if isinstance(rk, str) and rk.startswith("M:") and "#" in rk:
                # a message object this code built itself from typed parts: its own methods (encoders) do not
                # fail by type confusion; what they return still follows the input (e.g. its size)
                self.mr.calls_unresolved.append(f"{self.site(e)} {unparse(f)[:50]} (own message, opaque)")
                return "O"
            if isinstance(rk, str) and rk.startswith("M:"):
                cls = self.mr.prog.classes.get(mcls(rk))
                m = self.mr.prog.lookup_method(cls, f.attr) if cls is not None else None
                if m is not None:
                    self.mr.calls_resolved += 1
                    return self.call_function(e, m, True, argk, kwk, star, self_kind=rk)
                return None

        # ---- repo callees
        res = self.mr.resolve_call(e, self.fi)
        if res is not None:
            self.mr.calls_resolved += 1
            if res[0] == "func":
                return self.call_function(e, res[1], res[2], argk, kwk, star)
            return self.call_class(e, res[1], argk, kwk, star)
        # ---- trusted receiver, tainted arguments
        if any_t:
            if isinstance(f, ast.Attribute) and f.attr in ("get", "pop", "add", "discard", "remove", "setdefault", "__contains__",
                                                          "index", "count") and argk and argk[0] in UNHASHABLE:
                self.r("TypeError", e, f"unhashable value of kind {argk[0]} passed to .{f.attr}() of a dict/set")
            self.mr.calls_unresolved.append(f"{self.site(e)} {unparse(f)[:50]}")
            if isinstance(f, ast.Attribute):
                return None      # method of a trusted object: what it returns has a trusted type
            return "O"           # unknown function of tainted data: some object derived from it
        return None

    def method_on_tainted(self, e, rk, attr, argk):
        if isinstance(rk, frozenset):
            rk = "A"
        if rk in ("O", "E"):
            return None                    # object of a trusted type: its methods do not fail by type confusion
        utf8 = rk == "U"
        if utf8:
            rk = "B"
        table = {"B": BYTES_METHODS, "S": STR_METHODS, "D": DICT_METHODS, "L": LIST_METHODS, "I": INT_METHODS}.get(rk)
        if rk == "A" or is_tuple_kind(rk):
            self.r("AttributeError", e, f"method `.{attr}()` on a value of kind A")
            if attr == "decode":
                self.r("UnicodeDecodeError", e, "decode of tainted bytes")
            # if the call succeeds the receiver had that method: the result type is the method's
            return {"decode": "S", "encode": "U", "hex": "S", "items": "L", "keys": "L", "values": "L", "to_bytes": "B",
                    "append": None, "update": None, "extend": None}.get(attr, "A")
        if table is None or attr not in table:
            self.r("AttributeError", e, f"method `.{attr}()` on a value of kind {rk}")
            return "A"
        if attr == "decode" and not utf8:
            self.r("UnicodeDecodeError", e, "decode of tainted bytes")
        if attr == "index" and rk in ("B", "S", "L"):
            self.r("ValueError", e, ".index() of a missing element")
        if attr == "pop" and rk == "D" and len(argk) < 2:
            self.r("KeyError", e, "dict.pop of a missing key")
        if attr == "pop" and rk == "L":
            self.r("IndexError", e, "pop from an empty list")
        if attr == "to_bytes":
            self.r("OverflowError", e, "int too big to convert")
        if attr == "remove" and rk == "L":
            self.r("ValueError", e, "list.remove of a missing element")
        if rk == "D" and attr in ("get", "pop", "setdefault") and argk and argk[0] in UNHASHABLE:
            self.r("TypeError", e, "unhashable key")
        return table[attr]

    def validated_args(self, call, callee, bound_self):
        """params of callee whose argument already passed a constructor's checks on the same-named
        parameter: the argument is `<M object>.<field>` (class invariant of a decoded datagram) or a
        parameter of this function that is itself marked validated (forwarding through super().__init__)"""
        a = callee.node.args
        pos = [x.arg for x in a.posonlyargs + a.args]
        if pos and pos[0] in ("self", "cls") and callee.cls is not None:
            pos = pos[1:]
        pairs = list(zip(pos, call.args)) + [(k.arg, k.value) for k in call.keywords if k.arg]
        out = {}
        for p, arg in pairs:
            tags = set()
            if isinstance(arg, ast.Attribute):
                bk = self.kind_only(arg.value)
                if isinstance(bk, str) and bk.startswith("M:"):
                    cls = self.mr.prog.classes.get(mcls(bk))
                    if cls is not None:
                        for k in self.mr.prog.mro(cls):
                            ini = k.methods.get("__init__")
                            if ini is not None and arg.attr in ini.params():
                                tags.add((ini.qualname, arg.attr))
            elif isinstance(arg, ast.Name) and arg.id in self.validated:
                tags |= {(q, nm) for q, nm in self.validated[arg.id]}
            if tags:
                out[p] = tags
        return out

    def bind_params(self, fi, bound_self, argk, kwk, star):
        params = [p for p in fi.params()]
        a = fi.node.args
        if bound_self and params and params[0] in ("self", "cls"):
            params = params[1:]
        elif fi.cls is not None and params and params[0] in ("self", "cls") and "staticmethod" not in fi.decorators():
            params = params[1:]
        kinds = {}
        pos = [x.arg for x in a.posonlyargs + a.args]
        if pos and pos[0] in ("self", "cls") and fi.cls is not None and "staticmethod" not in fi.decorators():
            pos = pos[1:]
        if star:
            j = None
            for k in argk:
                j = join(j, elem_kind(k) if k in ("L", "A") or is_tuple_kind(k) else k)
            for p in pos:
                kinds[p] = j
            if a.vararg:
                kinds[a.vararg.arg] = "L" if j is not None else None
        else:
            for p, k in zip(pos, argk):
                kinds[p] = k
            if len(argk) > len(pos) and a.vararg:
                rest = argk[len(pos):]
                kinds[a.vararg.arg] = "L" if any(k is not None for k in rest) else None
        for nm, k in kwk.items():
            if nm == "**":
                if k is not None:
                    for p in params:
                        if p not in kinds or kinds[p] is None:
                            kinds[p] = "A"
            elif nm in params:
                kinds[nm] = k
            elif a.kwarg:
                kinds[a.kwarg.arg] = join(kinds.get(a.kwarg.arg), "D" if k is not None else None)
        return kinds

    def call_function(self, e, callee, bound_self, argk, kwk, star, self_kind=None):
        for i, k in enumerate(argk):
            if isinstance(k, frozenset):
                out = None
                for member in sorted(k):
                    out = join(out, self.call_function(e, callee, bound_self, argk[:i] + [member] + argk[i + 1:], kwk, star, self_kind))
                return out
        kinds = self.bind_params(callee, bound_self, argk, kwk, star)
        if self_kind is not None:
            kinds["self"] = self_kind
        valid = self.validated_args(e, callee, bound_self)
        decs = callee.decorators()
        if any(d.endswith("lru_cache") for d in decs):
            for p, k in kinds.items():
                if k in UNHASHABLE:
                    self.r("TypeError", e, f"unhashable argument `{p}` (kind {k}) to lru_cache'd {callee.name}()")
        if not any(k is not None for k in kinds.values()):
            return None          # untainted call: whatever it raises is not driven by the input
        res = self.mr.function(callee, kinds, valid)
        if res is None:
            self.r("RecursionError", e, f"recursion of {callee.name}() whose depth follows the input")
            return "A"
        raises, rk, st = res
        for r in raises:
            self.raises.append(Raise(r.exc, r.site, f"{r.why} [via {callee.name}()]", r.func, r.guards))
        if callee.name == "__init__" and (dotted(e.func) or "").startswith("super()."):
            for f_, k_ in st.items():
                self.stores[f_] = k_
                if k_ is not None:
                    self.env[f"self.{f_}"] = k_
        return rk

    def call_class(self, e, cls, argk, kwk, star):
        init = self.mr.prog.lookup_method(cls, "__init__")
        any_t = any(k is not None for k in argk) or any(v is not None for v in kwk.values())
        if init is None:
            # dataclass: fields in declaration order, then __post_init__
            post = self.mr.prog.lookup_method(cls, "__post_init__")
            fields = [n.target.id for n in cls.node.body if isinstance(n, ast.AnnAssign) and isinstance(n.target, ast.Name)]
            fk = dict(zip(fields, argk))
            for nm, k in kwk.items():
                if nm in fields:
                    fk[nm] = k
            if post is not None and any_t:
                sub = MayRaise(self.mr.eng, self.mr.field_kinds, self.mr.assume)
                sub.memo, sub.active = self.mr.memo, self.mr.active
                # fields are read as self.<field>
                pa = self.mr.eng.fa_of(post)
                self.mr.functions.add(post.qualname)
                res = self.mr.function(post, {f"self.{f}": k for f, k in fk.items() if k is not None} | {"__fields__": None})
                if res is not None:
                    for r in res[0]:
                        self.raises.append(Raise(r.exc, r.site, f"{r.why} [via {cls.name}.__post_init__()]", r.func, r.guards))
            if any_t:
                inst = f"{cls.qualname}#{self.site(e)}"
                self.mr.field_kinds[inst] = {f: k for f, k in fk.items()}
                return f"M:{inst}"
            return None
        kinds = self.bind_params(init, True, argk, kwk, star)
        if not any_t:
            return None
        valid = self.validated_args(e, init, True)
        res = self.mr.function(init, kinds, valid)
        if res is None:
            self.r("RecursionError", e, f"recursive construction of {cls.name}")
            return "A"
        raises, _, stores = res
        for r in raises:
            self.raises.append(Raise(r.exc, r.site, f"{r.why} [via {cls.name}()]", r.func, r.guards))
        inst = f"{cls.qualname}#{self.site(e)}"
        self.mr.field_kinds[inst] = dict(stores or {})
        return f"M:{inst}"

    def all_stores(self, init, kinds):
        """self.<field> kinds stored by init and (through super().__init__) its bases"""
        res = self.mr.function(init, kinds)
        out = dict(res[2]) if res else {}
        return out
