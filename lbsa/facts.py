"""Path facts: which guard terms hold on *every* feasible path to a CFG node.

Forward must-analysis (intersection at joins) over the guarded CFG with optimistic
infeasible-edge pruning (an edge whose label contradicts a fact that holds at its
source on every path is not taken).  A fact is killed when any name / attribute
chain it mentions may be written by the node (assignment, augmented assignment,
deletion, loop target, mutator method call, or a call to a method of `self` that
transitively writes the attribute).
"""
import ast

from .astutil import (dotted, names_loaded, attr_chains, stmt_targets, walk_local, MUTATORS, unparse)
from .cfg import evaluated_exprs, Label
from . import terms


class FactInfo:
    __slots__ = ("term", "pol", "names", "chains", "expanded", "origin")

    def __init__(self, term, pol, names, chains, expanded=None, origin=None):
        self.term, self.pol, self.names, self.chains, self.expanded, self.origin = \
            term, pol, names, chains, expanded, origin

    def __repr__(self):
        return ("" if self.pol else "not ") + self.term


class Facts:
    """result of the analysis for one function under one set of assumptions"""

    def __init__(self, cfg, IN, info, feasible):
        self.cfg, self.IN, self.info, self.feasible = cfg, IN, info, feasible

    def at(self, node):
        """set of (term, pol) keys that hold on entry to CFG node (None if unreachable)"""
        return self.IN.get(node.id)

    def reachable(self, node):
        return self.IN.get(node.id) is not None

    def holds(self, node, guard_text_or_pairs, _expand=True):
        """does the conjunction `guard` hold at node on every feasible path?
        returns (ok, missing_pairs)"""
        have = self.IN.get(node.id)
        if have is None:
            return True, []           # unreachable: vacuous
        pairs = terms.parse_guard(guard_text_or_pairs) if isinstance(guard_text_or_pairs, str) \
            else list(guard_text_or_pairs)
        missing = []
        for term, pol in pairs:
            if (term, pol) in have:
                continue
            if any(self.info[k].expanded == term and k[1] == pol for k in have if k in self.info):
                continue
            missing.append((term, pol))
        return not missing, missing

    def describe(self, node):
        have = self.IN.get(node.id)
        if have is None:
            return "<unreachable>"
        return sorted(("" if p else "not ") + t for t, p in have)


def node_kills(node, call_kills=None):
    names, chains = set(), set()
    a, k = node.ast, node.kind
    if k == "stmt" or k == "return" or k == "raise_stmt":
        n, c = stmt_targets(a) if isinstance(a, ast.stmt) else (set(), set())
        names |= n
        chains |= c
    elif k == "for":
        n, c = stmt_targets(a)
        names |= n
        chains |= c
    elif k == "with":
        n, c = stmt_targets(a)
        names |= n
        chains |= c
    elif k == "except":
        if a.name:
            names.add(a.name)
    for e in evaluated_exprs(node):
        if e is None:
            continue
        for sub in walk_local(e):
            if isinstance(sub, ast.NamedExpr) and isinstance(sub.target, ast.Name):
                names.add(sub.target.id)
            if isinstance(sub, ast.Call):
                f = sub.func
                if isinstance(f, ast.Attribute) and f.attr in MUTATORS:
                    recv = f.value
                    if isinstance(recv, ast.Subscript):
                        recv = recv.value
                    d = dotted(recv)
                    if d:
                        (chains if "." in d else names).add(d)
                if call_kills is not None:
                    chains |= call_kills(sub)
    return names, chains


def assignment_facts(node):
    """facts established by executing a simple assignment of a constant to a name/attribute"""
    a = node.ast
    out = []
    if node.kind == "stmt" and isinstance(a, ast.Assign) and isinstance(a.value, ast.Constant):
        for t in a.targets:
            tgts = t.elts if isinstance(t, (ast.Tuple, ast.List)) else [t]
            for tg in tgts:
                d = dotted(tg)
                if not d or isinstance(t, (ast.Tuple, ast.List)):
                    continue
                v = a.value.value
                if v is None:
                    cmp_ = ast.Compare(left=tg, ops=[ast.Is()], comparators=[a.value])
                    term, pol = terms.atom(cmp_)
                    out.append(Label(term, pol, cmp_))
                    out.append(Label(unparse(tg), False, tg))       # None is falsy
                elif v is True or v is False:
                    out.append(Label(unparse(tg), bool(v), tg))
    # chained `a = b = None`
    return out


def _split_children(body):
    out, depth, cur = [], 0, ""
    i = 0
    while i < len(body):
        ch = body[i]
        if ch == "[":
            depth += 1
        elif ch == "]":
            depth -= 1
        if ch == ";" and depth == 0 and body[i:i + 2] == "; ":
            out.append(cur)
            cur = ""
            i += 2
            continue
        cur += ch
        i += 1
    if cur:
        out.append(cur)
    return out


def _parse_whole(term):
    """'or[a; !b]' -> ('or', [('a', True), ('b', False)]) ; None for atoms"""
    for name in ("or", "and"):
        if term.startswith(name + "[") and term.endswith("]"):
            kids = []
            for c in _split_children(term[len(name) + 1:-1]):
                kids.append((c[1:], False) if c.startswith("!") else (c, True))
            return name, kids
    return None


def derive(facts):
    """one-step-to-fixpoint unit propagation over compound facts: returns the derived (term, pol) pairs with
    the compound fact they come from"""
    known = set(facts)
    derived = {}
    changed = True
    while changed:
        changed = False
        for t, p in list(known):
            pw = _parse_whole(t)
            if pw is None:
                continue
            name, kids = pw
            # normalise to a disjunction that is TRUE: or/True -> kids ; and/False -> negated kids
            if (name == "or" and p) or (name == "and" and not p):
                lits = kids if name == "or" else [(k, not kp) for k, kp in kids]
                open_ = [(k, kp) for k, kp in lits if (k, not kp) not in known]
                if any((k, kp) in known for k, kp in lits):
                    continue
                if len(open_) == 1 and open_[0] not in known:
                    known.add(open_[0])
                    derived[open_[0]] = (t, p)
                    changed = True
            else:
                # conjunction that is TRUE: and/True -> kids ; or/False -> negated kids
                lits = kids if name == "and" else [(k, not kp) for k, kp in kids]
                for lit in lits:
                    if lit not in known:
                        known.add(lit)
                        derived[lit] = (t, p)
                        changed = True
    return derived


def compute(cfg, assume=(), call_kills=None, expand=None, await_kills=False, tests_only=False):
    """assume: iterable of guard texts taken to hold at function entry (e.g. a literal
    parameter value).  expand(expr, node) -> expr with single-definition locals substituted
    (or None).  Returns Facts."""
    info = {}

    def register(label, node):
        key = label.key()
        if key not in info:
            e = label.expr
            names = names_loaded(e) if e is not None else set()
            chains = attr_chains(e) if e is not None else set()
            expanded = None
            if expand is not None and e is not None:
                try:
                    ex = expand(e, node)
                except RecursionError:
                    ex = None
                if ex is not None:
                    fn = terms.whole if label.whole else terms.atom
                    t2, p2 = fn(ex)
                    # keep polarity aligned with the label
                    t0, p0 = fn(e)
                    expanded = t2 if (p2 == p0) else None
                    if expanded == label.term:
                        expanded = None
            info[key] = FactInfo(label.term, label.pol, names, chains, expanded, node)
        return key

    entry_facts = set()
    for text in assume:
        for term, pol in terms.parse_guard(text):
            expr = ast.parse(text, mode="eval").body
            entry_facts.add(register(Label(term, pol, expr), cfg.entry))

    kills = {}
    gens = {}
    for n in cfg.nodes:
        kills[n.id] = node_kills(n, call_kills)
        # tests_only: facts come from tests (and `assume`) alone — used to tell "this was tested on the way" from "this was just assigned"
        gens[n.id] = [] if tests_only else [register(l, n) for l in assignment_facts(n)]
        if await_kills and any(isinstance(s, ast.Await) for e in evaluated_exprs(n) if e is not None
                               for s in walk_local(e)):
            kills[n.id] = (kills[n.id][0], kills[n.id][1] | {"<await>"})
    edge_keys = {}
    for n in cfg.nodes:
        for e in n.succ:
            edge_keys[id(e)] = [register(l, n) for l in e.labels]

    IN = {cfg.entry.id: frozenset(entry_facts)}
    feasible = set()
    work = [cfg.entry]
    while work:
        n = work.pop()
        cur = IN[n.id]
        kn, kc = kills[n.id]
        if kn or kc:
            await_kill = "<await>" in kc
            out = set()
            for k in cur:
                fi = info[k]
                if fi.names & kn or fi.chains & kc:
                    continue
                if await_kill and fi.chains:
                    continue
                out.add(k)
        else:
            out = set(cur)
        for g in gens[n.id]:
            # an assignment fact replaces the opposite one
            out.discard((g[0], not g[1]))
            out.add(g)
        for e in n.succ:
            keys = edge_keys[id(e)]
            if any((t, not p) in out for t, p in keys):
                continue                       # contradicts what holds here: infeasible (for now)
            cand = out | set(keys)
            der = derive(cand) if any(k[0].startswith(("or[", "and[")) for k in cand) else {}
            if any((t, not p) in cand or (t, not p) in der for t, p in der):
                continue                       # unit propagation over compound facts yields a contradiction
            for dk, parent in der.items():
                if dk not in info and parent in info:
                    pi = info[parent]
                    info[dk] = FactInfo(dk[0], dk[1], pi.names, pi.chains, None, pi.origin)
            cand = cand | {dk for dk in der if dk in info}
            feasible.add(id(e))
            new = frozenset(cand)
            old = IN.get(e.dst.id)
            if old is None:
                IN[e.dst.id] = new
                work.append(e.dst)
            else:
                merged = old & new
                if merged != old:
                    IN[e.dst.id] = merged
                    work.append(e.dst)
    # edges pruned early may have become feasible after facts shrank: iterate to a fixpoint
    changed = True
    while changed:
        changed = False
        for n in cfg.nodes:
            cur = IN.get(n.id)
            if cur is None:
                continue
            kn, kc = kills[n.id]
            out = {k for k in cur if not (info[k].names & kn or info[k].chains & kc
                                          or ("<await>" in kc and info[k].chains))}
            for g in gens[n.id]:
                out.discard((g[0], not g[1]))
                out.add(g)
            for e in n.succ:
                keys = edge_keys[id(e)]
                if any((t, not p) in out for t, p in keys):
                    continue
                cand = out | set(keys)
                der = derive(cand) if any(k[0].startswith(("or[", "and[")) for k in cand) else {}
                if any((t, not p) in cand or (t, not p) in der for t, p in der):
                    continue
                for dk, parent in der.items():
                    if dk not in info and parent in info:
                        pi = info[parent]
                        info[dk] = FactInfo(dk[0], dk[1], pi.names, pi.chains, None, pi.origin)
                cand = cand | {dk for dk in der if dk in info}
                new = frozenset(cand)
                old = IN.get(e.dst.id)
                if id(e) not in feasible:
                    feasible.add(id(e))
                    changed = True
                if old is None:
                    IN[e.dst.id] = new
                    changed = True
                else:
                    merged = old & new
                    if merged != old:
                        IN[e.dst.id] = merged
                        changed = True
    return Facts(cfg, IN, info, feasible)
