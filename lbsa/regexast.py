"""Structural queries over regular expressions via the stdlib's own parser (re._parser)."""
import re
try:
    import re._parser as sre_parse
    import re._constants as sre_c
except ImportError:  # pragma: no cover  (python < 3.11)
    import sre_parse
    import sre_constants as sre_c

from . import AnalysisError


def parse(pattern, flags=0):
    try:
        return sre_parse.parse(pattern, flags)
    except re.error as e:
        raise AnalysisError(f"regex does not parse: {e}")


def items(p):
    return list(p)


def ends_anchored_whole_string(p):
    """last top-level item is \\Z (AT_END_STRING); `$` (AT_END) also matches before a final newline"""
    it = items(p)
    if not it:
        return False, "empty"
    op, av = it[-1]
    if op is sre_c.AT and av is sre_c.AT_END_STRING:
        return True, "\\Z"
    if op is sre_c.AT and av is sre_c.AT_END:
        return False, "$ (also matches before a trailing newline)"
    return False, "no end anchor"


def starts_anchored(p):
    it = items(p)
    if not it:
        return False
    op, av = it[0]
    return op is sre_c.AT and av in (sre_c.AT_BEGINNING, sre_c.AT_BEGINNING_STRING)


def strip_anchors(p):
    it = items(p)
    while it and it[0][0] is sre_c.AT:
        it = it[1:]
    while it and it[-1][0] is sre_c.AT:
        it = it[:-1]
    return it


def class_members(av):
    """for an IN item: (negated, set of (lo,hi) ranges, set of category names)"""
    neg, ranges, cats = False, set(), set()
    for op, a in av:
        if op is sre_c.NEGATE:
            neg = True
        elif op is sre_c.LITERAL:
            ranges.add((a, a))
        elif op is sre_c.RANGE:
            ranges.add((a[0], a[1]))
        elif op is sre_c.CATEGORY:
            cats.add(str(a))
    return neg, ranges, cats


def in_class(av, codepoint):
    """is codepoint matched by the IN item (categories are not evaluated: returns None if undecidable)"""
    neg, ranges, cats = class_members(av)
    hit = any(lo <= codepoint <= hi for lo, hi in ranges)
    if cats and not hit:
        return None
    return hit != neg


def is_ascii_digit_class(item, flags=0):
    """item matches exactly one ASCII digit"""
    op, av = item
    if op is sre_c.IN:
        neg, ranges, cats = class_members(av)
        if not neg and ranges == {(48, 57)} and not cats:
            return True
        if not neg and not ranges and cats == {"CATEGORY_DIGIT"}:
            return bool(flags & re.ASCII)
    return False


def repeat_of(item):
    """(min, max, inner_items) for MAX_REPEAT / MIN_REPEAT, else None"""
    op, av = item
    if op in (sre_c.MAX_REPEAT, sre_c.MIN_REPEAT):
        lo, hi, sub = av
        return lo, hi, list(sub)
    return None


def group_of(item):
    """(group_number, inner_items) for a SUBPATTERN"""
    op, av = item
    if op is sre_c.SUBPATTERN:
        return av[0], list(av[3])
    return None


def literal_of(item):
    op, av = item
    if op is sre_c.LITERAL:
        return chr(av)
    return None


MAXREPEAT = sre_c.MAXREPEAT
