"""Rule templates shared by the property modules (DESIGN.md §4)."""
import ast

from . import AnalysisError, terms
from .astutil import dotted, call_name, unparse, norm_text, FUNC_NODES, enclosing


def fmt_missing(missing):
    return ", ".join(("" if p else "not ") + t for t, p in missing)


def gate(ctx, rule, fa, node, guard, what, assume=(), key=None, await_kills=False):
    """GATE: `node` is reachable only under `guard` (conjunction, text)"""
    ok, missing, wit = fa.guarded(node, guard, assume, await_kills=await_kills)
    return ctx.ob(rule, ok, fa.site(node), what,
                  detail="" if ok else f"not dominated by guard(s) [{fmt_missing(missing)}]; {wit}",
                  func=fa.fi.qualname, key=key)


def atomic_facts_at(fa, node, assume=()):
    """atomic (non whole-test) facts that hold at node, as {(term, pol)} in raw and expanded vocabulary"""
    # facts established by TESTS on the way (a constant assignment `x = True` is not a condition under which the node runs);
    # reachability is still judged with the full analysis (fa.reachable)
    F = fa.facts(assume, tests_only=True)
    out = None
    for n in fa.cfg_nodes(node):
        have = F.at(n)
        if have is None:
            continue
        cur = set()
        for k in have:
            fi = F.info.get(k)
            if fi is None:
                continue
            if k[0].startswith(("and[", "or[", "ite[")):
                continue
            cur.add(k)
        out = cur if out is None else out & cur
    return out or set(), F


def exact_gate(ctx, rule, fa, node, guard, what, assume=(), ignore=(), key=None):
    """the atomic facts holding at `node` are exactly the conjuncts of `guard` (plus `ignore`d terms):
    nothing weaker (a missing conjunct) and nothing stronger (an extra condition narrows acceptance)"""
    want = set(terms.parse_guard(guard))
    ign = set()
    for g in ignore:
        ign |= set(terms.parse_guard(g))
    have, F = atomic_facts_at(fa, node, assume)
    if not fa.reachable(node, assume):
        return ctx.ob(rule, False, fa.site(node), what, detail="the construct is unreachable on every feasible path (dead code)", func=fa.fi.qualname, key=key)
    have_norm = set()
    for k in have:
        fi = F.info[k]
        if fi.expanded and (fi.expanded, k[1]) in want | ign:
            have_norm.add((fi.expanded, k[1]))
        else:
            have_norm.add(k)
    missing = want - have_norm
    extra = have_norm - want - ign
    ok = not missing and not extra
    detail = ""
    if missing:
        detail += f"missing [{fmt_missing(sorted(missing))}] "
    if extra:
        detail += f"extra condition(s) [{fmt_missing(sorted(extra))}] narrow it"
    return ctx.ob(rule, ok, fa.site(node), what, detail=detail.strip(), func=fa.fi.qualname, key=key)


def only_terms(ctx, rule, fa, node, allowed, what, assume=(), key=None):
    """every atomic fact holding at `node` tests one of the `allowed` conditions (either polarity): no additional condition
    decides whether `node` is reached.  `allowed` are guard texts; their conjunct terms are used."""
    terms_ok = set()
    for g in allowed:
        terms_ok |= terms.atoms_of_text(g)
    have, F = atomic_facts_at(fa, node, assume)
    if not fa.reachable(node, assume):
        return ctx.ob(rule, False, fa.site(node), what, detail="the construct is unreachable on every feasible path (dead code)", func=fa.fi.qualname, key=key)
    extra = set()
    for k in have:
        fi = F.info[k]
        if k[0] in terms_ok or (fi.expanded and fi.expanded in terms_ok):
            continue
        extra.add(k)
    return ctx.ob(rule, not extra, fa.site(node), what, detail="" if not extra else f"additional condition(s) [{fmt_missing(sorted(extra))}]", func=fa.fi.qualname, key=key)


def same_test(expr, text):
    """does the test expression `expr` mean `text` (orientation / polarity normalised)?"""
    return terms.whole(expr) == terms.whole(ast.parse(text, mode="eval").body)


def top_level_texts(fa, skip_plain_locals=True):
    """normalised texts of the statements at the top level of the function body (each runs unconditionally), without docstring,
    logging calls and assignments of constants to plain local names (unrelated bookkeeping)"""
    out = []
    for x in fa.node.body:
        if isinstance(x, ast.Expr) and isinstance(x.value, ast.Constant):
            continue
        if isinstance(x, ast.Expr) and isinstance(x.value, ast.Call) and dotted(x.value.func) and dotted(x.value.func).split(".")[0] in ("log", "logger", "logging"):
            continue
        if skip_plain_locals and isinstance(x, ast.Assign) and all(isinstance(t, ast.Name) for t in x.targets) and isinstance(x.value, ast.Constant):
            continue
        out.append(norm_text(x))
    return out


def lazy_cache(ctx, rule, fa, attr, what, value_pred=None, extra_ok=()):
    """the compute-once idiom `if self.X is None: self.X = <value>; return self.X`: the fill is reached exactly when the cache is empty
    (plus `extra_ok` outer conditions), the value satisfies value_pred, and every path returns the cached attribute"""
    q = fa.fi.qualname
    fills = [x for x in fa.stmts(ast.Assign) if any(dotted(t) == f"self.{attr}" for t in x.targets)]
    ok = len(fills) == 1
    ctx.ob(rule, ok, fa.site(), f"{what}: one fill of self.{attr}", func=q)
    for x in fills:
        exact_gate(ctx, rule, fa, x, " and ".join([f"self.{attr} is None"] + list(extra_ok)), f"{what}: computed exactly when self.{attr} is empty", key=f"{rule}|{q}|fill-exact")
        if value_pred is not None:
            ctx.ob(rule, bool(value_pred(x.value)), fa.site(x), f"{what}: the value stored", detail=unparse(x.value)[:100], func=q, key=f"{rule}|{q}|fill-value")
    rets = fa.stmts(ast.Return)
    cached = [r for r in rets if r.value is not None and dotted(r.value) == f"self.{attr}"]
    p = fa.path([fa.cfg.entry], [fa.cfg.exit], avoid=lambda n: n.kind == "return", include_exc=False)
    ctx.ob(rule, bool(cached) and p is None, fa.site(), f"{what}: self.{attr} is returned and no path falls off the end", func=q, key=f"{rule}|{q}|returns")
    return fills


def refusal_table(ctx, rule, fa, table, what, extra_terms=(), skip_handlers=True, allow_other=False):
    """every `raise` of the function is one row of `table` = [(substring of the raise's text, guard text)]: it is reached under its guard
    (dominance) and under no condition outside the table's own tests (nothing narrows or widens a refusal), and every row is present.
    Decides both directions of a validator: what must be refused is refused, and nothing else is."""
    q = fa.fi.qualname
    all_guards = [g for _m, g in table] + list(extra_terms)
    matched = set()
    for r, _k in raise_kinds(fa):
        if skip_handlers and in_handler(r, fa) is not None:
            continue
        txt = norm_text(r)
        rows = [i for i, (m, _g) in enumerate(table) if m in txt and i not in matched] or [i for i, (m, _g) in enumerate(table) if m in txt]
        if not rows:
            if not allow_other:
                ctx.ob(rule, False, fa.site(r), f"{what}: no refusal beyond the listed ones", detail=f"additional refusal `{txt[:90]}`", func=q, key=f"{rule}|{q}|unlisted|{txt[:40]}")
            continue
        i = rows[0]
        matched.add(i)
        m, g = table[i]
        ok, missing, wit = fa.guarded(r, g)
        ctx.ob(rule, ok, fa.site(r), f"{what}: `{m}` is raised only under `{g}`", detail="" if ok else f"missing [{fmt_missing(missing)}]; {wit}", func=q, key=f"{rule}|{q}|{m[:40]}|dom")
        only_terms(ctx, rule, fa, r, all_guards, f"{what}: `{m}` depends on the validator's own tests only", key=f"{rule}|{q}|{m[:40]}|terms")
    for i, (m, g) in enumerate(table):
        if i not in matched:
            ctx.ob(rule, False, fa.site(), f"{what}: refusal `{m}` (under `{g}`) is present", detail="the raise is gone", func=q, key=f"{rule}|{q}|{m[:40]}|present")
    return matched


def ordered_stmts(fa):
    """statements of the function in execution-text order of the (normalised) tree: body before orelse before finalbody; nested defs are
    not entered.  Independent of line numbers, which no longer reflect the order once mirrored if/else arms were normalised back."""
    out = []

    def walk(stmts):
        for x in stmts:
            out.append(x)
            if isinstance(x, (ast.FunctionDef, ast.AsyncFunctionDef, ast.ClassDef)):
                continue
            for fld in ("body", "handlers", "orelse", "finalbody"):
                blk = getattr(x, fld, None)
                if isinstance(blk, list):
                    for h in blk:
                        if isinstance(h, ast.ExceptHandler):
                            walk(h.body)
                    walk([b for b in blk if isinstance(b, ast.stmt)])
            if hasattr(ast, "Match") and isinstance(x, ast.Match):
                for c in x.cases:
                    walk(c.body)
    walk(fa.node.body)
    return out


def lexical_conditions(fa, node):
    """[(test expression, True if node is in the true branch / loop body, False if in the else branch)] of the if / while / conditional
    expressions that lexically enclose node inside the function, innermost first"""
    out = []
    cur = node
    par = getattr(cur, "_parent", None)
    while par is not None and par is not fa.node:
        if isinstance(par, (ast.If, ast.While)):
            if cur in par.body:
                out.append((par.test, True))
            elif cur in par.orelse:
                out.append((par.test, False))
        elif isinstance(par, ast.IfExp):
            if cur is par.body:
                out.append((par.test, True))
            elif cur is par.orelse:
                out.append((par.test, False))
        cur, par = par, getattr(par, "_parent", None)
    return out


def effect_table(ctx, rule, fa, vocabulary, rows, what_prefix="", count=None):
    """rows = [(statement text or prefix, guard `need`, what)].  Every simple statement of the function whose normalised text starts with the
    row's text (at least one must exist) is reached under `need` (dominance) and under no condition outside the function's own test
    vocabulary (`vocabulary` + the row's terms): a dropped, negated, widened or additionally narrowed test all change the verdict, while
    re-ordering or re-orienting the same tests does not."""
    q = fa.fi.qualname
    simple = (ast.Expr, ast.Assign, ast.AugAssign, ast.AnnAssign, ast.Return, ast.Raise, ast.Break, ast.Continue, ast.Delete)
    stmts = [x for x in ordered_stmts(fa) if isinstance(x, simple)]
    for i, row in enumerate(rows):
        text, need, what = row[:3]
        nth = row[3] if len(row) > 3 else None
        hits = [x for x in stmts if norm_text(x).startswith(text)] if text != "return" else [x for x in stmts if isinstance(x, ast.Return) and x.value is None]
        if nth is not None:
            hits = hits[nth:nth + 1] if nth >= 0 else hits[nth:][:1]
        key0 = f"{rule}|{q}|{text[:40]}" + (f"#{nth}" if nth is not None else "")
        if not hits:
            ctx.ob(rule, False, fa.site(), f"{what_prefix}{what}", detail=f"no statement `{text}…` in {fa.fi.name}", func=q, key=key0 + "|present")
            continue
        if need.startswith("lex:"):
            # lexical variant for branches that mutate the very cursor their test reads (the path fact is killed by the mutation):
            # the statement sits in the true-branch of an `if <need>` and every enclosing test belongs to the vocabulary
            g = need[4:]
            for x in hits:
                conds = lexical_conditions(fa, x)
                dom = any(pol and same_test(t, g) for t, pol in conds)
                ctx.ob(rule, dom, fa.site(x), f"{what_prefix}{what}", detail="" if dom else f"`{norm_text(x)[:60]}` is not inside the branch `if {g}`", func=q, key=key0 + "|dom")
                allowed_t = set()
                for v_ in list(vocabulary) + [g]:
                    allowed_t |= terms.atoms_of_text(v_)
                extra = [norm_text(t) for t, _pol in conds if not terms.atoms_of(t) <= allowed_t]
                ctx.ob(rule, not extra, fa.site(x), f"{what_prefix}{what} — and nothing else decides it", detail="" if not extra else f"additional enclosing condition(s) {extra}", func=q,
                       key=key0 + "|terms")
            continue
        for x in hits:
            ok, missing, wit = fa.guarded(x, need) if need.strip() else (fa.reachable(x), [], "")
            ctx.ob(rule, ok, fa.site(x), f"{what_prefix}{what}", detail="" if ok else f"`{norm_text(x)[:60]}` not under [{fmt_missing(missing)}]; {wit}", func=q, key=key0 + "|dom")
            only_terms(ctx, rule, fa, x, list(vocabulary) + ([need] if need.strip() else []), f"{what_prefix}{what} — and nothing else decides it", key=key0 + "|terms")


def next_stmt(x):
    """the statement that follows x in its own block (body / orelse / finalbody / handler body), or None"""
    par = getattr(x, "_parent", None)
    for fld in ("body", "orelse", "finalbody"):
        blk = getattr(par, fld, None)
        if isinstance(blk, list) and x in blk:
            i = blk.index(x)
            return blk[i + 1] if i + 1 < len(blk) else None
    return None


def prev_stmt(x):
    """the statement that precedes x in its own block, or None"""
    par = getattr(x, "_parent", None)
    for fld in ("body", "orelse", "finalbody"):
        blk = getattr(par, fld, None)
        if isinstance(blk, list) and x in blk:
            i = blk.index(x)
            return blk[i - 1] if i > 0 else None
    return None


def share(ctx, other_pid, mapping):
    """evaluate the rule instances of another property that this property's statement depends on, under this property's rule ids.
    mapping: {rule-id prefix of the other property: rule-id prefix here}.  The other module's check runs on the same engine (its functions are
    analysed once); only the obligations whose rule id starts with a mapped prefix are kept."""
    import importlib
    mod = importlib.import_module(f"lbsa.props.{other_pid.lower()}")
    n0, v0 = len(ctx.obligations), len(ctx.violations)
    saved = ctx.pid
    ctx.pid = other_pid                       # gates written as `if ctx.pid == "Cxx"` inside the other module behave as in their own run
    try:
        mod.check(ctx)
    finally:
        ctx.pid = saved
    new_obs, new_viol = ctx.obligations[n0:], ctx.violations[v0:]
    keep = []
    for o in new_obs:
        for old, new in mapping.items():
            if o["rule"].startswith(old):
                o["rule"] = new + o["rule"][len(old):]
                o["key"] = o["key"].replace(old, new)
                o["what"] = o["what"] + f"  [rule instance shared with {other_pid}]"
                keep.append(o)
                break
    ctx.obligations[n0:] = keep
    ctx.violations[v0:] = [v for v in new_viol if any(v is k for k in keep)]
    return len(keep)


def ref_sites(prog, name, loads_only=True):
    """[(module, node, enclosing FunctionInfo|None)] for every syntactic reference to identifier `name`"""
    out = []
    for m, n in prog.refs_named(name):
        if loads_only and not isinstance(getattr(n, "ctx", None), ast.Load):
            continue
        out.append((m, n, prog.function_of(n)))
    return out


def callers_only(ctx, rule, name, allowed, what, floor=1, module_prefix="lbry", ignore_modules=()):
    """CALLERS: every reference (call, pass as value, attribute load) to identifier `name` lies in a
    function whose qualname starts with one of `allowed`"""
    sites = [(m, n, f) for m, n, f in ref_sites(ctx.prog, name) if m.name.startswith(module_prefix)
             and not any(m.name.startswith(x) for x in ignore_modules)]
    ctx.floor(rule, f"references to `{name}`", len(sites), floor)
    ok_all = True
    for m, n, f in sites:
        q = f.qualname if f is not None else f"{m.name}.<module>"
        ok = any(q == a or q.startswith(a + ".") for a in allowed)
        ok_all &= ctx.ob(rule, ok, f"{m.relpath}:{n.lineno}", f"{what}: reference to `{name}` in {q.replace(m.name + '.', '')}",
                         detail="" if ok else f"`{name}` may only be used from {', '.join(a.rpartition('.')[2] for a in allowed)}",
                         func=q, key=f"{rule}|{q}|{name}")
    return ok_all


def writers_only(ctx, rule, attr, allowed, what, floor=1, recv_filter=None, kinds=None, module_prefix="lbry"):
    """WRITERS: every syntactic write of `.attr` (assignment, augmented assignment, deletion, mutator
    call) lies in an allowed function.  recv_filter(module, recv_node, func) -> bool selects the
    sites that concern the protected object."""
    sites = []
    for m, node, kind, recv in ctx.prog.attr_writes(attr):
        if not m.name.startswith(module_prefix):
            continue
        if kinds is not None and not any(kind == k or kind.startswith(k) for k in kinds):
            continue
        f = ctx.prog.function_of(node)
        if recv_filter is not None and not recv_filter(m, recv, f):
            continue
        sites.append((m, node, kind, recv, f))
    ctx.floor(rule, f"writes of `.{attr}`", len(sites), floor)
    for m, node, kind, recv, f in sites:
        q = f.qualname if f is not None else f"{m.name}.<module>"
        ok = any(q == a or q.startswith(a + ".") for a in allowed)
        ctx.ob(rule, ok, f"{m.relpath}:{node.lineno}", f"{what}: {kind} of `{unparse(recv)}` in {q.replace(m.name + '.', '')}",
               detail="" if ok else f"`.{attr}` may only be written from {', '.join(a.rpartition('.')[2] for a in allowed)}",
               func=q, key=f"{rule}|{q}|{attr}|{kind}")
    return sites


def returns_expr(fa):
    return [r for r in fa.stmts(ast.Return)]


def single_return_value(fa):
    rets = [r for r in fa.stmts(ast.Return) if r.value is not None]
    if len(rets) != 1:
        return None
    return rets[0]


def raise_kinds(fa):
    out = []
    for x in fa.stmts(ast.Raise):
        e = x.exc
        k = dotted(e.func) if isinstance(e, ast.Call) else dotted(e) if e is not None else None
        out.append((x, k))
    return out


def stmt_of(node):
    n = node
    while n is not None and not isinstance(n, ast.stmt):
        n = getattr(n, "_parent", None)
    return n


def in_handler(node, fa):
    """the ExceptHandler lexically enclosing node inside fa's function, or None"""
    return fa.lexically_inside(node, lambda a: isinstance(a, ast.ExceptHandler))


def handler_types(h):
    if h.type is None:
        return ["<bare>"]
    elts = h.type.elts if isinstance(h.type, ast.Tuple) else [h.type]
    return [dotted(e) or unparse(e) for e in elts]


def names_defined_by(fa, pred):
    """local names whose (plain) assignment value satisfies pred(value_expr) — lets a rule refer to a
    local by what it holds rather than by how it is spelled"""
    out = []
    for s in fa.stmts((ast.Assign, ast.AnnAssign)):
        v = s.value
        if v is None:
            continue
        if isinstance(v, ast.Await):
            v2 = v.value
        else:
            v2 = v
        if pred(v) or pred(v2):
            tg = s.targets if isinstance(s, ast.Assign) else [s.target]
            for t in tg:
                if isinstance(t, ast.Name) and t.id not in out:
                    out.append(t.id)
    return out


def one_name(ctx, rule, fa, pred, what):
    ns = names_defined_by(fa, pred)
    if len(ns) != 1:
        ctx.ob(rule, False, fa.site(), f"mechanism present: local holding {what}",
               detail=f"found {len(ns)} candidate locals {ns}", func=fa.fi.qualname,
               key=f"{rule}|{fa.fi.qualname}|missing-local|{what}")
        return None
    return ns[0]


# ------------------------------------------------------------------------------------------------ overrides refine, never weaken
def _is_super_call(node, method):
    """super().method(...) — optionally awaited"""
    if isinstance(node, ast.Await):
        node = node.value
    return (isinstance(node, ast.Call) and isinstance(node.func, ast.Attribute) and node.func.attr == method
            and isinstance(node.func.value, ast.Call) and isinstance(node.func.value.func, ast.Name) and node.func.value.func.id == "super")


def _forwards_all(call, params):
    """the super call hands on every own parameter unchanged: positionally in order, or as NAME=NAME"""
    if isinstance(call, ast.Await):
        call = call.value
    pos = [dotted(a) for a in call.args]
    if pos != params[:len(pos)]:
        return False
    rest = params[len(pos):]
    kws = {k.arg: dotted(k.value) for k in call.keywords}
    return set(kws) == set(rest) and all(kws[r] == r for r in rest)


def override_refines(ctx, rule, base_qualname, method, mode, what, floor=1, skip=()):
    """OVERRIDE: every subclass of `base` that overrides `method` keeps the base behaviour as a component.
       and-super      every returned value is super().method() or a conjunction with it (a predicate may only become stricter)
       forward        every returned value is super().method(<all own parameters, unchanged>)
       super-toplevel an unconditional (top-level) statement of the body is super().method(<all own parameters>)"""
    prog = ctx.prog
    base = prog.cls(base_qualname)
    n = 0
    for sub in sorted(prog.subclasses(base), key=lambda c: c.qualname):
        q = f"{sub.qualname}.{method}"
        if sub.qualname in skip or not prog.has_func(q):
            continue
        fa = ctx.fa(q)
        own = [p for p in fa.fi.params() if p not in ("self", "cls")]
        rebound = [x for x in ast.walk(fa.fi.node) if isinstance(x, ast.Name) and x.id in own and isinstance(x.ctx, (ast.Store, ast.Del))]
        n += 1
        if mode in ("and-super", "forward"):
            rets = fa.stmts(ast.Return)
            ok = bool(rets) and not rebound
            for r in rets:
                v = r.value
                if mode == "and-super":
                    parts = v.values if isinstance(v, ast.BoolOp) and isinstance(v.op, ast.And) else [v]
                    ok = ok and any(_is_super_call(p, method) and _forwards_all(p, own) for p in parts)
                else:
                    ok = ok and v is not None and _is_super_call(v, method) and _forwards_all(v, own)
            ctx.ob(rule, ok, fa.site(), f"{sub.name}.{method}: {what}", func=q, key=f"{rule}|{q}|{mode}",
                   detail="" if ok else ("a parameter is rebound before it is handed on" if rebound else "a return value does not contain super()." + method + "(<all own parameters>)"))
        else:
            if mode == "super-toplevel":
                ok = False
                for st in fa.fi.node.body:
                    v = st.value if isinstance(st, (ast.Expr, ast.Return)) else None
                    if v is not None and _is_super_call(v, method) and _forwards_all(v, own):
                        ok = True
                        break
                    if isinstance(st, (ast.Return, ast.Raise)):
                        break
            else:
                raise ValueError(mode)
            ctx.ob(rule, bool(ok) and not rebound, fa.site(), f"{sub.name}.{method}: {what}", func=q, key=f"{rule}|{q}|{mode}")
    ctx.floor(rule, f"overrides of {base.name}.{method}", n, floor)
    return n


def executor_jobs_awaited(ctx, rule, qualnames, what, floor=1):
    """AWAIT: a job handed to loop.run_in_executor is awaited where it is started (or its future is returned to the caller) —
    otherwise the coroutine that started it completes, and everything chained on it runs, while the job is still queued"""
    n = 0
    for q in qualnames:
        fa = ctx.fa(q)
        for c in fa.calls(name="run_in_executor"):
            n += 1
            par = next((p for p in ast.walk(fa.fi.node) if any(ch is c for ch in ast.iter_child_nodes(p))), None)
            ok = isinstance(par, (ast.Await, ast.Return))
            ctx.ob(rule, ok, fa.site(c), what, func=q, key=f"{rule}|{q}|executor-awaited",
                   detail="" if ok else "the future returned by run_in_executor is dropped: the job is not finished when this coroutine returns")
    ctx.floor(rule, "run_in_executor job", n, floor)
    return n


def ctor_stores(ctx, rule, qualname, fields, what, defaults=None):
    """STORE: the constructor keeps what it is given — `self.<field> = <parameter>` once, unconditionally, the bare parameter (no `or default`,
    no conversion: those conflate 0 / None / '' or change the value that is later serialised).  defaults: {param: python literal} the signature must carry."""
    fa = ctx.fa(qualname)
    params = fa.fi.params()
    top = {id(s) for s in fa.fi.node.body}
    for field, param in fields.items():
        ws = [s for s in fa.stmts(ast.Assign) if any(unparse(t) == f"self.{field}" for t in s.targets)] + \
             [s for s in fa.stmts(ast.AnnAssign) if unparse(s.target) == f"self.{field}" and s.value is not None]
        rebound = [x for x in ast.walk(fa.fi.node) if isinstance(x, ast.Name) and x.id == param and isinstance(x.ctx, (ast.Store, ast.Del))]
        ok = len(ws) == 1 and id(ws[0]) in top and dotted(ws[0].value) == param and param in params and not rebound
        ctx.ob(rule, ok, fa.site(ws[0]) if ws else fa.site(), f"{fa.fi.cls.name if fa.fi.cls else ''}.{field} is exactly the `{param}` argument — {what}", func=qualname,
               key=f"{rule}|{qualname}|store|{field}", detail="" if ok else f"found: {[unparse(w) for w in ws]}")
    if defaults:
        a = fa.fi.node.args
        pos = a.posonlyargs + a.args
        dmap = {p.arg: d for p, d in zip(pos[len(pos) - len(a.defaults):], a.defaults)}
        dmap.update({p.arg: d for p, d in zip(a.kwonlyargs, a.kw_defaults) if d is not None})
        for p, want in defaults.items():
            d = dmap.get(p)
            try:
                got = ast.literal_eval(d) if d is not None else "<none>"
            except Exception:
                got = "<not a literal>"
            ctx.ob(rule, got == want, fa.site(), f"default of `{p}` is {want!r}", func=qualname, key=f"{rule}|{qualname}|default|{p}", detail="" if got == want else f"found {got!r}")


def ordered_calls(fa):
    """the function's own Call nodes in evaluation-like (tree, depth-first, arguments before the call that consumes them is NOT modelled) order"""
    out = []

    def dfs(n):
        for ch in ast.iter_child_nodes(n):
            if isinstance(ch, FUNC_NODES + (ast.Lambda, ast.ClassDef)):
                continue
            if isinstance(ch, ast.Call):
                out.append(ch)
            dfs(ch)
    dfs(fa.fi.node)
    return out


def no_await_between(ctx, rule, fa, def_stmt, use_stmt, what, key=None):
    """FRESH: a value read from shared state is used before control is handed back to the event loop — no `await` (other than the one that produces the
    value) lies on any path from the statement that reads it to the statement that uses it; otherwise another task can change the state in between and
    the use acts on a stale copy."""
    own = {id(x) for st in (def_stmt, use_stmt) for x in ast.walk(st)}
    others = [a for a in fa.local_nodes(ast.Await) if id(a) not in own]
    bad = None
    for a in others:
        an = fa.cfg_nodes(a)
        if fa.path(fa.cfg_nodes(def_stmt), an, include_exc=False) is not None and fa.path(an, fa.cfg_nodes(use_stmt), include_exc=False) is not None:
            bad = a
            break
    ctx.ob(rule, bad is None, fa.site(bad if bad is not None else def_stmt), what, func=fa.fi.qualname, key=key or f"{rule}|{fa.fi.qualname}|fresh",
           detail="" if bad is None else f"`{unparse(bad)[:80]}` (line {bad.lineno}) runs between reading the value (line {def_stmt.lineno}) and using it (line {use_stmt.lineno})")
    return bad is None


def _leaves(body):
    return bool(body) and isinstance(body[-1], (ast.Return, ast.Raise, ast.Continue, ast.Break))


def required_polarities(fn, target):
    """[(test expression, required truth value)] for the if-tests that decide lexically whether `target` (a statement of `fn`) is reached: enclosing ifs and
    the guard clauses (an arm that leaves) in front of it in the enclosing blocks.  Works on the tree AS WRITTEN.  None if target is not in fn."""
    out = []

    def guards(stmts):
        for g in stmts:
            if isinstance(g, ast.If):
                if _leaves(g.body) and not _leaves(g.orelse):
                    out.append((g.test, False))
                elif _leaves(g.orelse) and not _leaves(g.body):
                    out.append((g.test, True))

    def walk(stmts):
        for i, st in enumerate(stmts):
            if st is target:
                guards(stmts[:i])
                return True
            if isinstance(st, (ast.FunctionDef, ast.AsyncFunctionDef, ast.ClassDef)):
                continue
            for fld in ("body", "orelse", "finalbody", "handlers"):
                blk = getattr(st, fld, None)
                if not isinstance(blk, list):
                    continue
                for sub in ([h.body for h in blk] if fld == "handlers" else [blk]):
                    if walk(sub):
                        if isinstance(st, (ast.If, ast.While)) and fld in ("body", "orelse"):
                            out.append((st.test, fld == "body"))
                        guards(stmts[:i])
                        return True
        return False

    return out if walk(fn.body) else None


def compare_atoms(test, pol=True):
    """(Compare node, polarity it must have) for the comparisons inside a test that is required to be `pol`; under `or` required true / `and` required false
    the individual polarity is not determined — those atoms are reported with polarity None"""
    if isinstance(test, ast.UnaryOp) and isinstance(test.op, ast.Not):
        yield from compare_atoms(test.operand, None if pol is None else not pol)
    elif isinstance(test, ast.BoolOp):
        determined = pol is not None and (isinstance(test.op, ast.And) == pol)
        for v in test.values:
            yield from compare_atoms(v, pol if determined else None)
    elif isinstance(test, ast.Compare):
        yield test, pol


def unordered_safe(ctx, rule, src_tree, cls, func, store_target, what, site_prefix, key=None):
    """a value that comes straight out of json.loads may be NaN, which fails EVERY order comparison: the store of such a value is reached only through order
    comparisons on it that are required to HOLD — a refusal written as `if n < 0 or n > MAX: return` lets the unordered value through.  Decided on the tree as
    written (the canonical terms of the engine identify `a < b` with `not b <= a`, which is the total-order assumption this rule is there to drop)."""
    fn = None
    for c in ast.walk(src_tree):
        if isinstance(c, ast.ClassDef) and c.name == cls:
            for f in c.body:
                if isinstance(f, (ast.FunctionDef, ast.AsyncFunctionDef)) and f.name == func:
                    fn = f
    if fn is None:
        return ctx.ob(rule, False, site_prefix, f"{what}: `{cls}.{func}` is present", detail="SHAPE: function not found as written", key=key)
    params = [a.arg for a in fn.args.args if a.arg not in ("self", "cls")]
    stores = [s for s in ast.walk(fn) if isinstance(s, ast.Assign) and any(ast.unparse(t) == store_target for t in s.targets)
              and isinstance(s.value, ast.Name) and s.value.id in params]
    ctx.floor(rule, f"stores of the announced value into {store_target} (as written)", len(stores), 1, site=f"{site_prefix}:{fn.lineno}")
    ORDER = (ast.Lt, ast.LtE, ast.Gt, ast.GtE)
    for s in stores:
        p = s.value.id
        req = required_polarities(fn, s)
        if req is None:
            ctx.ob(rule, False, f"{site_prefix}:{s.lineno}", what, detail="SHAPE: store not found in the statement tree", key=key)
            continue
        pos, bad = 0, []
        for test, pol in req:
            for cmp_, cp in compare_atoms(test, pol):
                names = {n.id for n in ast.walk(cmp_) if isinstance(n, ast.Name)}
                if p in names and any(isinstance(o, ORDER) for o in cmp_.ops):
                    if cp is True:
                        pos += 1
                    else:
                        bad.append(f"L{cmp_.lineno} `{ast.unparse(cmp_)}` must be {'false' if cp is False else 'false on some path'}")
        ok = pos >= 1 and not bad
        ctx.ob(rule, ok, f"{site_prefix}:{s.lineno}", what, detail="" if ok else ("; ".join(bad) or "no order comparison on the value is required to hold") +
               " — an unordered value (NaN from json.loads) gets through", key=key)


def falls_through(stmts):
    """can control reach the end of this statement list (syntactically: return / raise / continue / break leave; an if leaves when both arms do; a try leaves
    when its body-or-else and every handler do, or its finally does; loops are assumed to end unless `while True` without break)"""
    for st in stmts:
        if isinstance(st, (ast.Return, ast.Raise, ast.Continue, ast.Break)):
            return False
        if isinstance(st, ast.If):
            if not falls_through(st.body) and st.orelse and not falls_through(st.orelse):
                return False
        elif isinstance(st, (ast.With, ast.AsyncWith)):
            if not falls_through(st.body):
                return False
        elif isinstance(st, ast.Try):
            if st.finalbody and not falls_through(st.finalbody):
                return False
            main = falls_through(st.body) and (not st.orelse or falls_through(st.orelse)) if st.orelse else falls_through(st.body)
            if not main and all(not falls_through(h.body) for h in st.handlers):
                return False
        elif isinstance(st, ast.While) and isinstance(st.test, ast.Constant) and st.test.value is True:
            if not any(isinstance(x, ast.Break) for x in ast.walk(st)):
                return False
    return True
