"""Reference definitions of the primitives a property relies on (rule family Cxx-P/PRIMITIVE).

The rules of the property modules decide how the *mechanisms* use their building blocks; the building blocks themselves — codec primitives,
hash / byte-order helpers, compact encodings, small validators and accessors, module and class constants — are leaf code whose whole content is
"the formula".  For those the decidable necessary condition is that the formula is still the reference formula.  Each listed unit is compared,
after normalisation, with the digest recorded for the reference tree in lbsa/primitive_specs.json (tools/gen_primitive_specs.py):

  function   qualname                      body without docstring / annotations / logging, locals renamed canonically, comparisons oriented
                                           canonically, decorators by name, parameter defaults included
  module:M                                 the module-level NAME = <expr> assignments of module M (sorted, normalised text)
  class:Q                                  the class-level NAME = <expr> assignments and the base classes of class Q
  module*:M                                every function / method of module M (one unit each) plus module:M and class:… of its classes

A difference is reported with the reference and the current normal form side by side.  This family is deliberately the only one that pins whole
definitions: an equivalent re-write of a primitive that goes beyond the normalisations is reported as well and has to be re-confirmed (and the
reference regenerated) — leaf formulas are small and rarely restructured, while a silently changed formula is the commonest way to break a
property from outside the functions its mechanism lives in (DESIGN.md §12).
"""
import ast
import hashlib
import json
import os

from . import alpha, terms
from .dataflow import clone

HERE = os.path.dirname(os.path.abspath(__file__))
SPEC_PATH = os.path.join(HERE, "primitive_specs.json")

# property -> [(unit, what the property needs from it)]
PRIMITIVES = {
    "C01": [
        ("lbry.blob.blob_manager.BlobManager.get_blob", "ONE blob object per hash (all writers of a blob meet on it); a buffer is migrated to a file object with its verified bytes"),
        ("lbry.blob.blob_manager.BlobManager._get_blob", "which kind of blob object is built"),
        ("lbry.blob.blob_manager.BlobManager.is_blob_verified", "verified status as seen by the manager"),
        ("lbry.blob.blob_file.BlobBuffer._write_blob", "in-memory write"),
        ("lbry.blob.blob_file.BlobBuffer._reader_context", "in-memory read requires a readable blob"),
        ("lbry.blob.blob_file.BlobFile._reader_context", "file read"),
        ("lbry.blob.blob_file.AbstractBlob.__init__", "initial state: no writers, not verified, not writing"),
        ("lbry.blob.blob_file.AbstractBlob.reader_context", "reads require a readable (verified) blob"),
        ("lbry.blob.blob_manager.BlobManager.blob_completed", "what is recorded when a blob completes"),
        ("lbry.blob.blob_manager.BlobManager.delete_blob", "deleting through the manager"),
        ("lbry.blob.writer.HashBlobWriter.__del__", "writer clean-up"),
        ("module:lbry.blob[MAX_BLOB_SIZE,BLOBHASH_LENGTH]", "blob size limit (2 MiB) and hash length (96 hex digits)"),
        ("lbry.blob.writer.HashBlobWriter.closed", "a writer is closed when its buffer is gone or closed"),
        ("lbry.blob.blob_file.is_valid_blobhash", "what a blob hash looks like"),
        ("lbry.blob.blob_file.AbstractBlob.get_is_verified", "verified == the event is set"),
        ("lbry.blob.blob_file.AbstractBlob.write_blob", "direct (migration) write path"),
        ("lbry.blob.blob_file.AbstractBlob._reader_context", "reads require a verified blob"),
        ("lbry.blob.blob_file.AbstractBlob.close", "closing a blob closes its writers"),
        ("lbry.blob.blob_file.AbstractBlob.delete", "delete clears length / verified / file"),
        ("lbry.utils.get_lbry_hash_obj", "the LBRY hash is SHA-384"),
    ],
    "C02": [
        ("lbry.stream.descriptor.StreamDescriptor.old_sort_json", "legacy descriptor serialisation"),
        ("lbry.stream.descriptor.random_iv_generator", "16 random bytes per IV"),
        ("lbry.stream.descriptor.format_sd_info", "descriptor dict layout"),
        ("lbry.stream.descriptor.read_bytes", "chunk reader"),
        ("lbry.blob.blob_file.AbstractBlob.decrypt", "a blob decrypts its own bytes"),
        ("lbry.stream.descriptor.StreamDescriptor.calculate_old_sort_sd_hash", "legacy sd hash"),
        ("lbry.stream.descriptor.StreamDescriptor.length", "stream length = sum of blob lengths"),
    ],
    "C03": [
        ("lbry.wallet.transaction.Transaction.ensure_all_have_same_ledger_and_wallet", "funding accounts share one ledger"),
        ("lbry.wallet.transaction.Output.pay_pubkey_hash", "how a change / payment output is built"),
        ("lbry.wallet.script.OutputScript.pay_pubkey_hash", "payment script values"),
        ("lbry.wallet.transaction.Transaction.pay", "pay = create with the given outputs"),
        ("lbry.wallet.transaction.Transaction.claim_create", "claim_create = create with the claim output"),
        ("lbry.wallet.transaction.Transaction.claim_update", "claim_update spends the old claim into the new one"),
        ("lbry.wallet.transaction.Transaction.support", "support = create with the support output"),
        ("lbry.wallet.transaction.Transaction.purchase", "purchase = create with payment + receipt"),
        ("lbry.wallet.transaction.Input.spend", "an input spends exactly the given output"),
        ("lbry.wallet.transaction.Transaction.add_inputs", "inputs are appended"),
        ("lbry.wallet.transaction.Transaction.add_outputs", "outputs are appended"),
        ("lbry.wallet.transaction.Transaction._add", "appending resets caches and numbers positions"),
        ("@C14", "reservation and release machinery"),
        ("module*:lbry.wallet.hash", "transaction references of database rows: id, hash and height"),
        ("lbry.wallet.database.constraints_to_sql", "constraint → SQL (is_reserved = False must reach the query)"),
        ("lbry.wallet.database.query", "query builder"),
        ("lbry.wallet.database.Database.select_txos", "the UTXO query"),
        ("lbry.wallet.database.Database.get_txos", "rows → outputs"),
        ("lbry.wallet.database.Database.get_utxos", "unspent outputs"),
        ("lbry.wallet.ledger.Ledger.get_utxos", "ledger UTXO listing"),
        ("lbry.wallet.account.Account.get_utxos", "account UTXO listing"),
        ("lbry.wallet.transaction.Transaction.get_base_fee", "fee for the bytes without inputs/outputs"),
        ("lbry.wallet.transaction.Transaction.get_effective_input_sum", "inputs minus their spend fees"),
        ("lbry.wallet.transaction.Transaction.get_total_output_sum", "outputs plus their fees"),
        ("lbry.wallet.transaction.InputOutput.get_fee", "fee = size × fee per byte"),
        ("lbry.wallet.transaction.InputOutput.size", "serialised size"),
        ("lbry.wallet.transaction.Output.get_fee", "fee of an output (claims pay by name length)"),
        ("lbry.wallet.transaction.Transaction.base_size", "size without inputs and outputs"),
        ("lbry.wallet.transaction.Transaction.size", "serialised size of the transaction"),
        ("lbry.wallet.transaction.Output.get_estimator", "estimator of an output"),
        ("lbry.wallet.transaction.OutputEffectiveAmountEstimator.__lt__", "ordering of candidates by effective amount"),
        ("lbry.wallet.transaction.Transaction.fee", "fee = inputs − outputs"),
        ("lbry.wallet.transaction.Transaction.input_sum", "sum of known input amounts"),
        ("lbry.wallet.transaction.Transaction.output_sum", "sum of output amounts"),
        ("module:lbry.wallet.constants[TXO_TYPES]", "TXO type numbers (what is plain spendable value)"),
        ("lbry.wallet.account.AddressManager.get_or_create_usable_address", "where change goes"),
    ],
    "C04": [
        ("lbry.wallet.transaction.Output.get_address", "address a legacy signature commits to"),
        ("lbry.wallet.bip32.PrivateKey.sign", "ECDSA over double SHA-256"),
        ("lbry.wallet.bip32.PrivateKey.sign_compact", "compact channel signatures"),
        ("lbry.wallet.bip32.PublicKey.from_compressed", "channel key from compressed bytes"),
        ("lbry.wallet.ledger.Ledger.get_private_key_for_address", "key lookup by address"),
        ("lbry.schema.base.Signable.to_message_bytes", "what a channel signs"),
        ("lbry.wallet.transaction.Output.is_signed_by", "claim validation entry point"),
        ("lbry.wallet.transaction.Transaction._serialize_outputs", "outputs block of the preimage"),
    ],
    "C05": [
        ("lbry.wallet.transaction.Transaction._add", "appending resets caches and numbers positions"),
        ("module*:lbry.wallet.bcd_data_stream", "every read/write primitive of the wire stream"),
        ("module*:lbry.wallet.hash", "transaction references: id ↔ hash, null hash"),
        ("lbry.wallet.transaction.Transaction._serialize_outputs", "outputs block"),
        ("lbry.wallet.transaction.Output.deserialize_from", "output reader"),
        ("lbry.wallet.transaction.Output.serialize_to", "output writer"),
        ("lbry.wallet.transaction.Input.deserialize_from", "input reader"),
        ("lbry.wallet.transaction.Transaction.raw_sans_segwit", "bytes the txid is computed from"),
        ("lbry.wallet.transaction.TXORef.id", "outpoint id"),
        ("lbry.wallet.transaction.TXORef.hash", "outpoint hash"),
    ],
    "C06": [
        ("lbry.wallet.mnemonic.normalize_text", "mnemonic normal form: NFKD, lower case, no combining marks, single spaces, no spaces between CJK characters"),
        ("lbry.wallet.bip32.PublicKey.pubkey_bytes", "33-byte compressed public key"),
        ("lbry.wallet.bip32.PrivateKey.public_key", "public key of a private key, linked to the parent's public key"),
        ("module*:lbry.crypto.hash", "hash primitives"),
        ("module*:lbry.crypto.util", "integer ↔ bytes"),
        ("lbry.crypto.base58.Base58.char_value", "digit value of a Base58 character"),
        ("class:lbry.crypto.base58.Base58", "alphabet"),
        ("lbry.wallet.bip32._KeyBase.identifier", "hash160 of the public key"),
        ("lbry.wallet.bip32._KeyBase.fingerprint", "first 4 bytes of the identifier"),
        ("lbry.wallet.bip32._KeyBase.parent_fingerprint", "fingerprint of the parent (zeros for master)"),
        ("lbry.wallet.bip32._KeyBase.extended_key_string", "Base58Check of the extended key"),
        ("lbry.wallet.bip32.PublicKey.address", "address of a key"),
        ("lbry.wallet.bip32.PrivateKey.address", "address of a key"),
        ("lbry.wallet.account.AddressManager._query_addresses", "address listing for the gap"),
        ("lbry.wallet.database.Database.add_keys", "derived keys are stored with their index"),
        ("lbry.wallet.ledger.Ledger.announce_addresses", "new addresses are subscribed"),
        ("lbry.wallet.mnemonic.is_cjk", "CJK ranges for whitespace removal"),
        ("lbry.wallet.account.HierarchicalDeterministic.get_max_gap", "longest unused run"),
        ("lbry.wallet.account.SingleKey.ensure_address_gap", "single-key accounts"),
    ],
    "C07": [
        ("class:lbry.wallet.header.Headers", "header size, chunk size, genesis / target constants"),
        ("lbry.wallet.header.Headers._iterate_chunks", "batch → chunks at 1000-header boundaries"),
        ("lbry.wallet.header.Headers._read", "byte offsets of stored headers"),
        ("lbry.wallet.header.Headers.get_raw_header", "bounds of a header read"),
        ("lbry.wallet.header.Headers.get", "header lookup"),
        ("lbry.wallet.header.Headers.chunk_hash", "hash of a stored chunk"),
        ("lbry.wallet.header.Headers.header_hash_to_pow_hash", "LBRY proof-of-work hash"),
        ("lbry.wallet.header.Headers.get_proof_of_work", "PoW hash as integer"),
        ("lbry.wallet.header.Headers.get_next_chunk_target", "chunk target"),
        ("lbry.wallet.header.Headers.height", "height = number of headers − 1"),
        ("lbry.wallet.header.Headers.__len__", "number of stored headers"),
        ("lbry.wallet.header.Headers.has_header", "presence of a header"),
        ("class*:lbry.wallet.util.ArithUint256", "nBits ↔ target, bit length, arithmetic and comparisons of targets"),
        ("class:lbry.wallet.ledger.Ledger", "main-net ledger constants (genesis hash/bits, target timespan, checkpoints reference)"),
    ],
    "C08": [
        ("lbry.wallet.claim_proofs.get_hash_for_outpoint", "leaf hash of an outpoint"),
        ("lbry.wallet.database.Database.select_transactions", "transaction query"),
        ("lbry.wallet.database.Database.get_transaction", "stored transaction lookup"),
        ("lbry.wallet.network.Network.retriable_call", "retry until connected"),
        ("lbry.wallet.network.Network.get_merkle", "merkle proof RPC"),
        ("lbry.wallet.network.Network.get_transaction_batch", "batch fetch RPC"),
        ("lbry.wallet.network.Network.rpc", "RPC send"),
        ("lbry.wallet.transaction.Input.deserialize_from", "input reader (the id of a segwit transaction is computed from a re-serialisation)"),
        ("lbry.wallet.transaction.Input.__init__", "input fields"),
        ("lbry.wallet.header.Headers.get_all_missing_headers", "which chunks still have to be fetched"),
        ("lbry.wallet.header.Headers.has_header", "presence of a header"),
        ("lbry.wallet.header.Headers.ensure_chunk_at", "a header is fetched before it is used"),
        ("lbry.wallet.hash.TXRefImmutable.from_id", "txid → hash"),
        ("lbry.wallet.hash.TXRefImmutable.from_hash", "hash → txid"),
        ("lbry.wallet.ledger.Ledger.get_root_of_merkle_tree", "Merkle fold"),
        ("lbry.wallet.header.Headers.get", "header at a height"),
        ("lbry.wallet.header.Headers.deserialize", "header fields incl. merkle root"),
    ],
    "C09": [
        ("lbry.wallet.network.Network.retriable_call", "retry until connected"),
        ("lbry.wallet.network.Network.rpc", "RPC send"),
        ("lbry.wallet.network.Network.get_history", "history RPC"),
        ("lbry.wallet.database.Database.get_transaction", "stored transaction lookup"),
        ("lbry.wallet.database.Database.select_transactions", "transaction query"),
        ("module*:lbry.wallet.hash", "transaction references"),
        ("lbry.wallet.database.Database.select_txos", "the TXO query incl. its joins"),
        ("lbry.wallet.database.Database.get_txos", "rows → outputs"),
        ("lbry.wallet.database.Database.get_txo_count", "count query"),
        ("lbry.wallet.database.Database.get_txo_sum", "sum query"),
        ("lbry.wallet.database.Database.get_balance", "balance = sum of unspent"),
        ("lbry.wallet.database.Database.get_detailed_balance", "claims / supports / tips reported apart"),
        ("class:lbry.wallet.script.OutputScript", "output templates and their names (what is a claim / support)"),
        ("lbry.wallet.transaction.Output.is_support", "support outputs"),
        ("lbry.wallet.transaction.Output.is_claim", "claim outputs"),
        ("lbry.wallet.ledger.Ledger.get_address_manager_for_address", "address → its chain"),
        ("lbry.wallet.ledger.Ledger.announce_addresses", "new addresses are subscribed"),
        ("lbry.wallet.network.Network.subscribe_address", "subscription RPC"),
        ("lbry.wallet.database.Database._clean_txo_constraints_for_aggregation", "aggregation constraints"),
        ("lbry.wallet.database.SQLiteMixin._insert_sql", "INSERT statement builder (ignore / replace)"),
        ("lbry.wallet.database.Database.get_address", "stored history of an address"),
        ("lbry.wallet.database.Database.get_addresses", "address listing"),
        ("lbry.wallet.database.Database.select_addresses", "address query"),
        ("lbry.wallet.ledger.Ledger.subscribe_accounts", "all accounts are subscribed"),
        ("lbry.wallet.ledger.Ledger.subscribe_account", "all chains of an account are subscribed"),
        ("lbry.wallet.database.Database.get_utxos", "UTXO listing"),
        ("lbry.wallet.ledger.Ledger.maybe_has_channel_key", "channel key discovery"),
        ("lbry.wallet.database.constraints_to_sql", "constraint → SQL"),
        ("lbry.wallet.database.query", "query builder"),
    ],
    "C10": [
        ("module*:lbry.blob_exchange.serialization", "wire messages of the blob exchange protocol: keys, to_dict, accessors, (de)serialisers"),
        ("lbry.blob.blob_file.AbstractBlob.sendfile", "streaming a verified blob"),
        ("lbry.blob_exchange.client.BlobExchangeClientProtocol.download_blob", "per-download state reset"),
        ("lbry.blob_exchange.client.BlobExchangeClientProtocol.connection_made", "transport adoption"),
        ("lbry.blob_exchange.client.BlobExchangeClientProtocol.connection_lost", "close on loss"),
        ("lbry.blob_exchange.server.BlobServerProtocol.close", "server close"),
        ("lbry.blob_exchange.server.BlobServerProtocol.connection_lost", "server loss handling"),
    ],
    "C11": [
        ("lbry.utils.get_colliding_prefix_bits", "shared prefix length (bucket depth test)"),
        ("lbry.dht.peer.PeerManager.get_last_replied", "when a contact last replied"),
        ("lbry.dht.protocol.protocol.KademliaProtocol._add_peer.<locals>.probe", "the liveness probe is a ping of that contact"),
        ("lbry.dht.protocol.routing_table.KBucket.get_bad_or_unknown_peers", "probe candidates"),
        ("lbry.dht.protocol.routing_table.KBucket.remove_peer", "removal from a bucket"),
        ("lbry.dht.protocol.routing_table.KBucket.get_peer", "lookup by node id"),
        ("lbry.dht.protocol.routing_table.KBucket.get_peers", "bucket listing"),
        ("lbry.dht.protocol.routing_table.KBucket.__len__", "bucket size"),
        ("lbry.dht.protocol.routing_table.KBucket.__contains__", "membership"),
        ("lbry.dht.protocol.routing_table.TreeRoutingTable.remove_peer", "removal from the table"),
        ("lbry.dht.protocol.routing_table.TreeRoutingTable.get_peer", "table lookup"),
        ("module*:lbry.dht.protocol.distance", "XOR metric, closer-than test"),
        ("module:lbry.dht.constants[HASH_CLASS,HASH_LENGTH,HASH_BITS]", "the 384-bit id space"),
    ],
    "C12": [
        ("lbry.dht.peer.PeerManager.report_last_replied", "reply record"),
        ("lbry.dht.peer.PeerManager.report_last_requested", "request record"),
        ("lbry.dht.peer.PeerManager.report_last_sent", "send record"),
        ("lbry.dht.protocol.iterative_find.FindResponse.get_close_kademlia_peers", "contacts of a reply as peers"),
        ("lbry.dht.protocol.protocol.KademliaProtocol.get_rpc_peer", "RPC handle of a peer"),
        ("lbry.dht.protocol.protocol.KademliaRPC.ping", "ping handler"),
        ("module*:lbry.dht.error", "DHT exception classes and their bases"),
        ("lbry.dht.peer.PeerManager.peer_is_good", "goodness of a peer"),
        ("lbry.dht.peer.PeerManager.contact_triple_is_good", "goodness verdict from reply / request / failure records"),
        ("lbry.dht.peer.PeerManager.update_contact_triple", "id ↔ endpoint mapping"),
        ("lbry.dht.peer.PeerManager.report_failure", "failure record"),
        ("lbry.dht.peer.KademliaPeer.compact_address_tcp", "compact TCP address of a peer"),
        ("lbry.dht.peer.KademliaPeer.compact_ip", "compact IP"),
        ("lbry.dht.peer.KademliaPeer.update_tcp_port", "port update on re-announce"),
        ("lbry.dht.peer.KademliaPeer.node_id", "node id accessor"),
        ("lbry.dht.peer.is_valid_public_ipv4", "what a public address is"),
        ("lbry.dht.peer.decode_tcp_peer_from_compact_address", "compact address → peer"),
        ("lbry.dht.protocol.protocol.KademliaRPC.compact_address", "own compact address"),
        ("lbry.dht.protocol.protocol.KademliaRPC.make_token", "store token"),
        ("lbry.dht.protocol.protocol.KademliaRPC.verify_token", "store token check"),
        ("lbry.dht.protocol.data_store.DictDataStore.has_peers_for_blob", "presence of announcements"),
        ("lbry.dht.protocol.data_store.DictDataStore.get_peers_for_blob", "served announcers"),
        ("lbry.dht.protocol.iterative_find.IterativeFinder._handle_probe_result", "probe result bookkeeping"),
        ("lbry.dht.protocol.iterative_find.IterativeFinder._reset_closest", "closest-peer bookkeeping"),
        ("lbry.dht.protocol.iterative_find.IterativeFinder._add_active", "active set admission"),
        ("lbry.dht.protocol.iterative_find.FindValueResponse.__init__", "value response parsing"),
        ("lbry.dht.protocol.iterative_find.FindNodeResponse.__init__", "node response parsing"),
        ("lbry.dht.protocol.iterative_find.FindValueResponse.get_close_triples", "contacts of a value response"),
        ("lbry.dht.protocol.iterative_find.FindNodeResponse.get_close_triples", "contacts of a node response"),
        ("module:lbry.dht.constants[HASH_CLASS,HASH_LENGTH,HASH_BITS,DATA_EXPIRATION]", "id space; announcements live 24 hours"),
    ],
    "C13": [
        ("lbry.wallet.account.DeterministicChannelKeyManager.generate_next_key", "channel key derivation loop"),
        ("lbry.wallet.account.Account.decrypt", "account decryption"),
        ("lbry.wallet.account.Account.encrypt", "account encryption"),
        ("lbry.wallet.account.Account._decrypt_seed", "seed decryption check"),
        ("lbry.wallet.account.Account._decrypt_private_key_string", "key decryption check"),
        ("lbry.wallet.account.Account.get_init_vector", "IV per secret"),
        ("lbry.wallet.wallet.Wallet.to_dict", "wallet → dict"),
        ("lbry.wallet.wallet.WalletStorage.read", "reading the wallet file"),
        ("lbry.wallet.wallet.Wallet.is_encrypted", "encrypted status"),
        ("lbry.wallet.wallet.Wallet.decrypt", "switching encryption off"),
        ("lbry.crypto.crypt.scrypt", "sync payload KDF"),
        ("lbry.crypto.crypt.better_aes_encrypt", "sync payload encryption"),
        ("lbry.crypto.crypt.better_aes_decrypt", "sync payload decryption"),
    ],
    "C14": [
        ("module*:lbry.wallet.hash", "transaction references: the id reservations are keyed on"),
        ("lbry.wallet.database.constraints_to_sql", "constraint → SQL"),
        ("lbry.wallet.database.Database.reserve_outputs", "reservation UPDATE"),
        ("lbry.wallet.database.Database.release_outputs", "release = reserve False"),
        ("lbry.wallet.database.Database.release_all_outputs", "release all"),
        ("lbry.wallet.ledger.Ledger.reserve_outputs", "ledger reservation"),
        ("lbry.wallet.ledger.Ledger.release_outputs", "ledger release"),
        ('lbry.wallet.ledger.Ledger.release_tx', "release of a transaction's inputs"),
        ("lbry.wallet.ledger.Ledger.broadcast", "broadcast"),
        ("lbry.wallet.manager.WalletManager.broadcast_or_release", "manager hand-over"),
        ("lbry.wallet.database.AIOSQLite.__run_transaction", "begin / commit / rollback"),
        ("lbry.wallet.database.Database.get_spendable_utxos", "sqlite chooser entry"),
    ],
    "C15": [
        ("class:lbry.wallet.script.InputScript", "input templates and their matching order"),
        ("class:lbry.wallet.script.OutputScript", "output templates, names and matching order"),
        ("lbry.schema.base.Signable.to_bytes", "payload layout"),
        ("lbry.wallet.script.Parser.consume_many_non_greedy", "PUSH_MANY consumption"),
        ("lbry.wallet.script.Script.from_source_with_template", "sub-script parsing"),
        ("lbry.wallet.script.Script.tokens", "tokenisation of a script"),
        ("lbry.wallet.script.Script.template", "template accessor"),
        ("lbry.wallet.script.Script.values", "values accessor"),
        ("lbry.wallet.script.is_push_data_opcode", "push opcode range"),
        ("lbry.wallet.script.is_push_data_token", "push token range"),
        ("lbry.wallet.script.is_small_integer", "small-integer range"),
        ("lbry.wallet.script.push_small_integer", "small-integer writer"),
        ("lbry.wallet.script.read_small_integer", "small-integer reader"),
        ("lbry.wallet.script.tokenize", "token list"),
        ("module:lbry.wallet.script", "opcode numbers and template opcode objects"),
        ("lbry.wallet.bcd_data_stream.BCDataStream.write_many", "multi-part write"),
    ],
    "C16": [
        ("module*:lbry.schema.compat", "legacy JSON / v1 migration"),
        ("lbry.schema.attrs.Language.langtag", "language tag accessor"),
        ("lbry.schema.tags.normalize_tag", "tag normal form"),
        ("lbry.schema.tags.clean_tags", "tag list normal form"),
        ("lbry.schema.base.Signable.to_message_bytes", "message bytes"),
        ("lbry.schema.base.Signable.clear_signature", "signature reset"),
        ("lbry.schema.base.Signable.is_signed", "signed status"),
        ("lbry.schema.url.normalize_name", "name normal form"),
        ("lbry.schema.url.PathSegment.normalized", "normalised segment"),
        ("lbry.schema.url.PathSegment.to_dict", "segment dict"),
        ("lbry.schema.attrs.country_str_to_int", "region code"),
        ("lbry.schema.attrs.country_int_to_str", "region code back"),
        ("lbry.schema.compat.from_types_v1", "legacy v1 migration"),
    ],
    "C17": [
        ("module*:lbry.dht.serialization.datagram", "datagram classes, field tables, compact addresses"),
        ("lbry.dht.peer.KademliaPeer.compact_address_tcp", "compact TCP address"),
        ("lbry.dht.peer.KademliaPeer.compact_ip", "compact IP"),
        ("lbry.dht.peer.make_kademlia_peer", "peer construction"),
        ("lbry.dht.constants.generate_rpc_id", "rpc id length"),
        ("module:lbry.dht.constants[HASH_CLASS,HASH_LENGTH,HASH_BITS,RPC_ID_LENGTH]", "id and rpc id lengths"),
        ("module*:lbry.dht.error", "DHT exception classes and their bases"),
    ],
    "C18": [
        ("lbry.extras.daemon.storage.SQLiteStorage.recover_streams", "rows of a recovered stream"),
        ("lbry.extras.daemon.storage.SQLiteStorage.delete_blobs_from_db", "row deletion"),
        ("lbry.blob.blob_file.is_valid_blobhash", "what a blob file name looks like"),
        ("lbry.blob.blob_file.AbstractBlob.get_is_verified", "verified status"),
        ("lbry.extras.daemon.storage.SQLiteStorage.get_all_blob_hashes", "row listing"),
        ("lbry.blob.blob_file.BlobFile.is_writeable", "writable only without file"),
        ("lbry.blob.blob_file.BlobFile.delete", "file removal"),
        ("lbry.blob.blob_file.BlobFile.file_exists", "file presence"),
    ],
    "C19": [
        ("lbry.conf.Setting.is_set", "whether a setting is set"),
        ("lbry.extras.daemon.storage.SQLiteStorage.get_stored_blobs", "candidates of a pass"),
        ("lbry.extras.daemon.storage.SQLiteStorage.add_blobs", "blob rows incl. is_mine"),
        ("lbry.extras.daemon.storage.SQLiteStorage.update_blob_ownership", "is_mine update"),
        ("lbry.blob.disk_space_manager.DiskSpaceManager.get_free_space_mb", "free space per class"),
        ("lbry.blob.disk_space_manager.DiskSpaceManager.cleaning_loop", "periodic cleanup"),
        ("lbry.extras.daemon.storage.SQLiteStorage.store_stream", "rows of a published / downloaded stream"),
    ],
    "C20": [
        ("module:lbry.wallet.constants[COIN,CENT]", "COIN = 10**8"),
        ("lbry.wallet.dewies.dict_values_to_lbc", "dict formatting"),
    ],
}


def rows_for(pid, _seen=None):
    """the property's own rows plus those of the properties it builds on (`@Cxx` rows)"""
    seen = _seen if _seen is not None else set()
    out = []
    for unit, why in PRIMITIVES.get(pid, []):
        if unit.startswith("@"):
            if unit[1:] not in seen:
                seen.add(unit[1:])
                out += [(u, f"{w} [{why}]") for u, w in rows_for(unit[1:], seen)]
        elif unit not in {u for u, _ in out}:
            out.append((unit, why))
    return out


class _Norm(ast.NodeTransformer):
    def __init__(self, mapping):
        self.m = mapping

    def visit_Name(self, n):
        return ast.Name(id=self.m.get(n.id, n.id), ctx=n.ctx)

    def visit_arg(self, n):
        return ast.arg(arg=self.m.get(n.arg, n.arg), annotation=None, type_comment=None)

    def visit_AnnAssign(self, n):
        self.generic_visit(n)
        if n.value is None:
            return None
        return ast.Assign(targets=[n.target], value=n.value)

    def visit_FunctionDef(self, n):
        self.generic_visit(n)
        n.returns = None
        n.name = self.m.get(n.name, n.name)
        n.type_comment = None
        return n

    visit_AsyncFunctionDef = visit_FunctionDef

    def visit_ExceptHandler(self, n):
        self.generic_visit(n)
        if n.name:
            n.name = self.m.get(n.name, n.name)
        return n


def _pure(e):
    return isinstance(e, (ast.Constant, ast.Name)) or (isinstance(e, (ast.Tuple, ast.List)) and all(_pure(x) for x in e.elts))


def _drop_noise(fn):
    """remove statements without any effect: `pass`, bare constants, and stores of a pure value into a name that is never read"""
    for _ in range(8):
        loaded = {n.id for n in ast.walk(fn) if isinstance(n, ast.Name) and isinstance(n.ctx, ast.Load)}
        scoped = {x for n in ast.walk(fn) if isinstance(n, (ast.Global, ast.Nonlocal)) for x in n.names}
        changed = False
        for parent in ast.walk(fn):
            for field in ("body", "orelse", "finalbody"):
                seq = getattr(parent, field, None)
                if not isinstance(seq, list) or not seq or not isinstance(seq[0], ast.stmt):
                    continue
                keep = []
                for st in seq:
                    noise = isinstance(st, ast.Pass) or (isinstance(st, ast.Expr) and isinstance(st.value, ast.Constant)) or \
                        (isinstance(st, ast.Assign) and len(st.targets) == 1 and isinstance(st.targets[0], ast.Name) and st.targets[0].id not in loaded
                         and st.targets[0].id not in scoped and _pure(st.value))
                    if not noise:
                        keep.append(st)
                if field == "body" and not keep:
                    keep = [ast.Pass()]
                if [type(x) for x in keep] != [type(x) for x in seq] or len(keep) != len(seq):
                    seq[:] = keep
                    changed = True
        if not changed:
            break
    return fn


_TERMINATORS = (ast.Return, ast.Raise, ast.Continue, ast.Break)
_INVERT = {ast.Eq: ast.NotEq, ast.NotEq: ast.Eq, ast.Is: ast.IsNot, ast.IsNot: ast.Is, ast.In: ast.NotIn, ast.NotIn: ast.In}


def _ends(body):
    """every path through `body` leaves the enclosing block"""
    if not body:
        return False
    last = body[-1]
    if isinstance(last, _TERMINATORS):
        return True
    if isinstance(last, ast.If):
        return _ends(last.body) and _ends(last.orelse)
    return False


class _Simplify(ast.NodeTransformer):
    """behaviour-preserving rewrites towards one normal form: `not a == b` -> `a != b`; integer constant arithmetic folded"""

    def visit_UnaryOp(self, n):
        self.generic_visit(n)
        if isinstance(n.op, ast.Not) and isinstance(n.operand, ast.Compare) and len(n.operand.ops) == 1 and type(n.operand.ops[0]) in _INVERT:
            c = n.operand
            return ast.Compare(left=c.left, ops=[_INVERT[type(c.ops[0])]()], comparators=c.comparators)
        return n

    def visit_BinOp(self, n):
        self.generic_visit(n)
        l, r = n.left, n.right
        if isinstance(l, ast.Constant) and isinstance(r, ast.Constant) and type(l.value) is int and type(r.value) is int:
            try:
                if isinstance(n.op, ast.Add):
                    return ast.Constant(value=l.value + r.value)
                if isinstance(n.op, ast.Sub):
                    return ast.Constant(value=l.value - r.value)
                if isinstance(n.op, ast.Mult):
                    return ast.Constant(value=l.value * r.value)
                if isinstance(n.op, ast.Pow) and 0 <= r.value <= 64 and abs(l.value) <= 2 ** 16:
                    return ast.Constant(value=l.value ** r.value)
                if isinstance(n.op, ast.LShift) and 0 <= r.value <= 512:
                    return ast.Constant(value=l.value << r.value)
            except Exception:
                return n
        return n


def _blocks(fn):
    for parent in ast.walk(fn):
        for field in ("body", "orelse", "finalbody"):
            seq = getattr(parent, field, None)
            if isinstance(seq, list) and seq and isinstance(seq[0], ast.stmt):
                yield parent, field, seq


def _flatten_else(fn):
    """`if c: …; return` + `else: B`  ->  `if c: …; return` ; B      (an else after a branch that always leaves is only indentation)"""
    changed = True
    while changed:
        changed = False
        for _parent, _field, seq in _blocks(fn):
            for i, st in enumerate(seq):
                if isinstance(st, ast.If) and st.orelse and _ends(st.body):
                    tail, st.orelse = st.orelse, []
                    seq[i + 1:i + 1] = tail
                    changed = True
                    break
            if changed:
                break
    return fn


def _has(e, kinds):
    return any(isinstance(x, kinds) for x in ast.walk(e))


def _inline_temps(fn):
    """`v = e` directly followed by the only statement that reads v (once)  ->  that statement with e in place of v.
    Only when it cannot reorder effects: e has no await/yield, and either e makes no call or nothing else in the reader does."""
    for _ in range(16):
        stores, loads = {}, {}
        for n in ast.walk(fn):
            if isinstance(n, ast.Name):
                (stores if isinstance(n.ctx, (ast.Store, ast.Del)) else loads).setdefault(n.id, []).append(n)
            elif isinstance(n, ast.arg):
                stores.setdefault(n.arg, []).append(n)
        scoped = {x for n in ast.walk(fn) if isinstance(n, (ast.Global, ast.Nonlocal)) for x in n.names}
        done = False
        for _parent, _field, seq in _blocks(fn):
            for i in range(len(seq) - 1):
                st, nxt = seq[i], seq[i + 1]
                if not (isinstance(st, ast.Assign) and len(st.targets) == 1 and isinstance(st.targets[0], ast.Name)):
                    continue
                v = st.targets[0].id
                if v in scoped or len(stores.get(v, ())) != 1 or len(loads.get(v, ())) != 1:
                    continue
                use = loads[v][0]
                if isinstance(nxt, (ast.FunctionDef, ast.AsyncFunctionDef, ast.ClassDef, ast.For, ast.AsyncFor, ast.While, ast.With, ast.AsyncWith, ast.Try)):
                    continue
                # the read must be in the header expression(s) of the next statement, not in a nested block or a lambda / comprehension
                heads = [x for f in ("value", "test", "exc", "targets", "target") for x in ([getattr(nxt, f)] if isinstance(getattr(nxt, f, None), ast.AST) else getattr(nxt, f, None) or [])
                         if isinstance(x, ast.AST)]
                where = next((h for h in heads if any(x is use for x in ast.walk(h))), None)
                if where is None or _has(where, (ast.Lambda, ast.ListComp, ast.SetComp, ast.DictComp, ast.GeneratorExp, ast.IfExp, ast.BoolOp)):
                    continue
                if _has(st.value, (ast.Await, ast.Yield, ast.YieldFrom, ast.NamedExpr)):
                    continue
                others_call = sum(1 for h in heads for x in ast.walk(h) if isinstance(x, (ast.Call, ast.Await, ast.Subscript, ast.Attribute)))
                if _has(st.value, (ast.Call, ast.Subscript, ast.Attribute)) and others_call:
                    continue

                class _Sub(ast.NodeTransformer):
                    def visit_Name(self, n, _use=use, _val=st.value):
                        return _val if n is _use else n
                seq[i + 1] = _Sub().visit(nxt)
                del seq[i]
                done = True
                break
            if done:
                break
        if not done:
            break
    return fn


def normal_function(fn):
    """(normal-form text, digest) of a function node"""
    c = clone(fn)
    if c.body and isinstance(c.body[0], ast.Expr) and isinstance(c.body[0].value, ast.Constant) and isinstance(c.body[0].value.value, str):
        c.body = c.body[1:] or [ast.Pass()]
    c = _drop_noise(c)
    c = _Simplify().visit(c)
    c = _flatten_else(c)
    c = _inline_temps(c)
    bound, names = set(alpha.local_names(c)), []

    def dfs(n):                      # tree order, not line order: arms that alpha un-flipped keep their (foreign) line numbers
        nm = n.arg if isinstance(n, ast.arg) else n.id if isinstance(n, ast.Name) else \
            n.name if isinstance(n, (ast.FunctionDef, ast.AsyncFunctionDef, ast.ClassDef, ast.ExceptHandler)) and n is not c else None
        if nm in bound and nm not in names:
            names.append(nm)
        for ch in ast.iter_child_nodes(n):
            dfs(ch)
    dfs(c)
    mapping = {n: f"v{i}" for i, n in enumerate(names)}
    outer = c.name
    c = _Norm(mapping).visit(c)
    c.name = "f"
    c.decorator_list = [ast.Name(id=(ast.unparse(d).split("(")[0].split(".")[-1]), ctx=ast.Load()) for d in fn.decorator_list]
    c = terms._canon(c)
    ast.fix_missing_locations(c)
    txt = ast.unparse(c)
    return txt, hashlib.sha1(ast.dump(c).encode()).hexdigest()


def normal_assignments(body, bases=None):
    """NAME -> normal-form value text of the module- / class-level assignments (every assignment of a name, in order)"""
    rows = {}
    for x in body:
        tg, val = None, None
        if isinstance(x, ast.Assign) and len(x.targets) == 1 and isinstance(x.targets[0], (ast.Name, ast.Tuple)):
            tg, val = ast.unparse(x.targets[0]), x.value
        elif isinstance(x, ast.AnnAssign) and isinstance(x.target, ast.Name) and x.value is not None:
            tg, val = x.target.id, x.value
        if tg is None or tg.startswith("__") or tg in ("log", "logger"):
            continue
        v = ast.unparse(terms._canon(clone(val)))
        rows[tg] = rows[tg] + " ; " + v if tg in rows else v
    if bases is not None:
        rows["<bases>"] = ", ".join(bases)
    txt = "\n".join(f"{k} = {v}" for k, v in sorted(rows.items()))
    return txt, hashlib.sha1(txt.encode()).hexdigest()


def compare(kind, ref_text, cur_text, names=None):
    """-> (ok, diff lines).  Functions: identical normal form.  Assignment sets: every reference NAME still has its reference value (new names are free)."""
    a, b = ref_text.splitlines(), cur_text.splitlines()
    if kind == "function":
        if a == b:
            return True, []
        return False, [f"- {x.strip()}" for x in a if x not in b][:6] + [f"+ {x.strip()}" for x in b if x not in a][:6]
    cur = set(b)
    if names is not None:
        unknown = names - {x.split(" = ")[0] for x in a}
        if unknown:
            from . import AnalysisError
            raise AnalysisError(f"lbsa/frozen.py names {sorted(unknown)} that the reference assignment set does not have")
        a = [x for x in a if x.split(" = ")[0] in names]
    miss = [x for x in a if x not in cur]
    if not miss:
        return True, []
    names = {x.split(" = ")[0] for x in miss}
    return False, [f"- {x}" for x in miss][:6] + [f"+ {x}" for x in b if x.split(" = ")[0] in names][:6]


def expand_units(prog, unit):
    """-> [(unit id, kind, object, names or None)]     `module:M[A,B]` / `class:Q[A,B]` restrict an assignment set to the listed names"""
    names = None
    if unit.endswith("]") and "[" in unit:
        unit, _, rest = unit.partition("[")
        names = {x.strip() for x in rest[:-1].split(",") if x.strip()}
    if unit.startswith("module*:"):
        mn = unit[8:]
        m = prog.module(mn)
        out = [(f"module:{mn}", "module", m, None)]
        for q, f in sorted(prog.functions.items()):
            if f.module is m and "<locals>" not in q and "<lambda>" not in q:
                out.append((q, "function", f, None))
        for q, c in sorted(prog.classes.items()):
            if c.module is m:
                out.append((f"class:{q}", "class", c, None))
        return out
    if unit.startswith("class*:"):
        c = prog.cls(unit[7:])
        out = [(f"class:{c.qualname}", "class", c, None)]
        for q, f in sorted(prog.functions.items()):
            if f.cls is c and "<locals>" not in q:
                out.append((q, "function", f, None))
        return out
    if unit.startswith("module:"):
        return [(unit, "module", prog.module(unit[7:]), names)]
    if unit.startswith("class:"):
        return [(unit, "class", prog.cls(unit[6:]), names)]
    return [(unit, "function", prog.func(unit), None)]


def describe(prog, kind, obj):
    if kind == "function":
        return normal_function(obj.node)
    if kind == "module":
        return normal_assignments(obj.tree.body)
    return normal_assignments(obj.node.body, bases=[ast.unparse(b) for b in obj.node.bases])


_SPECS = None


def specs():
    global _SPECS
    if _SPECS is None:
        try:
            with open(SPEC_PATH) as f:
                _SPECS = json.load(f)
        except (OSError, ValueError):
            _SPECS = {}
    return _SPECS


def check(ctx):
    pid = ctx.pid
    rule = f"{pid}-P/PRIMITIVE"
    ref = specs()
    n = 0
    for unit, why in rows_for(pid):
        try:
            units = expand_units(ctx.prog, unit)
        except Exception as e:       # the unit vanished: that is a finding about the tree, not a checker failure
            ctx.ob(rule, False, "lbry:0", f"primitive `{unit}` exists ({why})", detail=f"{type(e).__name__}: {e}", key=f"{rule}|{unit}|exists")
            continue
        for uid, kind, obj, names in units:
            n += 1
            txt, dg = describe(ctx.prog, kind, obj)
            r = ref.get(uid)
            site = obj.site() if kind == "function" else f"{obj.relpath}:1" if kind == "module" else f"{obj.module.relpath}:{obj.node.lineno}"
            if kind == "function":
                ctx.eng.fa_of(obj)           # counts as analysed (and makes the file part of the consulted set)
            else:
                ctx.prog.consulted.add(obj.relpath if kind == "module" else obj.module.relpath)
            if r is None:
                if unit.startswith(("module*:", "class*:")):
                    continue             # a unit added to a frozen module / class: nothing relies on it yet
                from . import AnalysisError
                raise AnalysisError(f"{rule}: `{uid}` is listed in lbsa/frozen.py but has no reference in lbsa/primitive_specs.json (run tools/gen_primitive_specs.py)")
            ok, diff = (True, []) if r["digest"] == dg else compare(kind, r["text"], txt, names)
            detail = "" if ok else "normal form differs from the reference: " + " ⏎ ".join(diff)
            ctx.ob(rule, ok, site, f"`{uid.split('.')[-1] if kind == 'function' else uid}` still is its reference definition — {why}", detail=detail, key=f"{rule}|{uid}",
                   func=uid if kind == "function" else None)
    # units of frozen modules that disappeared
    for unit, why in rows_for(pid):
        if unit.startswith("module*:"):
            mn = unit[8:]
            try:
                have = {u for u, _k, _o, _n in expand_units(ctx.prog, unit)}
            except Exception:
                continue
            for uid in ref:
                if ref[uid].get("module") == mn and "<locals>" not in uid and uid not in have:
                    ctx.ob(rule, False, "lbry:0", f"primitive `{uid}` exists ({why})", detail="it is in the reference but no longer in the tree", key=f"{rule}|{uid}|exists")
    return n
