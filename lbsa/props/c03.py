"""C03 — transaction funding conserves value, pays a bounded fee and returns change."""
import ast
import inspect
import random as _random

from .. import AnalysisError
from ..astutil import dotted, call_name, unparse, norm_text, walk_local_body, kwarg, is_const
from ..consteval import Evaluator, Unknown
from ..exc import Hierarchy, handler_names
from .. import rules as R
from . import c14

EXPLANATION = (
    "Structural clauses of Transaction.create and the coin selectors. Release on failure: everything that "
    "reserves, signs or awaits inside create lies in the try whose every raising handler first awaits "
    "ledger.release_tx(tx), and reserved outputs become inputs before the next await. Source of inputs: added "
    "inputs come from get_spendable_utxos(deficit, funding_accounts), whose candidates are unspent, unreserved, "
    "non-claim outputs of those accounts (query definition shared with C14). Refusal: InsufficientFundsError is "
    "raised exactly when payment < cost and the selector returned nothing; CoinSelector.select returns [] only for "
    "no candidates or target > available, and every strategy returns elements of its candidate list and only "
    "calls stdlib APIs with a signature the running interpreter accepts. Balancing: cost = base fee + output sum, "
    "payment = effective input sum, payment grows by exactly the effective amounts of the inputs that are added; "
    "the only output added is one change output, under payment > cost and change_amount > DUST with "
    "change_amount = payment − cost − cost_of_change, paid to change_account's change chain; requested outputs are "
    "never modified. Fee primitives: size-fee = size × fee_per_byte, claim outputs pay max(name fee, size fee), "
    "the estimator's effective amount = amount − input fee."
)
EXACTNESS = "Second pass (DESIGN.md §10, exactness / completeness halves) — selection is refused only for the stated shortage tests, the fall-back chain is complete, the accumulating fall-back accumulates from 0 over all candidates, candidates are all outputs of all funding accounts, effective amount = amount − spend fee; exact-match (branch and bound) search tests equal the reference algorithm's."
TECHNIQUE = "static analysis: CLEANUP handler check, guard dominance (exact), def-use dependence of amounts, who-may-write, stdlib signature check; exact fact-set comparison of the tests dominating each effect and refusal (effect / refusal tables), fall-through path queries"
NOT_DECIDED = "that inputs = outputs + fee and the numeric fee bounds hold for concrete amounts (arithmetic over runtime values); 'never fails in any other way' beyond the exception paths analysed"
ASSUMPTIONS = ["fee_per_byte / fee_per_name_char are non-negative ints"]

TX = "lbry.wallet.transaction.Transaction"
OUT = "lbry.wallet.transaction.Output"
CS = "lbry.wallet.coinselection.CoinSelector"


def check(ctx):
    prog = ctx.prog
    ev = Evaluator(prog)
    hier = Hierarchy(prog)
    # D1 + D2 share their rule instances with C14 (same code, same obligations)
    c14.release(ctx, prog, hier)
    c14.invisible(ctx, prog)
    c14.lock_scope(ctx, prog)          # "every added input is an … unreserved output": select+reserve must be atomic
    c14.sqlite_strategy(ctx, prog)     # the sqlite chooser reserves what it returns and deducts the input fee it promises
    for o in ctx.obligations:
        for a, b in (("C14-D4", "C03-D1"), ("C14-D2", "C03-D2"), ("C14-D1", "C03-D2"), ("C14-D3", "C03-D2s")):
            o["rule"] = o["rule"].replace(a, b)
            o["key"] = o["key"].replace(a, b)
    balancing(ctx, prog, ev)
    selection(ctx, prog)
    fees(ctx, prog, ev)


def balancing(ctx, prog, ev):
    cr = ctx.fa(f"{TX}.create")
    q = cr.fi.qualname
    cparams = cr.fi.params()
    # cost / payment definitions
    costd = [s for s in cr.stmts(ast.Assign) if any(dotted(t) == "cost" for t in s.targets)]
    payd = [s for s in cr.stmts(ast.Assign) if any(dotted(t) == "payment" for t in s.targets)]
    ok = len(costd) == 1 and unparse(costd[0].value) == "tx.get_base_fee(ledger) + tx.get_total_output_sum(ledger)"
    ctx.ob("C03-D4/DEP", ok, cr.site(), "cost = base fee + (output amounts + their fees)", detail="" if ok else "; ".join(norm_text(s) for s in costd), func=q)
    ok = len(payd) == 1 and unparse(payd[0].value) == "tx.get_effective_input_sum(ledger)"
    ctx.ob("C03-D4/DEP", ok, cr.site(), "payment = input amounts − the fees to spend them", func=q)
    # funding step
    rs = cr.calls(dotted_name="ledger.get_spendable_utxos")
    ctx.floor("C03-D2/DEP", "get_spendable_utxos call in create", len(rs), 1, site=cr.site(), func=q)
    for c in rs:
        a0 = cr.expanded_text(c.args[0]) if c.args else ""
        ok = a0 == "cost - payment" and len(c.args) >= 2 and dotted(c.args[1]) == "funding_accounts"
        ctx.ob("C03-D2/DEP", ok, cr.site(c), "the deficit (cost − payment) is requested from the funding accounts", detail="" if ok else unparse(c), func=q)
        R.exact_gate(ctx, "C03-D3/GATE", cr, c, "payment < cost", "more inputs are requested exactly when payment < cost", key=f"C03-D3/GATE|{q}|deficit")
        sp = R.names_defined_by(cr, lambda v: v is c)
        if not sp:
            continue
        sp = sp[0]
        ins = [x for x in cr.calls(dotted_name="tx.add_inputs") if x.args and unparse(x.args[0]) == f"(s.txi for s in {sp})"]
        pay = [s for s in cr.stmts(ast.AugAssign) if dotted(s.target) == "payment" and isinstance(s.op, ast.Add)
               and unparse(s.value) == f"sum((s.effective_amount for s in {sp}))"]
        ctx.ob("C03-D2/DEP", len(ins) == 1, cr.site(c), "every selected output becomes an input", func=q)
        ctx.ob("C03-D4/DEP", len(pay) == 1, cr.site(c), "payment grows by exactly the effective amounts of the inputs added", func=q)
        # refusal
        rz = [x for x, k in R.raise_kinds(cr) if k == "InsufficientFundsError"]
        ctx.floor("C03-D3/GATE", "raise InsufficientFundsError", len(rz), 1, site=cr.site(), func=q)
        for x in rz:
            R.exact_gate(ctx, "C03-D3/GATE", cr, x, f"payment < cost and not {sp}",
                         "insufficient funds is reported exactly when a deficit exists and the selector found nothing", key=f"C03-D3/GATE|{q}|refuse")
    allr = [k for x, k in R.raise_kinds(cr) if x.exc is not None and not (isinstance(x.exc, ast.Name))]
    ctx.ob("C03-D3/EXIT", set(allr) <= {"InsufficientFundsError"}, cr.site(), "create itself raises nothing but InsufficientFundsError", detail=str(allr), func=q)
    # change
    outs = [c for c in cr.calls(dotted_name="tx.add_outputs") if cr.lexically_inside(c, lambda a: isinstance(a, (ast.For, ast.While))) is not None]
    ctx.ob("C03-D4/GATE", len(outs) == 1, cr.site(), "the balancing loop adds outputs at exactly one place (the change)", func=q)
    for c in outs:
        R.exact_gate(ctx, "C03-D4/GATE", cr, c, "payment > cost and change_amount > DUST",
                     "change is added exactly when there is a surplus whose change amount exceeds DUST",
                     ignore=["payment < cost", "not payment < cost", "spendables", "not spendables"], key=f"C03-D4/GATE|{q}|change")
        arg = c.args[0] if c.args else None
        ok = isinstance(arg, ast.List) and len(arg.elts) == 1
        ctx.ob("C03-D4/DEP", ok, cr.site(c), "a single change output is added", func=q)
        if ok:
            e = cr.expand(arg.elts[0])
            t = unparse(e)
            okp = isinstance(e, ast.Call) and dotted(e.func) == "Output.pay_pubkey_hash" and len(e.args) == 2
            amt = unparse(e.args[0]) if okp else ""
            ctx.ob("C03-D4/DEP", okp and amt == "payment - cost - cost_of_change".replace("cost_of_change", amt.split(" - ")[-1]) and
                   amt.startswith("payment - cost - "), cr.site(c), "change amount = payment − cost − cost of the change output", detail=amt, func=q)
            dest = unparse(e.args[1]) if okp else ""
            okd = "change_account.change.get_or_create_usable_address()" in dest and "address_to_hash160" in dest
            ctx.ob("C03-D4/DEP", okd, cr.site(c), "change is paid to an address of the change account's change chain", detail="" if okd else dest[:120], func=q)
        brk = [s for s in cr.stmts(ast.If) if unparse(s.test) == "tx._outputs" and any(isinstance(b, ast.Break) for b in s.body)]
        okb = bool(brk) and cr.always_reaches(c, lambda n: n is brk[0].test) is None
        ctx.ob("C03-D4/ORDER", okb, cr.site(c), "after adding change the loop stops (at most one change output)", func=q)
    coc = [s for s in cr.stmts(ast.Assign) if any(dotted(t) == "cost_of_change" for t in s.targets)]
    ok = len(coc) == 1 and unparse(coc[0].value) == "tx.get_base_fee(ledger) + Output.pay_pubkey_hash(COIN, NULL_HASH32).get_fee(ledger)"
    ctx.ob("C03-D4/DEP", ok, cr.site(), "cost_of_change = base fee + fee of one pay-to-pubkey-hash output", func=q)
    bump = [s for s in cr.stmts(ast.AugAssign) if dotted(s.target) == "cost"]
    ok = len(bump) == 1 and isinstance(bump[0].op, ast.Add) and unparse(bump[0].value) == "cost_of_change + 1"
    ctx.ob("C03-D4/DEP", ok, cr.site(), "a retry raises the cost by cost_of_change + 1 only", func=q)
    loops = [s for s in cr.stmts(ast.For) if unparse(s.iter).startswith("range(")]
    ok = bool(loops) and isinstance(loops[0].iter.args[0], ast.Constant) and 1 <= loops[0].iter.args[0].value <= 16
    ctx.ob("C03-D4/DEP", ok, cr.site(), "the balancing loop is bounded by a small constant", func=q)
    try:
        dust = ev.name(prog.module("lbry.wallet.constants"), "DUST")
    except Unknown:
        dust = None
    ctx.ob("C03-D4/CONST", dust == 1000, "lbry/wallet/constants.py:5", "DUST folds to 1000 dewies", detail=str(dust))
    # requested outputs / inputs are not modified
    prm_in, prm_out = cparams[1], cparams[2]
    bad = []
    for n in walk_local_body(cr.node):
        tg = []
        if isinstance(n, ast.Assign):
            tg = n.targets
        elif isinstance(n, (ast.AugAssign, ast.AnnAssign)):
            tg = [n.target]
        for t in tg:
            if isinstance(t, ast.Attribute) and t.attr in ("amount", "script", "_amount") and "change_output" not in unparse(t):
                bad.append(n)
    ctx.ob("C03-D4/WRITERS", not bad, cr.site(bad[0]) if bad else cr.site(), "create never rewrites an amount or script of a requested output", func=q)
    first = [c for c in cr.calls(name="add_outputs") if c.args and dotted(c.args[0]) == prm_out]
    firsti = [c for c in cr.calls(name="add_inputs") if c.args and dotted(c.args[0]) == prm_in]
    ctx.ob("C03-D4/DEP", len(first) == 1 and len(firsti) == 1, cr.site(), "the requested inputs and outputs are added as given", func=q)
    ao = ctx.fa(f"{TX}.add_outputs")
    ok = "self._add(self._outputs, outputs" in unparse(ao.node)
    ctx.ob("C03-D4/DEP", ok, ao.site(), "add_outputs appends to the transaction's outputs", func=ao.fi.qualname)
    ret = [r for r in cr.stmts(ast.Return)]
    ctx.ob("C03-D4/DEP", len(ret) == 1 and dotted(ret[0].value) == "tx", cr.site(), "create returns the transaction it balanced", func=q)


def selection(ctx, prog):
    sl = ctx.fa(f"{CS}.select")
    q = sl.fi.qualname
    txos = sl.fi.params()[1]
    empt = [r for r in sl.stmts(ast.Return) if isinstance(r.value, ast.List) and not r.value.elts]
    ok = len(empt) == 2 and sl.guarded(empt[0], f"not {txos}")[0] and sl.guarded(empt[1], "self.target > available")[0]
    ctx.ob("C03-D3/GATE", ok, sl.site(), "select returns [] only when there are no candidates or the target exceeds what is available", func=q)
    av = [s for s in sl.stmts(ast.Assign) if any(dotted(t) == "available" for t in s.targets)]
    ok = len(av) == 1 and unparse(av[0].value) == f"sum((c.effective_amount for c in {txos}))"
    ctx.ob("C03-D3/DEP", ok, sl.site(), "available = sum of the candidates' effective amounts", func=q)
    disp = [r for r in sl.stmts(ast.Return) if isinstance(r.value, ast.Call) and isinstance(r.value.func, ast.Call) and call_name(r.value.func) == "getattr"]
    ok = len(disp) == 1 and unparse(disp[0].value) == f"getattr(self, {sl.fi.params()[2]} or 'standard')({txos}, available)"
    ctx.ob("C03-D3/DEP", ok, sl.site(), "the chosen strategy (default `standard`) is applied to the candidates", func=q)
    # every strategy returns elements of its candidate list (or the result of another strategy on them)
    cls = prog.cls(CS)
    strategies = [m for m in cls.methods.values() if "strategy" in m.decorators()]
    ctx.floor("C03-D2/DEP", "coin selection strategies", len(strategies), 6, site=sl.site())
    names = {m.name for m in strategies}
    rnd_sig = {}
    for m in strategies:
        fa = ctx.eng.fa_of(m)
        cand = m.params()[1]
        for r in fa.stmts(ast.Return):
            if r.value is None:
                continue
            v = r.value
            ok = _subset_of(fa, v, cand, names, r)
            ctx.ob("C03-D2/DEP", ok, fa.site(r), f"{m.name}: what is returned is drawn from the candidates it was given", detail="" if ok else unparse(v)[:80],
                   func=m.qualname, key=f"C03-D2/DEP|{m.qualname}|subset|{norm_text(r)[:40]}")
        # stdlib API signatures: methods called on self.random (a random.Random)
        for c in fa.calls():
            d = dotted(c.func) or ""
            if d.startswith("self.random.") and d.count(".") == 2:
                meth = getattr(_random.Random, d.split(".")[2], None)
                ok = meth is not None
                detail = ""
                if ok:
                    try:
                        sig = inspect.signature(meth)
                        sig.bind(None, *[0] * len(c.args), **{k.arg: 0 for k in c.keywords if k.arg})
                    except TypeError as e:
                        ok, detail = False, f"random.Random.{d.split('.')[2]}{sig} does not accept this call on the running interpreter: {e}"
                ctx.ob("C03-D3/API", ok, fa.site(c), f"{m.name}: `{unparse(c)[:60]}` matches the stdlib signature (a TypeError here would fail the build "
                       f"with something other than InsufficientFundsError)", detail=detail, func=m.qualname, key=f"C03-D3/API|{m.qualname}|{d}")
    ci = ctx.fa(f"{CS}.__init__")
    ok = any(unparse(s) == "self.random = Random(seed)" for s in ci.stmts(ast.Assign)) and ci.fi.module.imports.get("Random") == "random.Random"
    ctx.ob("C03-D3/API", ok, ci.site(), "self.random is a stdlib random.Random", func=ci.fi.qualname)
    gs = ctx.fa("lbry.wallet.ledger.Ledger.get_spendable_utxos")
    okc = any(unparse(c) == "CoinSelector(amount, fee)" for c in gs.calls(name="CoinSelector"))
    ctx.ob("C03-D3/DEP", okc, gs.site(), "the selector targets the requested amount with the cost of one change output", func=gs.fi.qualname)


def _subset_of(fa, v, cand, strategy_names, ret):
    """is expression v (a return value) built only from elements of list `cand`?"""
    if isinstance(v, ast.List):
        return all(_elem_of(fa, e, cand, ret) for e in v.elts)
    if isinstance(v, ast.IfExp):
        return _subset_of(fa, v.body, cand, strategy_names, ret) and _subset_of(fa, v.orelse, cand, strategy_names, ret)
    if isinstance(v, ast.BoolOp):
        return all(_subset_of(fa, x, cand, strategy_names, ret) for x in v.values)
    if isinstance(v, ast.Call) and dotted(v.func) and dotted(v.func).startswith("self.") and dotted(v.func)[5:] in strategy_names:
        a0 = v.args[0] if v.args else None
        if dotted(a0) == cand:
            return True
        # a filtered copy of the candidates
        if isinstance(a0, ast.Name):
            d = fa.rd.reaching(a0.id, fa.cfg_nodes(ret)[0])
            return len(d) == 1 and isinstance(d[0].value, ast.ListComp) and dotted(d[0].value.generators[0].iter) == cand and \
                dotted(d[0].value.elt) == dotted(d[0].value.generators[0].target)
        return False
    if isinstance(v, ast.ListComp):
        g = v.generators[0]
        it = unparse(g.iter)
        return (dotted(g.iter) == cand and dotted(v.elt) == dotted(g.target)) or \
            (it.startswith("enumerate(") and isinstance(v.elt, ast.Subscript) and dotted(v.elt.value) == cand)
    if isinstance(v, ast.Name):
        ds = fa.rd.reaching(v.id, fa.cfg_nodes(ret)[0])
        if v.id == cand:
            return True
        # a list that only ever receives elements of cand
        apps = [c for c in fa.calls(name="append") if dotted(c.func.value) == v.id]
        loop_ok = all(isinstance(fa.lexically_inside(c, lambda a: isinstance(a, ast.For)), ast.For) and
                      dotted(fa.lexically_inside(c, lambda a: isinstance(a, ast.For)).iter) == cand and
                      dotted(c.args[0]) == dotted(fa.lexically_inside(c, lambda a: isinstance(a, ast.For)).target) for c in apps)
        init_ok = all(isinstance(d.value, ast.List) and not d.value.elts for d in ds if d.value is not None)
        return bool(apps) and loop_ok and init_ok
    return False


def _elem_of(fa, e, cand, ret):
    if isinstance(e, ast.Name):
        # assigned from the loop variable over cand
        for s in fa.stmts(ast.Assign):
            for t in s.targets:
                names = [dotted(x) for x in (t.elts if isinstance(t, ast.Tuple) else [t])]
                if e.id in names:
                    vals = s.value.elts if isinstance(s.value, ast.Tuple) and isinstance(t, ast.Tuple) else [s.value]
                    v = vals[names.index(e.id)] if len(vals) == len(names) else s.value
                    if is_const(v, None):
                        continue
                    loop = fa.lexically_inside(s, lambda a: isinstance(a, ast.For))
                    if not (loop is not None and dotted(loop.iter) == cand and dotted(v) == dotted(loop.target)):
                        return False
        return True
    if isinstance(e, ast.Subscript):
        return dotted(e.value) == cand
    return False


def fees(ctx, prog, ev):
    io = ctx.fa("lbry.wallet.transaction.InputOutput.get_fee")
    r = R.single_return_value(io)
    ctx.ob("C03-D5/DEP", r is not None and unparse(r.value) == "self.size * ledger.fee_per_byte", io.site(), "size fee = serialised size × fee_per_byte", func=io.fi.qualname)
    of = ctx.fa(f"{OUT}.get_fee")
    r = R.single_return_value(of)
    ok = r is not None and unparse(r.value) == "max(name_fee, super().get_fee(ledger))"
    nf = [s for s in of.stmts(ast.Assign) if any(dotted(t) == "name_fee" for t in s.targets) and not is_const(s.value, 0)]
    okn = len(nf) == 1 and unparse(nf[0].value) == "len(self.script.values['claim_name']) * ledger.fee_per_name_char" and of.guarded(nf[0], "self.script.is_claim_name")[0]
    ctx.ob("C03-D5/DEP", ok and okn, of.site(), "an output pays max(name fee for new claims, size fee)", func=of.fi.qualname)
    bf = ctx.fa(f"{TX}.get_base_fee")
    r = R.single_return_value(bf)
    ctx.ob("C03-D5/DEP", r is not None and unparse(r.value) == "self.base_size * ledger.fee_per_byte", bf.site(), "base fee = size without inputs/outputs × fee_per_byte", func=bf.fi.qualname)
    es = ctx.fa(f"{TX}.get_effective_input_sum")
    r = R.single_return_value(es)
    ctx.ob("C03-D5/DEP", r is not None and unparse(r.value) == "sum((txi.amount - txi.get_fee(ledger) for txi in self._inputs))", es.site(),
           "effective input sum = Σ (amount − fee to spend) over all inputs", func=es.fi.qualname)
    ts = ctx.fa(f"{TX}.get_total_output_sum")
    r = R.single_return_value(ts)
    ctx.ob("C03-D5/DEP", r is not None and unparse(r.value) == "sum((txo.amount + txo.get_fee(ledger) for txo in self._outputs))", ts.site(),
           "total output sum = Σ (amount + fee) over all outputs", func=ts.fi.qualname)
    ea = ctx.fa("lbry.wallet.transaction.OutputEffectiveAmountEstimator.__init__")
    t = unparse(ea.node)
    ok = "self.txi = Input.spend(txo)" in t and "self.fee = self.txi.get_fee(ledger)" in t and "self.effective_amount = txo.amount - self.fee" in t
    ctx.ob("C03-D5/DEP", ok, ea.site(), "a candidate's effective amount = amount − fee of the input that would spend it", func=ea.fi.qualname)
    bs = ctx.fa(f"{TX}.base_size")
    r = R.single_return_value(bs)
    ok = r is not None and unparse(r.value) == "self.size - sum((txi.size for txi in self._inputs)) - sum((txo.size for txo in self._outputs))"
    ctx.ob("C03-D5/DEP", ok, bs.site(), "base size = total size − input sizes − output sizes", func=bs.fi.qualname)


_base_check_c03 = check


def check(ctx):            # noqa: F811  (extends the rules above)
    _base_check_c03(ctx)
    selection_complete(ctx, ctx.prog)


def selection_complete(ctx, prog):
    """the selection entry points: a selection is refused (empty) only for the stated shortage tests, the fall-back strategies are all
    consulted, the accumulating fall-back really accumulates, and the candidates are all of the funding accounts' outputs"""
    import ast
    from ..astutil import norm_text, dotted, is_const
    from .. import rules as R
    CS = "lbry.wallet.coinselection.CoinSelector"
    se = ctx.fa(f"{CS}.select")
    tx_, sn = se.fi.params()[1:3]
    R.effect_table(ctx, "C03-D5/SELECT", se, [tx_, "self.target > available"], [
        ("return []", f"not {tx_}", "no candidates: nothing selected", 0),
        (f"available = sum((c.effective_amount for c in {tx_}))", tx_, "the spendable total is the sum of the candidates' effective amounts"),
        ("return []", f"{tx_} and self.target > available", "shortage is declared exactly when the target exceeds that total", 1),
        (f"return getattr(self, {sn} or 'standard')({tx_}, available)", f"{tx_} and not self.target > available", "otherwise the configured strategy (standard by default) selects"),
    ], "selection: ")
    sd = ctx.fa(f"{CS}.standard")
    r = R.single_return_value(sd)
    a1, a2 = sd.fi.params()[1:3]
    ok = r is not None and isinstance(r.value, ast.BoolOp) and isinstance(r.value.op, ast.Or) and \
        [norm_text(v) for v in r.value.values] == [f"self.branch_and_bound({a1}, {a2})", f"self.closest_match({a1}, {a2})", f"self.random_draw({a1}, {a2})"]
    ctx.ob("C03-D5/SELECT", ok, sd.site(), "selection: standard = exact match, else closest single output, else accumulate — the accumulating fall-back is always consulted last", func=sd.fi.qualname,
           key="C03-D5/SELECT|standard-chain")
    pc = ctx.fa(f"{CS}.prefer_confirmed")
    r = R.single_return_value(pc)
    a1, a2 = pc.fi.params()[1:3]
    ok = r is not None and isinstance(r.value, ast.BoolOp) and isinstance(r.value.op, ast.Or) and [norm_text(v) for v in r.value.values] == [f"self.only_confirmed({a1}, {a2})", f"self.standard({a1}, {a2})"]
    ctx.ob("C03-D5/SELECT", ok, pc.site(), "selection: prefer_confirmed falls back to all outputs when the confirmed ones do not suffice", func=pc.fi.qualname, key="C03-D5/SELECT|prefer-chain")
    oc = ctx.fa(f"{CS}.only_confirmed")
    a1 = oc.fi.params()[1]
    R.effect_table(ctx, "C03-D5/SELECT", oc, ["confirmed", "self.target > confirmed_available"], [
        (f"confirmed = [t for t in {a1} if t.txo.tx_ref and t.txo.tx_ref.height > 0]", "", "confirmed = outputs of transactions with a positive height"),
        ("return []", "not confirmed", "no confirmed outputs: nothing selected", 0),
        ("confirmed_available = sum((c.effective_amount for c in confirmed))", "confirmed", "their total"),
        ("return []", "confirmed and self.target > confirmed_available", "shortage exactly when the target exceeds the confirmed total", 1),
        ("return self.standard(confirmed, confirmed_available)", "confirmed and not self.target > confirmed_available", "otherwise the standard selection runs over the confirmed outputs only"),
    ], "selection (only_confirmed): ")
    rd = ctx.fa(f"{CS}.random_draw")
    a1 = rd.fi.params()[1]
    R.effect_table(ctx, "C03-D5/SELECT", rd, ["amount >= target"], [
        ("target = self.target + self.cost_of_change", "", "the accumulating fall-back aims at target + cost of a change output"),
        ("selection = []", "", "starts with nothing selected"),
        ("amount = 0", "", "…and amount 0"),
        ("selection.append(coin)", "", "every visited output is selected"),
        ("amount += coin.effective_amount", "", "…and counted with its effective amount"),
        ("return selection", "amount >= target", "the selection is returned as soon as it reaches the aim"),
        ("return []", "", "only when all outputs together do not reach it is nothing selected"),
    ], "selection (random_draw): ")
    lp = rd.stmts(ast.For)
    ok = len(lp) == 1 and dotted(lp[0].iter) == a1 and dotted(lp[0].target) == "coin" and not lp[0].orelse
    ctx.ob("C03-D5/SELECT", ok, rd.site(), "selection (random_draw): all candidates are visited", func=rd.fi.qualname)
    ge = ctx.fa("lbry.wallet.ledger.Ledger.get_effective_amount_estimators")
    fa_ = ge.fi.params()[1]
    R.effect_table(ctx, "C03-D5/SELECT", ge, [], [
        ("estimators = []", "", "candidates start empty"),
        ("utxos = await account.get_utxos(no_tx=True, no_channel_info=True)", "", "each funding account lists its unspent, unreserved outputs"),
        ("estimators.append(utxo.get_estimator(self))", "", "every such output becomes a candidate"),
        ("return estimators", "", "all candidates are returned"),
    ], "candidates: ")
    ok = any(dotted(f.iter) == fa_ and dotted(f.target) == "account" for f in ge.stmts(ast.For)) and any(dotted(f.iter) == "utxos" and dotted(f.target) == "utxo" for f in ge.stmts(ast.For))
    ctx.ob("C03-D5/SELECT", ok, ge.site(), "candidates: every funding account and every output of it is visited", func=ge.fi.qualname)
    gs = ctx.fa("lbry.wallet.ledger.Ledger.get_spendable_utxos")
    am, fa2 = gs.fi.params()[1:3]
    R.effect_table(ctx, "C03-D5/SELECT", gs, ["self.coin_selection_strategy == 'sqlite'", "spendables"], [
        ("fee = Output.pay_pubkey_hash(COIN, NULL_HASH32).get_fee(self)", "", "the cost of a change output is that of a standard payment output"),
        (f"selector = CoinSelector({am}, fee)", "", "the selector aims at the deficit, with that cost of change"),
        (f"txos = await self.get_effective_amount_estimators({fa2})", "not self.coin_selection_strategy == 'sqlite'", "the in-memory strategies see the funding accounts' candidates"),
        ("spendables = selector.select(txos, self.coin_selection_strategy)", "not self.coin_selection_strategy == 'sqlite'", "…and select with the configured strategy"),
        ("await self.reserve_outputs((s.txo for s in spendables))", "spendables", "whatever was selected is reserved"),
        ("return spendables", "not self.coin_selection_strategy == 'sqlite'", "…and returned"),
        (f"return await self.db.get_spendable_utxos(self, {am} + fee, {fa2}, min_amount=min_amount, fee_per_byte=self.fee_per_byte)", "self.coin_selection_strategy == 'sqlite'",
         "the sqlite strategy selects and reserves inside the database, aiming at deficit + cost of change"),
    ], "funding: ")
    # the database chooser searches amount windows [floor, floor·m), floor ← floor·m: it makes progress only from a positive floor.  A floor of 0 (the ledger
    # passes min(amount // 10, 1), which is 0 for a deficit below 10 dewies) keeps every window empty and a funded wallet is refused
    gr = ctx.fa("lbry.wallet.database.get_and_reserve_spendable_utxos")
    fl = gr.fi.params()[3]
    loops = [w for w in gr.stmts(ast.While) if fl in {x.id for x in ast.walk(w.test) if isinstance(x, ast.Name)}]
    grow = [a for a in gr.stmts(ast.AugAssign) if dotted(a.target) == fl and isinstance(a.op, ast.Mult)] + \
        [a for a in gr.stmts(ast.Assign) if len(a.targets) == 1 and dotted(a.targets[0]) == fl and f"{fl} * " in gr.expanded_text(a.value, keep=(fl,))]
    ctx.floor("C03-D6/PROGRESS", "geometric search loop over the floor", min(len(loops), len(grow)), 1, site=gr.site(), func=gr.fi.qualname)
    for w in loops:
        pos = False
        for a in gr.stmts(ast.Assign):
            if len(a.targets) == 1 and dotted(a.targets[0]) == fl and isinstance(a.value, ast.Call) and call_name(a.value) == "max" and len(a.value.args) == 2:
                others = [x for x in a.value.args if dotted(x) != fl]
                if len(others) == 1 and isinstance(others[0], ast.Constant) and type(others[0].value) is int and others[0].value >= 1 and \
                        any(s_ is a for s_ in gr.fi.node.body) and gr.must_precede(w, lambda n, a=a: n is a) is None:
                    pos = True
        if not pos:
            # or: every caller provably passes a positive floor
            lg = ctx.fa("lbry.wallet.ledger.Ledger.get_spendable_utxos")
            ma = [a for a in lg.stmts(ast.Assign) if len(a.targets) == 1 and dotted(a.targets[0]) == "min_amount"]
            pos = bool(ma) and all(isinstance(a.value, ast.Call) and call_name(a.value) == "max" and any(isinstance(x, ast.Constant) and type(x.value) is int and x.value >= 1 for x in a.value.args)
                                   for a in ma)
        ctx.ob("C03-D6/PROGRESS", pos, gr.site(w), f"the search starts from a positive floor (`{fl} = max({fl}, 1)` before the loop, or callers that clamp): 0 · m = 0 never grows",
               func=gr.fi.qualname, key="C03-D6/PROGRESS|floor-positive", detail="" if pos else "a deficit below 10 dewies reaches the loop with floor 0: every window is [0, 0) and a funded "
               "wallet is refused with InsufficientFundsError")
    oe = ctx.fa("lbry.wallet.transaction.OutputEffectiveAmountEstimator.__init__")
    t = [f"{norm_text(x.target)} = {norm_text(x.value)}" if isinstance(x, ast.AnnAssign) else norm_text(x) for x in oe.stmts((ast.Assign, ast.AnnAssign))]
    ok = "self.txo = txo" in t and "self.txi = Input.spend(txo)" in t and "self.fee = self.txi.get_fee(ledger)" in t and "self.effective_amount = txo.amount - self.fee" in t
    ctx.ob("C03-D5/SELECT", ok, oe.site(), "a candidate's effective amount is its amount minus the fee of the input that spends it", func=oe.fi.qualname, key="C03-D5/SELECT|effective")
    # the exact-match search: its tests are those of the reference algorithm (Bitcoin Core's SelectCoinsBnB).  It is the only strategy that can fund a
    # payment within one change-output cost of the whole balance (the fall-backs aim at target + cost of change), so pruning it too eagerly turns
    # a fundable "send max" into a spurious insufficient-funds refusal
    bb = ctx.fa(f"{CS}.branch_and_bound")
    q = bb.fi.qualname
    tests = [x.test for x in bb.stmts((ast.If, ast.While))]
    want = ["self.tries < MAXIMUM_TRIES",
            "current_value + current_available_value < self.target or current_value > self.target + self.cost_of_change",
            "current_value >= self.target", "new_waste <= best_waste", "backtrack", "current_selection and not current_selection[-1]", "not current_selection",
            "current_selection and not current_selection[-1] and previous_utxo and utxo.effective_amount == previous_utxo.effective_amount and utxo.fee == previous_utxo.fee",
            "best_selection"]
    miss = [w for w in want if not any(R.same_test(t_, w) for t_ in tests)]
    extra = [norm_text(t_) for t_ in tests if not any(R.same_test(t_, w) for w in want)]
    ctx.ob("C03-D5/SELECT", not miss and not extra, bb.site(), "exact-match search: the loop bound, the two pruning tests, the improvement test, the backtracking walk and the skip-equivalent-coin "
           "test (which applies only right after the previous, equal coin was excluded) are the reference algorithm's", detail=f"missing {miss}; unexpected {extra}" if miss or extra else "",
           func=q, key=f"C03-D5/SELECT|{q}|tests")
    R.effect_table(ctx, "C03-D5/SELECT", bb, want, [
        ("current_value = 0", "", "the search starts with nothing selected"),
        ("current_available_value = available", "", "…and everything available"),
        ("best_waste = self.cost_of_change", "", "a solution may overshoot by at most the cost of a change output"),
        ("best_selection = current_selection[:]", "current_value >= self.target", "a better solution is copied"),
        ("current_selection.append(True)", "not backtrack", "the next coin is explored as included first"),
        ("current_value += utxo.effective_amount", "not backtrack", "…and counted"),
        ("current_selection.append(False)", "not backtrack", "a coin equivalent to the one just excluded is skipped"),
        ("return [txos[i] for i, include in enumerate(best_selection) if include]", "best_selection", "the best selection's coins are returned"),
        ("return []", "not best_selection", "no exact match: the next strategy is consulted"),
    ], "exact-match search: ")
