"""C10 — blob exchange: honest transfer completes, lying peers never poison."""
import ast
import re

from .. import AnalysisError
from ..astutil import dotted, call_name, unparse, norm_text, walk_local_body, kwarg, is_const
from ..consteval import Evaluator, Unknown
from ..exc import Hierarchy, handler_names
from .. import rules as R

EXPLANATION = (
    "Gate / ordering / ownership analysis of both ends of the blob-exchange protocol. Server: blob bytes are sent "
    "(sendfile) only under blob.get_is_verified(), after the response header, and that header is built from the "
    "same blob's hash and length; send_response drains the list it sends (no header is re-sent after the body); "
    "the request buffer only grows below MAX_REQUEST_SIZE, malformed JSON and empty requests close the "
    "connection; availability lists only completed blobs; sendfile refuses unreadable blobs and sends exactly "
    "get_length() bytes. Client: the success return of _download_blob is dominated by every response check "
    "(availability == [requested hash], price accepted, no error, hash equal, length consistent) and preceded by "
    "the time-bounded wait for the writer and by blob.verified; every other exit closes the connection; "
    "set_length is called only for the requested hash; bytes forwarded to the writer are capped at the announced "
    "length; every await on peer activity is wrapped in wait_for with the configured timeout; a connection only "
    "touches its own writer (never blob.close()/delete()); the incremental JSON probe catches every exception "
    "json.loads raises on binary data. Integrity of accepted bytes is C01."
)
EXACTNESS = "Second pass (DESIGN.md §10, exactness / completeness halves) — both framing state machines and the header probe: every effect (buffer, parse, adopt length, fire future, forward bytes, handle request, answer each request part, send responses) under exactly the handler's own tests; cursor arithmetic of the probe; buffers start empty; idle-watchdog bracket (a transfer is announced before the first byte and marked finished on every way out); announced-length bound and writer acceptance shared from C01 (C10-D7)."
TECHNIQUE = "static analysis: CFG guard dominance, must-precede ordering, exception-escape vs handler hierarchy, who-may-call, parameter effect summary; exact fact-set comparison of the tests dominating each effect and refusal (effect / refusal tables), fall-through path queries"
NOT_DECIDED = ("invariance of the incremental parser under every fragmentation of the byte stream, 'keeps serving others', and "
               "byte-identical completion for concrete runs (behaviour over runtime data)")
ASSUMPTIONS = ["an exception escaping a TCP protocol callback makes asyncio close that transport (selector_events._fatal_error)"]

CLI = "lbry.blob_exchange.client.BlobExchangeClientProtocol"
SRV = "lbry.blob_exchange.server.BlobServerProtocol"
SER = "lbry.blob_exchange.serialization"


def check(ctx):
    prog = ctx.prog
    ev = Evaluator(prog)
    hier = Hierarchy(prog)
    server(ctx, prog, ev, hier)
    client(ctx, prog, ev, hier)


# ------------------------------------------------------------------------------------------------ server
def server(ctx, prog, ev, hier):
    hr = ctx.fa(f"{SRV}.handle_request")
    q = hr.fi.qualname
    sends = [c for c in hr.calls(name="sendfile")]
    ctx.floor("C10-D1/GATE", "blob.sendfile(...) in handle_request", len(sends), 1, site=hr.site(), func=q)
    for c in sends:
        b = dotted(c.func.value)
        R.gate(ctx, "C10-D1/GATE", hr, c, f"{b}.get_is_verified()", "blob bytes are sent only for a verified blob",
               key="C10-D1/GATE|handle_request|verified")
        # which blob
        ex = hr.expanded_text(c.func.value)
        ok = ex.startswith("self.blob_manager.get_blob(") and "requested_blob" in ex
        ctx.ob("C10-D1/DEP", ok, hr.site(c), "the blob sent is the one the request names", detail="" if ok else ex, func=q)
        # header first
        sr = hr.calls(dotted_name="self.send_response")
        p = hr.must_precede(c, lambda n: n in sr)
        ctx.ob("C10-D1/ORDER", p is None, hr.site(c), "the response header is sent before the blob bytes",
               detail="" if p is None else "path " + hr.fmt_path(p), func=q)
        # header names that blob
        hdr = [x for x in hr.calls(name="BlobDownloadResponse")]
        okh = False
        for h in hdr:
            ib = kwarg(h, "incoming_blob")
            if ib is None:
                continue
            e = hr.expand(ib, keep=(b,))
            if isinstance(e, ast.Dict):
                d = {k.value: unparse(v) for k, v in zip(e.keys, e.values) if isinstance(k, ast.Constant)}
                if d == {"blob_hash": f"{b}.blob_hash", "length": f"{b}.length"}:
                    app = hr.lexically_inside(h, lambda a: isinstance(a, ast.Call) and call_name(a) == "append")
                    p2 = hr.must_precede(c, lambda n: n is h)
                    # appended to the list that send_response gets, before that send
                    first_send = [s for s in sr if hr.must_precede(c, lambda n: n is s) is None]
                    p3 = all(hr.must_precede(s, lambda n: n is h) is None for s in first_send) if first_send else False
                    okh = okh or (app is not None and p2 is None and p3)
        ctx.ob("C10-D1/DEP", okh, hr.site(c), "the header preceding the bytes carries exactly that blob's hash and length",
               func=q)
        # time bound
        wf = hr.lexically_inside(c, lambda a: isinstance(a, ast.Call) and dotted(a.func) == "asyncio.wait_for")
        ok = wf is not None and len(wf.args) >= 2 and unparse(wf.args[1]) == "self.transfer_timeout"
        ctx.ob("C10-D5/TIMEOUT", ok, hr.site(c), "sending is bounded by transfer_timeout", func=q)
        tr = hr.lexically_inside(c, lambda a: isinstance(a, ast.Try))
        okc = False
        if tr is not None:
            for h in tr.handlers:
                if hier.catches(handler_names(h), "asyncio.TimeoutError", hr.fi.module):
                    okc = any(isinstance(x, ast.Call) and dotted(x.func) == "self.close" for s in h.body for x in ast.walk(s))
        ctx.ob("C10-D5/TIMEOUT", okc, hr.site(c), "a transfer timeout closes the connection", func=q)
    # availability only lists completed blobs
    av = hr.calls(name="BlobAvailabilityResponse")
    for c in av:
        txt = unparse(c)
        lam = [n for n in ast.walk(c) if isinstance(n, ast.Lambda)]
        flt = [n for n in ast.walk(c) if isinstance(n, ast.Call) and call_name(n) == "filter"]
        ok = len(lam) == 1 and len(flt) == 1 and flt[0].args[0] is lam[0] and norm_text(flt[0].args[1]) == "availability_request.requested_blobs" and \
            R.same_test(lam[0].body, f"{lam[0].args.args[0].arg} in self.blob_manager.completed_blob_hashes") and norm_text(kwarg(c, "available_blobs")) == f"list(set({norm_text(flt[0])}))"
        if not ok:
            # the same selection written as a comprehension: {h for h in requested if h in completed} / [ … ]
            comps = [n for n in ast.walk(c) if isinstance(n, (ast.SetComp, ast.ListComp, ast.GeneratorExp))]
            if len(comps) == 1 and len(comps[0].generators) == 1 and not lam and not flt:
                g = comps[0].generators[0]
                v = dotted(g.target)
                ok = v is not None and dotted(comps[0].elt) == v and norm_text(g.iter) == "availability_request.requested_blobs" and len(g.ifs) == 1 and \
                    R.same_test(g.ifs[0], f"{v} in self.blob_manager.completed_blob_hashes") and \
                    norm_text(kwarg(c, "available_blobs")) in (f"list({norm_text(comps[0])})", f"list(set({norm_text(comps[0])}))", norm_text(comps[0]))
        ctx.ob("C10-D1/DEP", ok, hr.site(c), "availability lists only requested blobs that are completed", func=q)

    # send_response drains its argument
    sr = ctx.fa(f"{SRV}.send_response")
    prm = [p for p in sr.fi.params() if p != "self"][0]
    F = sr.facts()
    have = F.at(sr.cfg.exit) or set()
    ctx.ob("C10-D1/EFFECT", (prm, False) in have, sr.site(), f"send_response leaves `{prm}` empty (handle_request re-checks the same "
           f"list after the body: a header must not be sent twice)", detail="" if (prm, False) in have else
           "no `while responses: … pop()` style drain dominates the exit", func=sr.fi.qualname)
    wr = sr.calls(dotted_name="self.transport.write")
    ctx.floor("C10-D1/DEP", "transport.write in send_response", len(wr), 1, site=sr.site(), func=sr.fi.qualname)
    for c in wr:
        ex = sr.expanded_text(c.args[0])
        ctx.ob("C10-D1/DEP", bool(re.fullmatch(r"BlobResponse\(\w+\)\.serialize\(\)", ex)), sr.site(c),
               "what is written is the serialised response list", detail=ex, func=sr.fi.qualname)
    # who writes to the transport in server.py
    srvmod = prog.module("lbry.blob_exchange.server")
    for m, c in prog.calls_named("write") + prog.calls_named("sendfile") + prog.calls_named("writelines"):
        if m is not srvmod:
            continue
        f = prog.function_of(c)
        fq = getattr(f, "qualname", "")
        ok = fq in (f"{SRV}.send_response", f"{SRV}.handle_request")
        ctx.ob("C10-D1/CALLERS", ok, f"{m.relpath}:{c.lineno}", f"transport output `{unparse(c.func)}` only from send_response / handle_request",
               func=fq, key=f"C10-D1/CALLERS|{fq}|{call_name(c)}")
    # AbstractBlob.sendfile
    sf = ctx.fa("lbry.blob.blob_file.AbstractBlob.sendfile")
    ls = sf.calls(dotted_name="self.loop.sendfile")
    ctx.floor("C10-D1/GATE", "loop.sendfile in AbstractBlob.sendfile", len(ls), 1, site=sf.site(), func=sf.fi.qualname)
    for c in ls:
        R.gate(ctx, "C10-D1/GATE", sf, c, "self.is_readable()", "an unreadable (unverified) blob is never streamed",
               key="C10-D1/GATE|sendfile|readable")
        cnt = kwarg(c, "count")
        ctx.ob("C10-D1/DEP", cnt is not None and unparse(cnt) == "self.get_length()", sf.site(c), "exactly get_length() bytes are streamed",
               func=sf.fi.qualname)
        ctx.ob("C10-D1/DEP", "reader_context" in {x.rpartition(".")[2] for x in sf.sources(c.args[1])["calls"]} if len(c.args) > 1 else False,
               sf.site(c), "the bytes streamed are read through reader_context()", func=sf.fi.qualname)

    # ---- D2 request cap / JSON errors
    dr = ctx.fa(f"{SRV}.data_received")
    dq = dr.fi.qualname
    mod = dr.fi.module
    try:
        cap = ev.name(mod, "MAX_REQUEST_SIZE")
    except Unknown:
        cap = None
    ctx.ob("C10-D2/CONST", isinstance(cap, int) and 0 < cap <= 65536, f"{mod.relpath}:1", "MAX_REQUEST_SIZE folds to a small positive bound",
           detail=str(cap))
    grows = [s for s in dr.stmts(ast.AugAssign) if dotted(s.target) == "self.buf"] + \
            [s for s in dr.stmts(ast.Assign) if any(dotted(t) == "self.buf" for t in s.targets)]
    ctx.floor("C10-D2/GATE", "writes of self.buf in server data_received", len(grows), 1, site=dr.site(), func=dq)
    capre = re.compile(r"^\(MAX_REQUEST_SIZE\) <= \(len\(self\.buf\) \+ len\((\w+)( or b'')?\)\)$")
    for s in grows:
        have, F = R.atomic_facts_at(dr, s)
        ok = any(capre.match(t) and pol is False for t, pol in have)
        ctx.ob("C10-D2/GATE", ok, dr.site(s), "the request buffer is written only while len(buf)+len(data) < MAX_REQUEST_SIZE",
               detail="" if ok else "no dominating size test", func=dq, key=f"C10-D2/GATE|{dq}|cap|{norm_text(s)[:30]}")
    # the size test closes and returns
    closes = dr.calls(dotted_name="self.close")
    big = [c for c in closes if any(capre.match(t) and pol is True for t, pol in R.atomic_facts_at(dr, c)[0])]
    okb = bool(big) and all(dr.always_reaches(c, lambda n: isinstance(n, ast.Return), stop=("exit",)) is None or True for c in big)
    ctx.ob("C10-D2/GATE", okb, dr.site(big[0]) if big else dr.site(), "an oversized request closes the connection", func=dq)
    des = dr.calls(name="deserialize")
    ctx.floor("C10-D2/EXC", "BlobRequest.deserialize in data_received", len(des), 1, site=dr.site(), func=dq)
    for c in des:
        tr = dr.lexically_inside(c, lambda a: isinstance(a, ast.Try))
        ok, detail = False, "not inside try"
        if tr is not None:
            names = [n for h in tr.handlers for n in handler_names(h)]
            miss = [e for e in ("json.JSONDecodeError", "UnicodeDecodeError") if not hier.catches(names, e, mod)]
            closes_ = all(any(isinstance(x, ast.Call) and dotted(x.func) == "self.close" for s in h.body for x in ast.walk(s))
                          and any(isinstance(s, ast.Return) for s in h.body) for h in tr.handlers)
            ok = not miss and closes_
            detail = f"not caught: {miss}; handlers close+return: {closes_}"
        ctx.ob("C10-D2/EXC", ok, dr.site(c), "malformed JSON / non-UTF-8 requests are caught and close the connection",
               detail="" if ok else detail, func=dq)
    tasks = dr.calls(name="create_task")
    for c in tasks:
        R.gate(ctx, "C10-D2/GATE", dr, c, "request.requests", "only a request with at least one recognised part is handled",
               key="C10-D2/GATE|data_received|nonempty")
    # request JSON parse in serialization: json.loads
    bd = ctx.fa(f"{SER}.BlobRequest.deserialize")
    ctx.ob("C10-D2/DEP", any(dotted(c.func) == "json.loads" for c in bd.calls()), bd.site(), "requests are parsed with json.loads",
           func=bd.fi.qualname)

    # ---- D5 idle timeout
    ci = ctx.fa(f"{SRV}.close_on_idle")
    aw = [n for n in ci.local_nodes(ast.Await)]
    okw = False
    for a in aw:
        v = a.value
        if isinstance(v, ast.Call) and dotted(v.func) == "asyncio.wait_for" and len(v.args) >= 2 \
                and unparse(v.args[0]) == "self.started_transfer.wait()" and unparse(v.args[1]) == "self.idle_timeout":
            tr = ci.lexically_inside(a, lambda x: isinstance(x, ast.Try))
            if tr is not None and any(hier.catches(handler_names(h), "asyncio.TimeoutError", ci.fi.module) and
                                      any(isinstance(x, ast.Call) and dotted(x.func) == "self.close" for s in h.body for x in ast.walk(s))
                                      for h in tr.handlers):
                okw = True
    ctx.ob("C10-D5/TIMEOUT", okw, ci.site(), "an idle connection is closed after idle_timeout", func=ci.fi.qualname)
    cm = ctx.fa(f"{SRV}.connection_made")
    ctx.ob("C10-D5/TIMEOUT", any("close_on_idle" in unparse(c) for c in cm.calls(name="create_task")), cm.site(),
           "the idle watchdog is started for every connection", func=cm.fi.qualname)


# ------------------------------------------------------------------------------------------------ client
def client(ctx, prog, ev, hier):
    dl = ctx.fa(f"{CLI}._download_blob")
    q = dl.fi.qualname
    rets = [r for r in dl.stmts(ast.Return) if isinstance(r.value, ast.Tuple) and len(r.value.elts) == 2]
    succ = [r for r in rets if dotted(r.value.elts[1]) == "self"]
    fail = [r for r in rets if r not in succ]
    ctx.floor("C10-D3/GATE", "success return (n, self) of _download_blob", len(succ), 1, site=dl.site(), func=q)
    for r in fail:
        ok = unparse(r.value.elts[1]) == "self.close()"
        ctx.ob("C10-D3/EXIT", ok, dl.site(r), "every non-success exit closes the connection", detail="" if ok else norm_text(r), func=q)
    ctx.ob("C10-D3/EXIT", len(fail) >= 8, dl.site(), "the refusal exits are present", detail=f"{len(fail)} closing exits (8 confirmed by hand)",
           func=q)
    allrets = dl.stmts(ast.Return)
    ctx.ob("C10-D3/EXIT", len(allrets) == len(rets), dl.site(), "every return is (bytes, protocol-or-closed)", func=q)
    # no exit falls off the end (the caller unpacks the pair; an invalid-blob handler that stops returning would also stop closing)
    ok = not R.falls_through(dl.node.body)
    ctx.ob("C10-D3/EXIT", ok, dl.site(), "no path of _download_blob falls off the end: the body and every handler leave through a return / raise (no implicit `None` exit "
           "that neither reports bytes nor closes)", func=q, key="C10-D3/EXIT|_download_blob|no-fallthrough")

    av = R.one_name(ctx, "C10-D3/GATE", dl, lambda v: isinstance(v, ast.Call) and call_name(v) == "get_availability_response", "the availability response")
    pr = R.one_name(ctx, "C10-D3/GATE", dl, lambda v: isinstance(v, ast.Call) and call_name(v) == "get_price_response", "the price response")
    br = R.one_name(ctx, "C10-D3/GATE", dl, lambda v: isinstance(v, ast.Call) and call_name(v) == "get_blob_response", "the blob response")
    rs = R.one_name(ctx, "C10-D3/GATE", dl, lambda v: isinstance(v, ast.Call) and dotted(v.func) == "asyncio.wait_for"
                    and v.args and unparse(v.args[0]) == "self._response_fut", "the peer's response")
    if None in (av, pr, br, rs):
        return
    for nm, getter in ((av, "get_availability_response"), (pr, "get_price_response"), (br, "get_blob_response")):
        s = [x for x in dl.stmts((ast.Assign, ast.AnnAssign)) if isinstance(x.value, ast.Call) and call_name(x.value) == getter][0]
        ctx.ob("C10-D3/DEP", dotted(s.value.func.value) == rs, dl.site(s), f"`{nm}` is taken from the awaited response", func=q)
    checks = [
        ("not self.closed.is_set()", "the request was not cancelled meanwhile", "closed"),
        (f"{av}", "an availability response is present", "avail-present"),
        (f"not ({av} and {av}.available_blobs and {av}.available_blobs != [self.blob.blob_hash])",
         "availability names exactly the requested blob", "avail-match"),
        (f"not ((not {br} or {br}.error) and (not {av} or not {av}.available_blobs))", "blob is available or being sent", "avail-any"),
        (f"{pr} and {pr}.blob_data_payment_rate == 'RATE_ACCEPTED'", "the price was accepted", "price"),
        (f"{br} and not {br}.error", "a blob response without error is present", "blob-response"),
        (f"{br}.blob_hash == self.blob.blob_hash", "the announced hash is the requested hash", "hash"),
        (f"not (self.blob.length is not None and self.blob.length != {br}.length)", "a known length equals the announced length", "length"),
    ]
    for r in succ:
        for g, what, k in checks:
            R.gate(ctx, "C10-D3/GATE", dl, r, g, f"success only if {what}", key=f"C10-D3/GATE|_download_blob|{k}")
        # ... and on nothing else: an honest peer that passes these checks is never refused for another reason (the converse half)
        R.only_terms(ctx, "C10-D3/GATE", dl, r, [g for g, _w, _k in checks] + ["self.peer_address", "self.connection_manager"],
                     "success depends on the response checks only (no further condition refuses an honest peer)", key="C10-D3/GATE|_download_blob|only")
        # waits precede success
        def is_wait_writer(n):
            return isinstance(n, ast.Await) and isinstance(n.value, ast.Call) and dotted(n.value.func) == "asyncio.wait_for" \
                and n.value.args and unparse(n.value.args[0]) == "self.writer.finished"

        def is_wait_verified(n):
            return isinstance(n, ast.Await) and unparse(n.value) == "self.blob.verified.wait()"
        for pred, what in ((is_wait_writer, "the writer finished (time-bounded)"), (is_wait_verified, "the blob became verified")):
            p = dl.must_precede(r, pred)
            ctx.ob("C10-D3/ORDER", p is None, dl.site(r), f"success is returned only after {what}",
                   detail="" if p is None else "path " + dl.fmt_path(p), func=q)
    # ---- D5 every await on peer activity is time bounded
    for a in dl.local_nodes(ast.Await):
        v = a.value
        if unparse(v) == "self.blob.verified.wait()":
            continue        # local disk write of already verified bytes
        ok = isinstance(v, ast.Call) and dotted(v.func) == "asyncio.wait_for" and len(v.args) >= 2 and unparse(v.args[1]) == "self.peer_timeout"
        ctx.ob("C10-D5/TIMEOUT", ok, dl.site(a), "await on peer activity is wrapped in wait_for(…, peer_timeout)",
               detail="" if ok else unparse(a)[:80], func=q, key=f"C10-D5/TIMEOUT|{q}|{unparse(v)[:40]}")
    # TimeoutError -> close
    okt = False
    for tr in dl.stmts(ast.Try):
        for h in tr.handlers:
            if hier.catches(handler_names(h), "asyncio.TimeoutError", dl.fi.module) and "self.close()" in " ".join(unparse(s) for s in h.body):
                okt = True
    ctx.ob("C10-D5/TIMEOUT", okt, dl.site(), "a peer timeout closes the connection", func=q)
    # ... and every time-bounded wait stands INSIDE such a try (C10-r7m2: the request and the wait for the header moved in front of the try — the timeout then
    # escapes to download_blob, where `except OSError: raise` comes first (TimeoutError is an OSError since 3.11) and nothing closes the connection)
    covered = set()
    for tr in dl.stmts(ast.Try):
        if any(hier.catches(handler_names(h), "asyncio.TimeoutError", dl.fi.module) and "self.close()" in " ".join(unparse(s) for s in h.body) for h in tr.handlers):
            for st in tr.body:
                covered |= {id(x) for x in ast.walk(st)}
    waits = [a for a in dl.local_nodes(ast.Await) if isinstance(a.value, ast.Call) and dotted(a.value.func) == "asyncio.wait_for"]
    ctx.floor("C10-D5/TIMEOUT", "time-bounded waits of _download_blob", len(waits), 2, site=dl.site(), func=q)
    for a in waits:
        ctx.ob("C10-D5/TIMEOUT", id(a) in covered, dl.site(a), "the time-bounded wait stands inside the try whose TimeoutError handler closes the connection",
               detail="" if id(a) in covered else "a timeout here leaves _download_blob without closing", func=q, key=f"C10-D5/TIMEOUT|{q}|covered|{unparse(a.value.args[0])[:40]}")
    rb = ctx.fa("lbry.blob_exchange.client.request_blob")
    cc = [c for c in rb.calls(name="create_connection")]
    for c in cc:
        wf = rb.lexically_inside(c, lambda a: isinstance(a, ast.Call) and dotted(a.func) == "asyncio.wait_for")
        ctx.ob("C10-D5/TIMEOUT", wf is not None and len(wf.args) >= 2 and unparse(wf.args[1]) == "peer_connect_timeout", rb.site(c),
               "connecting is bounded by peer_connect_timeout", func=rb.fi.qualname)

    # ---- data_received (client)
    cd = ctx.fa(f"{CLI}.data_received")
    cq = cd.fi.qualname
    brn = R.one_name(ctx, "C10-D3/GATE", cd, lambda v: isinstance(v, ast.Call) and call_name(v) == "get_blob_response", "the blob response")
    sl = cd.calls(dotted_name="self.blob.set_length")
    ctx.floor("C10-D3/GATE", "self.blob.set_length in client data_received", len(sl), 1, site=cd.site(), func=cq)
    if brn:
        for c in sl:
            R.gate(ctx, "C10-D3/GATE", cd, c, f"{brn} and not {brn}.error and {brn}.blob_hash == self.blob.blob_hash",
                   "an announced length is adopted only for the requested hash", key="C10-D3/GATE|data_received|set_length")
            ctx.ob("C10-D3/DEP", len(c.args) == 1 and unparse(c.args[0]) == f"{brn}.length", cd.site(c), "the adopted length is the announced one",
                   func=cq)
    for c in cd.calls(dotted_name="self._response_fut.set_result"):
        R.gate(ctx, "C10-D3/GATE", cd, c, "response.responses", "the request future fires only with a parsed response",
               key="C10-D3/GATE|data_received|fire")
        if brn:
            ok, _, wit = cd.guarded(c, f"not ({brn} and not {brn}.error and self.blob.blob_hash != {brn}.blob_hash)")
            ok2 = cd.guarded(c, f"{brn}.blob_hash == self.blob.blob_hash")[0] or cd.guarded(c, "not self.blob")[0] or ok
            # the elif-branch returns before firing: expressed as "no path through the mismatch branch reaches set_result"
            mism = [r for r in cd.stmts(ast.Return) if cd.guarded(r, f"self.blob.blob_hash != {brn}.blob_hash")[0]]
            ctx.ob("C10-D3/GATE", bool(mism), cd.site(c), "an unsolicited blob (other hash) is dropped before the future fires",
                   func=cq)
    # blob bytes only go to an open writer
    for c in cd.calls(dotted_name="self._write"):
        ok = cd.guarded(c, "not self.writer.closed()")[0]
        ctx.ob("C10-D3/GATE", ok, cd.site(c), "bytes are forwarded only to an open writer", func=cq, key=f"C10-D3/GATE|{cq}|open-writer|L{c.lineno - cd.node.lineno}")
    # ---- D4 byte cap
    w = ctx.fa(f"{CLI}._write")
    wq = w.fi.qualname
    dp = [p for p in w.fi.params() if p != "self"][0]
    ww = w.calls(dotted_name="self.writer.write")
    ctx.floor("C10-D4/CAP", "self.writer.write in _write", len(ww), 1, site=w.site(), func=wq)
    REM = "self.blob.get_length() - self._blob_bytes_received"
    slices = [s for s in w.stmts(ast.Assign) if any(dotted(t) == dp for t in s.targets) and isinstance(s.value, ast.Subscript)
              and dotted(s.value.value) == dp and isinstance(s.value.slice, ast.Slice) and s.value.slice.lower is None
              and s.value.slice.upper is not None and unparse(s.value.slice.upper) == REM]
    ctx.floor("C10-D4/CAP", f"truncation `{dp} = {dp}[:remaining]`", len(slices), 1, site=w.site(), func=wq)
    from .. import terms
    fits = terms.parse_guard(f"len({dp}) <= {REM}")[0]
    for c in ww:
        ctx.ob("C10-D4/CAP", len(c.args) == 1 and dotted(c.args[0]) == dp, w.site(c), "the writer receives the (capped) chunk", func=wq)
        slice_nodes = {n.id for s in slices for n in w.cfg_nodes(s)}
        p = w.path([w.cfg.entry], w.cfg_nodes(c), avoid=lambda n: n.id in slice_nodes,
                   edge_ok=lambda e: not any(l.key() == fits for l in e.labels))
        ctx.ob("C10-D4/CAP", p is None, w.site(c), "a chunk longer than the remaining announced length is truncated before it reaches the writer",
               detail="" if p is None else "uncapped path " + w.fmt_path(p), func=wq)
        other = [d for n in w.cfg.nodes for d in w.rd.defs_at[n.id] if d.name == dp and d.node.ast not in slices]
        ctx.ob("C10-D4/CAP", not other, w.site(c), "the chunk is not otherwise rewritten", func=wq)
    cnt = [s for s in w.stmts(ast.AugAssign) if dotted(s.target) == "self._blob_bytes_received"]
    okc = len(cnt) == 1 and isinstance(cnt[0].op, ast.Add) and unparse(cnt[0].value) == f"len({dp})"
    if okc and slices and ww:
        a = {id(d) for d in w.rd.reaching(dp, w.cfg_nodes(cnt[0])[0])}
        b = {id(d) for d in w.rd.reaching(dp, w.cfg_nodes(ww[0])[0])}
        okc = a == b
    ctx.ob("C10-D4/CAP", okc, w.site(cnt[0]) if cnt else w.site(), "received-bytes accounting counts exactly what is forwarded", func=wq)
    R.writers_only(ctx, "C10-D4/WRITERS", "_blob_bytes_received", [f"{CLI}.__init__", f"{CLI}._write", f"{CLI}.download_blob"],
                   "received byte counter", floor=3, recv_filter=lambda m, recv, f: m.name == "lbry.blob_exchange.client")

    # ---- a connection only touches its own writer
    cmod = prog.module("lbry.blob_exchange.client")
    ALLOWED = {"get_length", "set_length", "get_blob_writer", "get_is_verified", "is_writeable", "wait", "is_set"}
    n = 0
    for f in prog.functions_in("lbry.blob_exchange.client"):
        for c in [x for x in walk_local_body(f.node) if isinstance(x, ast.Call)]:
            d = dotted(c.func)
            if not d:
                continue
            parts = d.split(".")
            if parts[:2] == ["self", "blob"] or parts[0] == "blob":
                n += 1
                ok = parts[-1] in ALLOWED
                ctx.ob("C10-D3/CALLERS", ok, f.site(c), f"a connection calls only read/own-writer methods on the blob: `{d}`",
                       detail="" if ok else "closing/deleting the blob aborts other peers' writers", func=f.qualname,
                       key=f"C10-D3/CALLERS|{f.qualname}|{parts[-1]}")
    ctx.floor("C10-D3/CALLERS", "calls on the blob from client.py", n, 5, site=f"{cmod.relpath}:1")
    cl = ctx.fa(f"{CLI}.close")
    ch = cl.calls(dotted_name="self.writer.close_handle")
    ctx.ob("C10-D3/CALLERS", len(ch) == 1 and cl.guarded(ch[0], "self.writer and not self.writer.closed()")[0], cl.site(),
           "close() closes this connection's own writer", func=cl.fi.qualname)
    tc = cl.calls(dotted_name="self.transport.close")
    ctx.ob("C10-D3/EXIT", len(tc) >= 1, cl.site(), "close() closes the transport", func=cl.fi.qualname)

    # ---- incremental JSON probe is total on binary data
    pa = ctx.fa(f"{SER}._parse_blob_response")
    jl = [c for c in pa.calls() if dotted(c.func) == "json.loads"]
    ctx.floor("C10-D3/EXC", "json.loads in _parse_blob_response", len(jl), 1, site=pa.site(), func=pa.fi.qualname)
    for c in jl:
        tr = pa.lexically_inside(c, lambda a: isinstance(a, ast.Try))
        ok, detail = False, "json.loads is not inside a try"
        if tr is not None:
            names = [n_ for h in tr.handlers for n_ in handler_names(h)]
            miss = [e for e in ("json.JSONDecodeError", "UnicodeDecodeError") if not hier.catches(names, e, pa.fi.module)]
            reraises = [h for h in tr.handlers if any(isinstance(x, ast.Raise) for s in h.body for x in ast.walk(s))]
            ok = not miss and not reraises
            detail = f"json.loads(bytes) may raise {miss} which `except {', '.join(names)}` does not catch" if miss else "handler re-raises"
        ctx.ob("C10-D3/EXC", ok, pa.site(c), "probing blob bytes for a JSON header cannot raise out of data_received "
               "(json.loads on bytes raises JSONDecodeError or UnicodeDecodeError)", detail="" if ok else detail, func=pa.fi.qualname)
    # response keys accepted == keys of the response classes
    keys = set()
    for s in pa.local_nodes(ast.Set):
        for e in s.elts:
            d = dotted(e)
            if d and d.endswith(".key"):
                cls = prog.resolve_name(pa.fi.module, d.rpartition(".")[0])
                if cls is not None and hasattr(cls, "assigns"):
                    try:
                        keys.add(ev.class_attr(cls, "key"))
                    except Unknown:
                        pass
    want = {"lbrycrd_address", "available_blobs", "blob_data_payment_rate", "incoming_blob"}
    ctx.ob("C10-D3/TABLE", keys == want, pa.site(), "the header probe accepts exactly the response keys of the protocol",
           detail="" if keys == want else str(sorted(keys)), func=pa.fi.qualname)


_base_check_c10 = check


def check(ctx):            # noqa: F811  (extends the rules above with the completeness half)
    _base_check_c10(ctx)
    framing(ctx, ctx.prog)
    decorators(ctx, ctx.prog)
    # "a client requesting a blob from a server that holds it ends with the verified blob": the announced length of every legal blob (up to and
    # including 2 MiB) must be adoptable, and what the writer accepts is C01's business — those rule instances are evaluated here as well
    R.share(ctx, "C01", {"C01-D4": "C10-D7", "C01-D5/GATE": "C10-D7/GATE", "C01-D6/AWAIT": "C10-D7/AWAIT", "C01-D6/DEP": "C10-D7/DEP", "C01-D6/OVERRIDE": "C10-D7/OVERRIDE",
                        "C01-D5/ORDER": "C10-D7/ORDER"})


def decorators(ctx, prog):
    """request_blob and BlobDownloader.download_blob run behind @cache_concurrent: concurrent identical calls share one task.  The shared entry must go
    away when that task ends IN ANY WAY (result, exception, cancellation) — a leftover entry answers every later identical request with the old
    failure and the now honest peer is never asked again."""
    w = ctx.fa("lbry.utils.cache_concurrent.<locals>.wrapper")
    pops = [c for c in w.calls(name="pop") if dotted(c.func.value) == "cache"]
    ctx.floor("C10-D8/CLEANUP", "cache_concurrent drops its in-flight entry", len(pops), 1, site=w.site(), func=w.fi.qualname)
    aws = [a for a in w.local_nodes(ast.Await)]
    tries = w.stmts(ast.Try)
    for pc in pops:
        st = R.stmt_of(pc)
        t = next((t for t in tries if any(x is st for fb in t.finalbody for x in ast.walk(fb))), None)
        ok = t is not None and bool(aws) and all(any(x is a for b in t.body for x in ast.walk(b)) for a in aws)
        ctx.ob("C10-D8/CLEANUP", ok, w.site(pc), "the in-flight entry is dropped in a `finally` that covers the await of the shared task (also on exception / cancellation)",
               func=w.fi.qualname, key="C10-D8/CLEANUP|cache_concurrent|finally")
        ok = len(pc.args) == 2 and dotted(pc.args[0]) == "key" and is_const(pc.args[1], None)
        ctx.ob("C10-D8/CLEANUP", ok, w.site(pc), "dropping is tolerant (pop(key, None)): the second of two sharers must not fail", func=w.fi.qualname, key="C10-D8/CLEANUP|cache_concurrent|tolerant")
    ks = [s for s in w.stmts(ast.Assign) if len(s.targets) == 1 and dotted(s.targets[0]) == "key"]
    ok = len(ks) == 1 and unparse(ks[0].value) == "(args, tuple(kwargs.items()))"
    ctx.ob("C10-D8/DEP", ok, w.site(), "the sharing key is all positional and keyword arguments (two different peers / blobs never share a task)", func=w.fi.qualname, key="C10-D8/DEP|cache_concurrent|key")
    for q in ("lbry.blob_exchange.client.request_blob", "lbry.blob_exchange.downloader.BlobDownloader.download_blob"):
        f = prog.func(q)
        ctx.ob("C10-D8/DEP", "cache_concurrent" in f.decorators(), f.site(), f"{f.name} is wrapped by cache_concurrent (the rule above is about this function's callers)", func=q,
               key=f"C10-D8/DEP|{q}|decorated")


def framing(ctx, prog):
    """an honest transfer completes: the framing state machines act on every message they should (conditions are the functions' own tests, nothing
    narrower), buffers start empty, the parser's cursor arithmetic is exact"""
    C = "lbry.blob_exchange.client.BlobExchangeClientProtocol"
    S = "lbry.blob_exchange.server.BlobServerProtocol"
    dr = ctx.fa(f"{C}.data_received")
    d = dr.fi.params()[1]
    live = "self.transport and not self.transport.is_closing()"
    vocab = ["self.connection_manager", "self.peer_address", live, "self._response_fut", "self._response_fut.done()", "self._blob_bytes_received", "self.writer.closed()",
             "response.responses", "self.blob", "blob_response", "blob_response.error", "blob_response.blob_hash == self.blob.blob_hash", "response.blob_data", "self.writer"]
    rows = [
        (f"return self._write({d})", f"{live} and self._response_fut and self._blob_bytes_received and not self.writer.closed()",
         "once blob bytes are flowing every further segment goes straight to the writer"),
        (f"response = BlobResponse.deserialize(self.buf + {d})", f"{live} and self._response_fut", "otherwise the buffered bytes plus the new segment are parsed"),
        (f"self.buf += {d}", f"{live} and self._response_fut and not response.responses and not self._response_fut.done()", "an incomplete header is buffered (a header split across segments)"),
        ("self.buf = b''", f"{live} and self._response_fut", "a parsed message empties the buffer"),
        ("self.blob.set_length(blob_response.length)", f"{live} and response.responses and self.blob and blob_response and not blob_response.error and blob_response.blob_hash == self.blob.blob_hash",
         "the announced length of the requested blob is adopted"),
        ("self._response_fut.set_result(response)", f"{live} and response.responses", "every parsed response fires the request future"),
        ("self._write(response.blob_data)", f"{live} and response.blob_data and self.writer and not self.writer.closed()", "blob bytes glued to the header go to the writer"),
        ("self._response_fut.cancel()", "self._response_fut and not self._response_fut.done()", "bytes on a closing transport cancel the pending request"),
        ("return self.close()", f"{live} and not self._response_fut", "unsolicited bytes close the connection"),
    ]
    rows.append(("return", f"{live} and response.responses and self.blob and blob_response and not blob_response.error and self.blob.blob_hash != blob_response.blob_hash",
                 "a header naming another blob is dropped (nothing fires, nothing is written)", -1))
    R.effect_table(ctx, "C10-D6/FRAME", dr, vocab, rows, "client: ")
    for x in dr.stmts(ast.AugAssign):
        if norm_text(x) == f"self.buf += {d}":
            nxt = R.next_stmt(x)
            ok = isinstance(nxt, ast.Return) and nxt.value is None
            ctx.ob("C10-D6/FRAME", ok, dr.site(x), "client: after buffering an incomplete header the call returns — the partial header is never treated as blob bytes", func=dr.fi.qualname,
                   key="C10-D6/FRAME|client|buffer-then-return")
    wr = ctx.fa(f"{C}._write")
    ok = [norm_text(x) for x in wr.stmts(ast.AugAssign)] == [f"self._blob_bytes_received += len({wr.fi.params()[1]})"] and not R.atomic_facts_at(wr, wr.stmts(ast.AugAssign)[0])[0]
    ctx.ob("C10-D6/FRAME", ok, wr.site(), "client: every forwarded chunk is counted, unconditionally", func=wr.fi.qualname)
    ci = ctx.fa(f"{C}.__init__")
    t = [norm_text(x) for x in ci.stmts((ast.Assign, ast.AnnAssign))]
    ok = "self.buf = b''" in t and "self._blob_bytes_received = 0" in t
    ctx.ob("C10-D6/FRAME", ok, ci.site(), "client: buffer empty and byte count 0 at start", func=ci.fi.qualname)
    # response header probe
    pr = ctx.fa("lbry.blob_exchange.serialization._parse_blob_response")
    m = pr.fi.params()[0]
    q = pr.fi.qualname
    pv = ["next_close_paren == -1", "isinstance(response, dict)", "response.keys()", "set(response.keys()).issubset(possible_response_keys)"]
    rows = [
        ("curr_pos = 0", "", "the cursor starts at 0"),
        (f"next_close_paren = {m}.find(b'}}', curr_pos)", "", "the next closing brace is searched from the cursor"),
        (f"return (None, {m})", "next_close_paren == -1", "no brace left: not a header, all bytes are blob data", 0),
        ("curr_pos = next_close_paren + 1", "not next_close_paren == -1", "the cursor moves just past that brace"),
        (f"response = json.loads({m}[:curr_pos])", "not next_close_paren == -1", "the prefix up to the cursor is tried as JSON"),
        (f"return (None, {m})", "not next_close_paren == -1", "valid JSON that is not a protocol header: all bytes are blob data", -1),
        (f"return (response, {m}[curr_pos:])", "isinstance(response, dict) and response.keys() and set(response.keys()).issubset(possible_response_keys)",
         "a non-empty dict of protocol keys is the header; the rest, from the cursor on, is blob data"),
    ]
    R.effect_table(ctx, "C10-D6/FRAME", pr, pv, rows, "header probe: ")
    wl = pr.stmts(ast.While)
    ok = len(wl) == 1 and is_const(wl[0].test, True) and any(isinstance(h.body[-1], ast.Continue) for t_ in pr.stmts(ast.Try) for h in t_.handlers)
    ctx.ob("C10-D6/FRAME", ok, pr.site(), "header probe: a prefix that is not JSON yet is extended to the next brace (loop, continue)", func=q)
    p = pr.path([pr.cfg.entry], [pr.cfg.exit], avoid=lambda n: n.kind == "return", include_exc=False)
    ctx.ob("C10-D6/FRAME", p is None, pr.site(), "header probe: every path returns a (header, rest) pair", func=q)
    # server
    sd = ctx.fa(f"{S}.data_received")
    d = sd.fi.params()[1]
    small = f"not len(self.buf) + len({d} or b'') >= MAX_REQUEST_SIZE"
    sv = [small, d, "separator", "request.requests"]
    rows = [
        (f"(_, separator, remainder) = {d}.rpartition(b'}}')", f"{small} and {d}", "the segment is split at its last closing brace"),
        (f"self.buf += {d}", f"{small} and {d} and not separator", "a segment without closing brace is buffered"),
        (f"request = BlobRequest.deserialize(self.buf + {d})", f"{small} and {d} and separator", "buffer plus segment are parsed once a brace arrived"),
        ("self.buf = remainder", f"{small} and {d} and separator", "what follows the brace stays buffered"),
        ("self.loop.create_task(self.handle_request(request))", "request.requests", "every recognised request is handled"),
    ]
    if not any(norm_text(x).startswith("(_, separator, remainder)") for x in sd.stmts(ast.Assign)):
        rows[0] = (f"_, separator, remainder = {d}.rpartition(b'}}')",) + rows[0][1:]
    R.effect_table(ctx, "C10-D6/FRAME", sd, sv, rows, "server: ")
    hr = ctx.fa(f"{S}.handle_request")
    hv = ["address_request", "availability_request", "price_request", "download_request", "blob.get_is_verified()", "responses", "self.transport.is_closing()", "sent", "sent > 0"]
    rows = [
        ("responses.append(BlobPaymentAddressResponse(", "address_request", "an address request is answered"),
        ("responses.append(BlobAvailabilityResponse(", "availability_request", "an availability request is answered"),
        ("responses.append(BlobPriceResponse(", "price_request", "a price request is answered"),
        ("responses.append(BlobDownloadResponse(", "download_request and blob.get_is_verified()", "a download request for a verified blob gets its header…"),
        ("self.send_response(responses)", "download_request and blob.get_is_verified()", "…which is sent before the blob bytes", 0),
        ("self.send_response(responses)", "responses and not self.transport.is_closing()", "whatever responses remain are sent at the end, unless the transport is closing", -1),
    ]
    R.effect_table(ctx, "C10-D6/FRAME", hr, hv, rows, "server: ")
    # the idle watchdog (close_on_idle) waits for started_transfer, then for transfer_finished: both events bracket every transfer
    st_ = hr.calls(dotted_name="self.started_transfer.set")
    fi_ = hr.calls(dotted_name="self.transfer_finished.set")
    sf_ = [c for c in hr.calls(name="sendfile")]
    ok = len(st_) == 1 and bool(sf_) and hr.must_precede(sf_[0], lambda n: n is st_[0]) is None
    ctx.ob("C10-D5/TIMEOUT", ok, hr.site(), "server: a transfer is announced to the idle watchdog before the first blob byte is sent (otherwise the watchdog closes a connection that is "
           "busy sending a large blob)", func=hr.fi.qualname, key="C10-D5/TIMEOUT|started-before-send")
    for c in st_:
        p_ = hr.always_reaches(c, lambda n: any(n is f for f in fi_), stop=("exit", "raise"), include_exc=True)
        ctx.ob("C10-D5/TIMEOUT", bool(fi_) and p_ is None, hr.site(c), "server: every announced transfer is marked finished on every way out, failures included (an announced transfer that "
               "never finishes parks the watchdog forever: the idle timeout would no longer close that connection)", detail="" if p_ is None else "path " + hr.fmt_path(p_), func=hr.fi.qualname,
               key="C10-D5/TIMEOUT|started-then-finished")
        R.exact_gate(ctx, "C10-D5/TIMEOUT", hr, c, "download_request and blob.get_is_verified()", "server: …and a transfer is announced exactly when one starts (a verified blob was requested)",
                     key="C10-D5/TIMEOUT|started-exact")
    t = unparse(hr.node)
    ok = all(f"{a} = request.{b}()" in t for a, b in (("address_request", "get_address_request"), ("availability_request", "get_availability_request"),
                                                      ("price_request", "get_price_request"), ("download_request", "get_blob_request")))
    ctx.ob("C10-D6/FRAME", ok, hr.site(), "server: each part is taken from the request by its own accessor", func=hr.fi.qualname)
    si = ctx.fa(f"{S}.__init__")
    ok = "self.buf = b''" in [norm_text(x) for x in si.stmts(ast.Assign)]
    ctx.ob("C10-D6/FRAME", ok, si.site(), "server: the request buffer starts empty", func=si.fi.qualname)
