"""C08 — SPV: a transaction is marked verified only with a Merkle proof to its header."""
import ast

from .. import AnalysisError
from ..astutil import dotted, call_name, unparse, norm_text, walk_local_body, kwarg, is_const
from .. import rules as R

EXPLANATION = (
    "Single-writer, gate and dependence analysis of the SPV verdict. Transaction.is_verified is assigned only in "
    "Transaction.__init__ and Ledger.maybe_verify_transaction; constructor call sites that pass a non-literal "
    "is_verified are the database rehydration sites, whose value is the stored tx.is_verified column (itself "
    "written from tx.is_verified). In maybe_verify_transaction the assignment is reachable exactly under "
    "0 < remote_height < len(headers) and 'merkle' in merkle, and its value is the equality of "
    "get_root_of_merkle_tree(merkle['merkle'], merkle['pos'], tx.hash) with the merkle_root of the header fetched "
    "at that very remote_height; a missing proof is requested for (tx.id, remote_height). The fold depends on "
    "every branch element, uses bit i of the position for level i, concatenates sibling‖node when the bit is set "
    "and node‖sibling otherwise, double-SHA256 per level, byte reversal on entry and exit. A reorganisation "
    "(rewind step of update_headers) clears the whole transaction cache, so a cached verdict cannot outlive the "
    "header it was checked against. The legacy claim-trie proof checker returns True only after the root "
    "comparison and every structural refusal."
)
EXACTNESS = "Second pass (DESIGN.md §10) — shared rule instances: checkpointed chunks stored at their own height only if they hash to the checkpoint (C07-D3 as C08-D6/CHECKPOINT) and the transaction hash that is folded up the branch (C05-D3 as C08-D7: double SHA-256 of the witness-free serialisation, cached only while the transaction is unchanged)."
TECHNIQUE = "static analysis: who-may-write, exact guard dominance, def-use dependence of the verdict on all inputs, branch-polarity check of the Merkle fold; exact fact-set comparison of the tests dominating each effect and refusal (effect / refusal tables), fall-through path queries"
NOT_DECIDED = "acceptance of every genuine proof for every tree shape (odd-level duplication is done by the server), SHA-256 itself"
ASSUMPTIONS = ["headers.get(height) returns the locally validated header at that height (C07)"]

L = "lbry.wallet.ledger.Ledger"
TX = "lbry.wallet.transaction.Transaction"


def check(ctx):
    prog = ctx.prog
    writers(ctx, prog)
    verdict(ctx, prog)
    fold(ctx, prog)
    cache(ctx, prog)
    claim_proof(ctx, prog)
    # "the locally validated header at that height": nothing unvalidated may enter the header store (rule instances shared with C07-D1)
    from . import c07
    from ..exc import Hierarchy
    n0 = len(ctx.obligations)
    c07.store(ctx, prog, Hierarchy(prog))
    for o in ctx.obligations[n0:]:
        o["rule"] = o["rule"].replace("C07-D1", "C08-D6")
        o["key"] = o["key"].replace("C07-D1", "C08-D6")
    # …including checkpointed chunks (stored at their own height only if they hash to the checkpoint), and the hash that is folded up the branch
    # must be the transaction's own: double SHA-256 of its witness-free serialisation, cached only while the transaction is unchanged
    R.share(ctx, "C07", {"C07-D3": "C08-D6/CHECKPOINT"})
    R.share(ctx, "C05", {"C05-D3": "C08-D7", "C05-D1": "C08-D7/CODEC"})   # the id of a segwit transaction is a hash of a RE-serialisation: reader and writer both matter


def writers(ctx, prog):
    sites = R.writers_only(ctx, "C08-D1/WRITERS", "is_verified", [f"{TX}.__init__", f"{L}.maybe_verify_transaction"],
                           "verified flag", floor=2, kinds=("assign", "augassign"),
                           recv_filter=lambda m, recv, f: m.name.startswith("lbry.wallet") and not m.name.startswith("lbry.wallet.server"))
    ti = ctx.fa(f"{TX}.__init__")
    s = [x for x in ti.stmts(ast.Assign) if any(dotted(t) == "self.is_verified" for t in x.targets)]
    ok = len(s) == 1 and dotted(s[0].value) == "is_verified"
    d = [a for a, dflt in zip(reversed(ti.node.args.args), reversed(ti.node.args.defaults)) if a.arg == "is_verified" and is_const(dflt, False)]
    ctx.ob("C08-D1/DEP", ok and len(d) == 1, ti.site(), "a new Transaction is unverified unless told otherwise (default False)", func=ti.fi.qualname)
    # constructor sites passing is_verified
    n = 0
    for m, c in prog.calls_named("Transaction"):
        if not m.name.startswith("lbry.") or m.name.startswith(("lbry.wallet.server", "lbry.testcase")):
            continue
        kw = kwarg(c, "is_verified")
        if kw is None:
            continue
        n += 1
        f = prog.function_of(c)
        fa = ctx.eng.fa_of(f)
        t = unparse(kw)
        ok = t in ("bool(row['is_verified'])", "row['is_verified']")
        if not ok and isinstance(kw, ast.Name):
            # a local unpacked from a SELECT whose column at that position is tx.is_verified
            ds = fa.rd.reaching(kw.id, fa.cfg_nodes(c)[0])
            ok = len(ds) == 1 and (ds[0].kind.startswith("unpack") or ds[0].kind == "for") and f.module.name == "lbry.wallet.database"
            if ok:
                # the sqlite chooser keys its result by (raw, height, verified) with `verified` unpacked from the
                # tx.is_verified column (column/unpack agreement is rule C14-D3/TABLE)
                ch = prog.func("lbry.wallet.database._get_spendable_utxos")
                txt = unparse(ch.node)
                ok = f"result[raw, height, {kw.id}]" in txt and "tx.is_verified" in txt and f.qualname == "lbry.wallet.database.Database.get_spendable_utxos"
        ctx.ob("C08-D1/DEP", ok and f.module.name == "lbry.wallet.database", fa.site(c),
               f"`is_verified={t}` is passed only when rehydrating a transaction from its database row", func=f.qualname,
               key=f"C08-D1/DEP|{f.qualname}|ctor|{t}")
    ctx.floor("C08-D1/DEP", "Transaction(... is_verified=…) sites", n, 3)
    # the column is written from tx.is_verified
    for qn in ("lbry.wallet.database.Database.tx_to_row", "lbry.wallet.database.Database.update_transaction"):
        if prog.has_func(qn):
            fa = ctx.fa(qn)
            ok = "'is_verified': tx.is_verified" in unparse(fa.node)
            ctx.ob("C08-D1/DEP", ok, fa.site(), f"{fa.fi.name} stores the transaction's own flag in the is_verified column", func=fa.fi.qualname)


def verdict(ctx, prog):
    fa = ctx.fa(f"{L}.maybe_verify_transaction")
    q = fa.fi.qualname
    _, tx, rh, mk = fa.fi.params()
    asg = [s for s in fa.stmts(ast.Assign) if any(dotted(t) == f"{tx}.is_verified" for t in s.targets)]
    ctx.floor("C08-D2/GATE", "assignment of tx.is_verified", len(asg), 1, site=fa.site(), func=q)
    for s in asg:
        R.exact_gate(ctx, "C08-D2/GATE", fa, s, f"0 < {rh} < len(self.headers) and 'merkle' in {mk}",
                     "a verdict is computed exactly for heights the wallet has a header for and when a proof is present",
                     ignore=[f"{mk}", f"not {mk}"], key=f"C08-D2/GATE|{q}|height-and-proof")
        v = s.value
        ok = isinstance(v, ast.Compare) and len(v.ops) == 1 and isinstance(v.ops[0], ast.Eq)
        ctx.ob("C08-D2/DEP", ok, fa.site(s), "the verdict is an equality test", detail="" if ok else unparse(v), func=q)
        if not ok:
            continue
        sides = [fa.expand(v.left, keep=(mk,)), fa.expand(v.comparators[0], keep=(mk,))]
        texts = [unparse(x) for x in sides]
        want_root = f"self.get_root_of_merkle_tree({mk}['merkle'], {mk}['pos'], {tx}.hash)"
        want_hdr = f"(await self.headers.get({rh}))['merkle_root']"
        ok1 = want_root in texts
        ctx.ob("C08-D2/DEP", ok1, fa.site(s), "one side is the root folded from the supplied branch, the supplied position and this transaction's hash",
               detail="" if ok1 else " == ".join(texts), func=q, key=f"C08-D2/DEP|{q}|root-side")
        ok2 = want_hdr in texts
        ctx.ob("C08-D2/DEP", ok2, fa.site(s), "the other side is the merkle_root of the local header at the height the transaction is recorded at",
               detail="" if ok2 else " == ".join(texts), func=q, key=f"C08-D2/DEP|{q}|header-side")
    # the header compared with is the header the wallet holds NOW: it is read after the last hand-over to the event loop (the proof request can take
    # seconds; a reorganisation that replaces the header meanwhile must be seen)
    for s in asg:
        hd = [x for x in fa.stmts(ast.Assign) if isinstance(x.value, ast.Await) and "self.headers.get(" in unparse(x.value)]
        src = hd[0] if len(hd) == 1 else s
        R.no_await_between(ctx, "C08-D2/FRESH", fa, src, s, "no await between reading the local header and comparing its merkle_root", key=f"C08-D2/FRESH|{q}|header")
    hs = [s for s in fa.stmts(ast.Assign) if any(dotted(t) == f"{tx}.height" for t in s.targets)]
    ctx.ob("C08-D2/DEP", len(hs) == 1 and dotted(hs[0].value) == rh, fa.site(), "the height recorded on the transaction is that same remote_height", func=q)
    redef = [d for n in fa.cfg.nodes for d in fa.rd.defs_at[n.id] if d.name in (rh, tx)]
    ctx.ob("C08-D2/DEP", not redef, fa.site(), "neither the transaction nor the height is re-bound inside", func=q)
    gm = [s for s in fa.stmts(ast.Assign) if any(dotted(t) == mk for t in s.targets)]
    ok = len(gm) == 1 and unparse(gm[0].value) == f"await self.network.retriable_call(self.network.get_merkle, {tx}.id, {rh})" and fa.guarded(gm[0], f"not {mk}")[0]
    ctx.ob("C08-D2/DEP", ok, fa.site(), "a missing proof is requested for this transaction id at this height", func=q)
    sb = ctx.fa(f"{L}._single_batch")
    calls = sb.calls(dotted_name="self.maybe_verify_transaction")
    ok = len(calls) == 1 and [unparse(a) for a in calls[0].args] == ["tx", "remote_height", "merkle"] and \
        "remote_height = remote_heights[txid]" in unparse(sb.node) and "tx = Transaction(unhexlify(raw), height=remote_height)" in unparse(sb.node)
    ctx.ob("C08-D2/DEP", ok, sb.site(), "batch sync verifies each transaction against the proof and height delivered with it", func=sb.fi.qualname)


def fold(ctx, prog):
    fa = ctx.fa(f"{L}.get_root_of_merkle_tree")
    q = fa.fi.qualname
    br, pos, work = fa.fi.params()[-3:]
    loops = fa.stmts(ast.For)
    ok = len(loops) == 1 and unparse(loops[0].iter) == f"enumerate({br})" and isinstance(loops[0].target, ast.Tuple) and len(loops[0].target.elts) == 2
    ctx.ob("C08-D3/DEP", ok, fa.site(), "every element of the branch is folded, in order, with its level index", func=q)
    if not ok:
        return
    i, b = [dotted(e) for e in loops[0].target.elts]
    lp = loops[0]
    sib = R.names_defined_by(fa, lambda v: unparse(v) == f"unhexlify({b})[::-1]")
    ctx.ob("C08-D3/DEP", len(sib) == 1, fa.site(lp), "the sibling hash is the branch element, hex-decoded and byte-reversed", func=q)
    flag = R.names_defined_by(fa, lambda v: unparse(v) in (f"bool({pos} >> {i} & 1)", f"{pos} >> {i} & 1", f"bool(({pos} >> {i}) & 1)"))
    ctx.ob("C08-D3/DEP", len(flag) == 1, fa.site(lp), "the side is bit i of the supplied position for level i", func=q)
    if len(sib) != 1 or len(flag) != 1:
        return
    sib, flag = sib[0], flag[0]
    combos = [s for s in fa.stmts(ast.Assign) if isinstance(s.value, ast.BinOp) and isinstance(s.value.op, ast.Add)
              and {dotted(s.value.left), dotted(s.value.right)} == {sib, work}]
    ctx.ob("C08-D3/POLARITY", len(combos) == 2, fa.site(lp), "both concatenation orders occur", func=q)
    for s in combos:
        left_is_sibling = dotted(s.value.left) == sib
        set_ = fa.guarded(s, flag)[0]
        clr = fa.guarded(s, f"not {flag}")[0]
        ok = (left_is_sibling and set_ and not clr) or (not left_is_sibling and clr and not set_)
        ctx.ob("C08-D3/POLARITY", ok, fa.site(s), f"`{norm_text(s)}` — sibling on the left exactly when the position bit is set (our node is the right child)",
               detail="" if ok else f"sibling left={left_is_sibling}, under bit set={set_}, under bit clear={clr}", func=q,
               key=f"C08-D3/POLARITY|{q}|{'sib-left' if left_is_sibling else 'sib-right'}")
    cname = dotted(combos[0].targets[0]) if combos else "combined"
    upd = [s for s in lp.body if isinstance(s, ast.Assign) and any(dotted(t) == work for t in s.targets)]
    ok = len(upd) == 1 and unparse(upd[0].value) == f"double_sha256({cname})" and lp.body[-1] is upd[0]
    ctx.ob("C08-D3/DEP", ok, fa.site(lp), "each level is the double SHA-256 of the concatenation and becomes the node for the next level", func=q)
    r = R.single_return_value(fa)
    ctx.ob("C08-D3/DEP", r is not None and unparse(r.value) == f"hexlify({work}[::-1])", fa.site(), "the result is the final node, byte-reversed, as hex (the header's merkle_root form)",
           func=q)
    tgt = prog.resolve_name(fa.fi.module, "double_sha256")
    okh = getattr(tgt, "qualname", "") in ("lbry.crypto.hash.double_sha256", "lbry.wallet.hash.double_sha256")
    if okh:
        dh = ctx.eng.fa_of(tgt)
        rr = R.single_return_value(dh)
        okh = rr is not None and unparse(rr.value) == f"sha256(sha256({tgt.params()[0]}))"
    ctx.ob("C08-D3/CONST", okh, fa.site(), "double_sha256(x) is sha256(sha256(x))", func=q)


def cache(ctx, prog):
    uh = ctx.fa(f"{L}.update_headers")
    q = uh.fi.qualname
    rew = [s for s in uh.stmts(ast.AugAssign) if dotted(s.target) == "rewound" and isinstance(s.op, ast.Add)]
    clr = uh.calls(dotted_name="self._tx_cache.clear")
    ctx.floor("C08-D5/CACHE", "rewind step / cache clear in update_headers", min(len(rew), len(clr)), 1, site=uh.site(), func=q)
    if rew and clr:
        blk = rew[0]._parent
        same = any(c in list(ast.walk(s)) for s in (blk.body if rew[0] in blk.body else blk.orelse) for c in clr)
        ctx.ob("C08-D5/CACHE", same, uh.site(rew[0]), "every rewind step of a reorganisation clears the whole transaction cache (a cached 'verified' must not "
               "outlive the header it was checked against)", func=q, key=f"C08-D5/CACHE|{q}|clear-on-rewind")
    # selective eviction would need the replaced height itself: forbid partial deletes here
    part = [c for c in uh.calls() if (dotted(c.func) or "").startswith("self._tx_cache.") and call_name(c) in ("pop", "popitem", "__delitem__")] + \
           [s for s in uh.stmts(ast.Delete) if "self._tx_cache" in unparse(s)]
    ctx.ob("C08-D5/CACHE", not part, uh.site(part[0]) if part else uh.site(), "the cache is not evicted selectively during a reorganisation", func=q)
    rt = ctx.fa(f"{L}.request_transactions")
    hits = [c for c in rt.calls(dotted_name="cache_hits.add")]
    ok = bool(hits) and all(rt.guarded(c, "cached and cached_tx is not None and cached_tx.tx is not None and cached_tx.tx.is_verified")[0] for c in hits)
    ctx.ob("C08-D5/CACHE", ok, rt.site(), "a cached transaction is reused only when the caller asked for the cache and it is verified", func=rt.fi.qualname)
    rs = ctx.fa(f"{L}.request_synced_transactions")
    calls = rs.calls(dotted_name="self.request_transactions")
    ok = len(calls) == 1 and kwarg(calls[0], "cached") is None and len(calls[0].args) == 1
    ctx.ob("C08-D5/CACHE", ok, rs.site(), "history sync never reads transactions from the cache (a batch must carry the inputs' transactions with it)",
           func=rs.fi.qualname, key=f"C08-D5/CACHE|{rs.fi.qualname}|uncached-sync")


def claim_proof(ctx, prog):
    vp = ctx.fa("lbry.wallet.claim_proofs.verify_proof")
    q = vp.fi.qualname
    rz = [x for x, k in R.raise_kinds(vp) if k == "InvalidProofError"]
    ctx.ob("C08-D4/GATE", len(rz) >= 14, vp.site(), "the legacy proof checker keeps its structural refusals", detail=f"{len(rz)} raise InvalidProofError (14 confirmed)", func=q)
    rets = [r for r in vp.stmts(ast.Return)]
    ok = len(rets) == 1 and is_const(rets[0].value, True)
    ctx.ob("C08-D4/GATE", ok, vp.site(), "verify_proof has the single `return True`", func=q)
    if ok:
        R.gate(ctx, "C08-D4/GATE", vp, rets[0], "not previous_computed_hash != binascii.unhexlify(root_hash)[::-1] and name.startswith(target)",
               "True is returned only when the computed hash equals the supplied root and the name matches", key=f"C08-D4/GATE|{q}|root")
    r = [s for s in vp.stmts(ast.Assign) if any(dotted(t) == "previous_computed_hash" for t in s.targets) and not is_const(s.value, None)]
    ctx.ob("C08-D4/DEP", len(r) == 1 and unparse(r[0].value) == "double_sha256(to_hash)", vp.site(), "each trie level hashes the collected children/value bytes", func=q)
    # every refusal of the legacy checker under its own condition, none narrowed by a test from elsewhere (C08-r7m3: the two closing checks made to depend on
    # the takeover height being present, so an outpoint that was never hashed into the root is accepted)
    OUT = "i == 0 and 'txhash' in proof and 'nOut' in proof and 'last takeover height' in proof"
    table = [
        ("child character not int", "child['character'] < 0 or child['character'] > 255"),
        ("children not in increasing order", "previous_child_character and previous_child_character >= child['character']"),
        ("invalid child nodeHash", "'nodeHash' in child and len(child['nodeHash']) != 64"),
        ("previous computed hash is None", "'nodeHash' not in child and previous_computed_hash is None"),
        ("already found the next child", "'nodeHash' not in child and found_child_in_chain is True"),
        ("did not find the alleged child", "not found_child_in_chain and i != 0"),
        ("txhash was invalid", OUT + " and len(proof['txhash']) != 64"),
        ("nOut was invalid", OUT + " and not isinstance(proof['nOut'], int)"),
        ("last takeover height was invalid", OUT + " and not isinstance(proof['last takeover height'], int)"),
        ("valueHash was invalid", "'valueHash' in node and len(node['valueHash']) != 64"),
        ("computed hash does not match roothash", "previous_computed_hash != binascii.unhexlify(root_hash)[::-1]"),
        ("mismatch between proof claim and outcome", "'txhash' in proof and 'nOut' in proof and not verified_value"),
        ("name did not match proof", "'txhash' in proof and 'nOut' in proof and name != target"),
        ("name fragment does not match proof", "not name.startswith(target)"),
    ]
    R.refusal_table(ctx, "C08-D4/VALID", vp, table, "legacy claim-trie proof checker")
    # the four closing checks decide acceptance: each is raised EXACTLY under its condition (what the earlier closing checks let through is implied)
    ROOT = "not previous_computed_hash != binascii.unhexlify(root_hash)[::-1]"
    closing = {
        "computed hash does not match roothash": ("previous_computed_hash != binascii.unhexlify(root_hash)[::-1]", ()),
        "mismatch between proof claim and outcome": ("'txhash' in proof and 'nOut' in proof and not verified_value and " + ROOT, ()),
        "name did not match proof": ("'txhash' in proof and 'nOut' in proof and name != target and " + ROOT, ("verified_value",)),
        "name fragment does not match proof": ("not name.startswith(target) and " + ROOT, ("verified_value", "'txhash' in proof", "'nOut' in proof", "name != target")),
    }
    for x, k in R.raise_kinds(vp):
        for msg, (g, ign) in closing.items():
            if msg in norm_text(x):
                R.exact_gate(ctx, "C08-D4/VALID", vp, x, g, f"`{msg}` is raised exactly under its condition", ignore=ign, key=f"C08-D4/VALID|{q}|exact|{msg[:30]}")
    # what is hashed per trie level: the updates of `to_hash`, in order, each with its (temporaries resolved) value under its condition
    upd = [x for x in R.ordered_stmts(vp) if isinstance(x, (ast.Assign, ast.AugAssign)) and
           any(dotted(t) == "to_hash" for t in (x.targets if isinstance(x, ast.Assign) else [x.target]))]
    got = [("=" if isinstance(x, ast.Assign) else "+=", vp.expanded_text(x.value, keep=("previous_computed_hash", "to_hash"))) for x in upd]
    want = [("=", "b''", ""),
            ("+=", "bytes((child['character'],))", ""),
            ("+=", "binascii.unhexlify(child['nodeHash'])[::-1]", "'nodeHash' in child"),
            ("+=", "previous_computed_hash", "'nodeHash' not in child"),
            ("+=", "get_hash_for_outpoint(binascii.unhexlify(proof['txhash'])[::-1], proof['nOut'], proof['last takeover height'])", OUT),
            ("+=", "binascii.unhexlify(node['valueHash'])[::-1]", "'valueHash' in node")]
    ok = got == [(a, b) for a, b, _g in want]
    ctx.ob("C08-D4/DEP", ok, vp.site(), "each level hashes: child character, then the child's nodeHash (reversed) or the hash computed so far; the leaf adds the outpoint hash "
           "or the node's valueHash (reversed) — in this order", detail="" if ok else f"updates of to_hash: {got}", func=q, key=f"C08-D4/DEP|{q}|to_hash")
    if ok:
        for x, (_a, b, g) in zip(upd, want):
            if g:
                R.gate(ctx, "C08-D4/DEP", vp, x, g, f"`to_hash += {b[:40]}` happens under `{g[:50]}`", key=f"C08-D4/DEP|{q}|to_hash|{b[:24]}")
            R.only_terms(ctx, "C08-D4/DEP", vp, x, [t for _m, t in table], f"`to_hash … {b[:40]}` depends on the checker's own tests only", key=f"C08-D4/DEP|{q}|to_hash|terms|{b[:24]}")
    names = [x for x in R.ordered_stmts(vp) if isinstance(x, ast.AugAssign) and dotted(x.target) == "reverse_computed_name"]
    ok = len(names) == 1 and vp.expanded_text(names[0].value) == "chr(child['character'])" and isinstance(names[0].op, ast.Add) and vp.guarded(names[0], "'nodeHash' not in child")[0]
    ctx.ob("C08-D4/DEP", ok, vp.site(names[0]) if names else vp.site(), "the name is collected from the characters of the children on the chain (those without a nodeHash)", func=q, key=f"C08-D4/DEP|{q}|name")
    tg = [x for x in vp.stmts(ast.Assign) if any(dotted(t) == "target" for t in x.targets)]
    ok = len(tg) == 1 and unparse(tg[0].value) == "reverse_computed_name[::-1].encode('ISO-8859-1').decode()"
    ctx.ob("C08-D4/DEP", ok, vp.site(tg[0]) if tg else vp.site(), "the proven name is the collected characters reversed (leaf first → root first), ISO-8859-1 bytes decoded as UTF-8", func=q, key=f"C08-D4/DEP|{q}|target")
    pc = [x for x in vp.stmts(ast.Assign) if any(dotted(t) == "previous_child_character" for t in x.targets) and not is_const(x.value, None)]
    ok = len(pc) == 1 and vp.expanded_text(pc[0].value) == "child['character']"
    ctx.ob("C08-D4/DEP", ok, vp.site(pc[0]) if pc else vp.site(), "the order test compares with the previous child's character", func=q, key=f"C08-D4/DEP|{q}|prevchar")
    fc = [x for x in vp.stmts(ast.Assign) if any(dotted(t) == "found_child_in_chain" for t in x.targets)]
    ok = sorted(unparse(x.value) for x in fc) == ["False", "True"] and all(vp.guarded(x, "'nodeHash' not in child")[0] for x in fc if is_const(x.value, True))
    ctx.ob("C08-D4/DEP", ok, vp.site(), "found_child_in_chain starts False per level and is set by the one child without a nodeHash", func=q, key=f"C08-D4/DEP|{q}|found")
    loops = [x for x in vp.stmts(ast.For) if unparse(x.iter).startswith("enumerate(")]
    ok = len(loops) == 1 and unparse(loops[0].iter) == "enumerate(proof['nodes'][::-1])"
    ctx.ob("C08-D4/DEP", ok, vp.site(loops[0]) if loops else vp.site(), "the nodes are walked leaf first (the proof lists them root first), numbered from 0", func=q, key=f"C08-D4/DEP|{q}|walk")
    init = {"previous_computed_hash": "None", "reverse_computed_name": "''", "verified_value": "False", "previous_child_character": "None"}
    for nm, val in init.items():
        firsts = [x for x in R.ordered_stmts(vp) if isinstance(x, (ast.Assign, ast.AugAssign)) and any(dotted(t) == nm for t in (x.targets if isinstance(x, ast.Assign) else [x.target]))]
        ok = bool(firsts) and isinstance(firsts[0], ast.Assign) and unparse(firsts[0].value) == val
        ctx.ob("C08-D4/DEP", ok, vp.site(firsts[0]) if firsts else vp.site(), f"`{nm}` starts as {val}", func=q, key=f"C08-D4/DEP|{q}|init|{nm}")
    sets = [s for s in vp.stmts(ast.Assign) if any(dotted(t) == "verified_value" for t in s.targets) and is_const(s.value, True)]
    ok = len(sets) == 1 and vp.guarded(sets[0], OUT)[0]
    ctx.ob("C08-D4/VALID", ok, vp.site(sets[0]) if sets else vp.site(), "the outpoint counts as verified only where it was hashed into the leaf (first node, all three fields present)", func=q,
           key=f"C08-D4/VALID|{q}|verified")
    if sets:
        calls = [c for c in vp.calls(dotted_name="get_hash_for_outpoint")]
        ok = len(calls) == 1 and [unparse(a) for a in calls[0].args] == ["binascii.unhexlify(proof['txhash'])[::-1]", "proof['nOut']", "proof['last takeover height']"] \
            and vp.must_precede(sets[0], lambda n: n is calls[0]) is None
        ctx.ob("C08-D4/VALID", ok, vp.site(sets[0]), "the leaf hash covers txhash (reversed), nOut and the takeover height of the proof, before the outpoint counts as verified", func=q,
               key=f"C08-D4/VALID|{q}|leafhash")
