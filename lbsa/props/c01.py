"""C01 — blob integrity: only bytes matching the SHA-384 name are ever accepted."""
import ast

from .. import AnalysisError
from ..astutil import dotted, call_name, unparse, norm_text, walk_local_body, kwarg, is_const
from ..consteval import Evaluator, Unknown
from .. import rules as R

EXPLANATION = (
    "Path-complete gate, ordering and ownership analysis of the blob write path. HashBlobWriter.write: the only "
    "set_result on a writer future is dominated by `len_so_far == expected length` and `computed hash == expected "
    "hash`, its value is the buffer content, the hash is SHA-384 (hashlib.sha384), and on every path the very "
    "bytes passed in (the unmodified parameter) are hashed and length-counted before they are buffered; nothing "
    "is buffered once the length is exceeded or while the length is unknown. Only verified bytes reach storage: "
    "_write_blob / save_verified_blob / write_blob / verified.set() / open(...,'wb') have exactly the confirmed "
    "call and write sites, save_verified_blob receives finished.result() on the path where finished.exception() "
    "was tested falsy. Losers are shut down: the winner's callback pops every writer and closes the others before "
    "saving, only on the success path. set_length accepts exactly `length unknown and 0 <= n <= MAX_BLOB_SIZE` "
    "(== 2 MiB). Decides these clauses for every chunking, peer count and byte content; does NOT decide asyncio "
    "callback ordering or the behaviour of hashlib/BytesIO."
)
EXACTNESS = "Second pass (DESIGN.md §10, exactness / completeness halves) — the converse clause: exact acceptance set of `set_result`, exact refusals and failure conditions of `write`, start value 0, every loser closed, every new writer registered (a second writer for the same peer refused exactly while the first is open), `save_verified_blob` writes / verifies / announces exactly under its own tests and in write → verified → callback order."
TECHNIQUE = "static analysis: CFG guard dominance (exact guard sets), must-precede ordering, who-may-call / who-may-write, constant folding; exact fact-set comparison of the tests dominating each effect and refusal (effect / refusal tables), fall-through path queries"
NOT_DECIDED = ("that a verified blob holds exactly those bytes for a concrete interleaving (conjunction of the decided clauses "
               "with asyncio/BytesIO/hashlib behaviour, which is trusted)")
ASSUMPTIONS = ["asyncio runs done-callbacks of a future/task after it completed, in registration order"]

WRITE = "lbry.blob.writer.HashBlobWriter.write"
WCLS = "lbry.blob.writer.HashBlobWriter"
ABS = "lbry.blob.blob_file.AbstractBlob"
BF = "lbry.blob.blob_file.BlobFile"


def check(ctx):
    prog = ctx.prog
    ev = Evaluator(prog)
    wa = ctx.fa(WRITE)
    wfi = wa.fi
    dparam = [p for p in wfi.params() if p != "self"][0]

    # ------------------------------------------------------------ D1 acceptance gate
    sinks = wa.calls(dotted_name="self.finished.set_result")
    ctx.floor("C01-D1/GATE", "self.finished.set_result in HashBlobWriter.write", len(sinks), 1)
    for s in sinks:
        R.gate(ctx, "C01-D1/GATE", wa, s, "self.len_so_far == self.get_length()",
               "blob is accepted only when exactly the announced number of bytes arrived",
               key="C01-D1/GATE|write|length")
        R.gate(ctx, "C01-D1/GATE", wa, s, "not self.calculate_blob_hash() != self.expected_blob_hash",
               "blob is accepted only when the computed hash equals the expected blob hash",
               key="C01-D1/GATE|write|hash")
        val = wa.expanded_text(s.args[0]) if s.args else ""
        ctx.ob("C01-D1/DEP", val == "self.buffer.getvalue()", wa.site(s), "accepted bytes are the buffered bytes",
               detail="" if val == "self.buffer.getvalue()" else f"set_result receives `{val}`", func=wfi.qualname)
    # no other set_result on a future inside lbry.blob
    others = [(m, c) for m, c in prog.calls_named("set_result") if m.name.startswith("lbry.blob.") or m.name == "lbry.blob"]
    for m, c in others:
        f = prog.function_of(c)
        ctx.ob("C01-D1/CALLERS", f is not None and f.qualname == WRITE, f"{m.relpath}:{c.lineno}",
               "set_result on a blob writer future only inside HashBlobWriter.write", func=getattr(f, "qualname", None))

    # hash function
    cb = ctx.fa(f"{WCLS}.calculate_blob_hash")
    r = R.single_return_value(cb)
    ctx.ob("C01-D1/DEP", r is not None and unparse(r.value) == "self._hashsum.hexdigest()", cb.site(),
           "calculate_blob_hash is the running digest's hexdigest", func=cb.fi.qualname)
    init = ctx.fa(f"{WCLS}.__init__")
    hs = [s for s in init.stmts(ast.Assign) if any(dotted(t) == "self._hashsum" for t in s.targets)]
    ctx.floor("C01-D1/CONST", "_hashsum initialisation", len(hs), 1)
    for s in hs:
        tgt = prog.resolve_name(init.fi.module, dotted(s.value.func)) if isinstance(s.value, ast.Call) else None
        ok = getattr(tgt, "qualname", None) == "lbry.utils.get_lbry_hash_obj" and not s.value.args
        ctx.ob("C01-D1/CONST", ok, init.site(s), "the running digest is a fresh get_lbry_hash_obj()", func=init.fi.qualname)
    ho = ctx.fa("lbry.utils.get_lbry_hash_obj")
    r = R.single_return_value(ho)
    ctx.ob("C01-D1/CONST", r is not None and unparse(r.value) == "hashlib.sha384()" and
           ho.fi.module.imports.get("hashlib") == "hashlib", ho.site(), "get_lbry_hash_obj() is hashlib.sha384()",
           func=ho.fi.qualname)
    for attr, allowed_kinds in (("_hashsum", None), ("len_so_far", None), ("expected_blob_hash", None)):
        R.writers_only(ctx, "C01-D1/WRITERS", attr, [f"{WCLS}.__init__", WRITE], f"writer state `{attr}`",
                       recv_filter=lambda m, recv, f: m.name == "lbry.blob.writer")
    # expected_blob_hash / get_length wiring at the only construction site
    cons = [(m, c) for m, c in prog.calls_named("HashBlobWriter")]
    ctx.floor("C01-D1/DEP", "HashBlobWriter construction sites", len(cons), 1)
    for m, c in cons:
        f = prog.function_of(c)
        a = [unparse(x) for x in c.args]
        ok = f is not None and f.qualname == f"{ABS}.get_blob_writer" and a[:2] == ["self.blob_hash", "self.get_length"]
        ctx.ob("C01-D1/DEP", ok, f"{m.relpath}:{c.lineno}", "a writer is built for the blob's own hash and length getter",
               detail="" if ok else f"HashBlobWriter({', '.join(a)}) in {getattr(f, 'qualname', '?')}",
               func=getattr(f, "qualname", None))

    # ------------------------------------------------------------ D1 ordering inside write
    upd = wa.calls(dotted_name="self._hashsum.update")
    bufw = wa.calls(dotted_name="self.buffer.write")
    cnt = [s for s in wa.stmts(ast.AugAssign) if dotted(s.target) == "self.len_so_far"]
    ctx.floor("C01-D1/ORDER", "hash update / length count / buffer write in write()", min(len(upd), len(bufw), len(cnt)), 1)
    # the bytes hashed, counted and buffered are the parameter itself (never re-assigned)
    redefs = [d for n in wa.cfg.nodes for d in wa.rd.defs_at[n.id] if d.name == dparam]
    ctx.ob("C01-D1/DEP", not redefs, wa.site(redefs[0].node.ast) if redefs else wa.site(),
           f"the received chunk `{dparam}` is never replaced or truncated before it is hashed",
           detail="; ".join(f"L{d.node.lineno}: {norm_text(d.node.ast)[:80]}" for d in redefs), func=wfi.qualname)
    for c in upd:
        ctx.ob("C01-D1/DEP", len(c.args) == 1 and dotted(c.args[0]) == dparam, wa.site(c), "the digest is fed the whole chunk",
               func=wfi.qualname)
        R.gate(ctx, "C01-D1/GATE", wa, c, "self.get_length()", "nothing is hashed while the length is unknown",
               key="C01-D1/GATE|write|unknown-length")
    for s in cnt:
        v = s.value
        ok = isinstance(s.op, ast.Add) and isinstance(v, ast.Call) and call_name(v) == "len" and dotted(v.args[0]) == dparam
        ctx.ob("C01-D1/DEP", ok, wa.site(s), "the running length grows by len(chunk)", detail=norm_text(s), func=wfi.qualname)
    for c in bufw:
        ctx.ob("C01-D1/DEP", len(c.args) == 1 and dotted(c.args[0]) == dparam, wa.site(c), "the buffer receives the whole chunk",
               func=wfi.qualname)
        for first, label in ((lambda n: n in upd, "hashed"), (lambda n: n in cnt, "length-counted")):
            p = wa.must_precede(c, first)
            ctx.ob("C01-D1/ORDER", p is None, wa.site(c), f"every chunk is {label} before it is buffered",
                   detail="" if p is None else "path " + wa.fmt_path(p), func=wfi.qualname)
        R.gate(ctx, "C01-D1/GATE", wa, c, "self.len_so_far <= self.get_length()",
               "nothing is buffered once more than the announced length arrived",
               key="C01-D1/GATE|write|overrun")
    # the overrun branch fails the future
    exc = wa.calls(dotted_name="self.finished.set_exception")
    over = [c for c in exc if wa.guarded(c, "self.len_so_far > self.get_length()")[0]]
    ctx.ob("C01-D1/GATE", bool(over), wa.site(over[0]) if over else wa.site(), "an overrun fails the writer's future",
           func=wfi.qualname)
    mism = [c for c in exc if wa.guarded(c, "self.calculate_blob_hash() != self.expected_blob_hash")[0]]
    ctx.ob("C01-D1/GATE", bool(mism), wa.site(mism[0]) if mism else wa.site(), "a hash mismatch fails the writer's future",
           func=wfi.qualname)

    # ------------------------------------------------------------ D2 only verified bytes reach storage
    R.callers_only(ctx, "C01-D2/CALLERS", "_write_blob", [f"{ABS}.write_blob", f"{ABS}.save_verified_blob", f"{BF}._write_blob"],
                   "raw blob write", floor=3)
    R.callers_only(ctx, "C01-D2/CALLERS", "save_verified_blob", [f"{ABS}.get_blob_writer.<locals>.writer_finished_callback"],
                   "saving verified bytes", floor=1)
    R.callers_only(ctx, "C01-D2/CALLERS", "write_blob", ["lbry.blob.blob_manager.BlobManager.get_blob",
                                                        f"{BF}._write_blob"], "buffer->file migration", floor=1)
    cbq = f"{ABS}.get_blob_writer.<locals>.writer_finished_callback"
    cba = ctx.fa(cbq)
    fparam = cba.fi.params()[0]
    saves = cba.calls(name="save_verified_blob")
    ctx.floor("C01-D2/DEP", "save_verified_blob call in writer_finished_callback", len(saves), 1)
    for c in saves:
        val = cba.expanded_text(c.args[0]) if c.args else ""
        ctx.ob("C01-D2/DEP", val == f"{fparam}.result()", cba.site(c), "what is saved is the finished future's result",
               detail="" if val == f"{fparam}.result()" else f"saves `{val}`", func=cbq)
        R.gate(ctx, "C01-D2/GATE", cba, c, f"not {fparam}.exception()", "saving happens only when the writer did not fail",
               key="C01-D2/GATE|callback|noerr")
        R.gate(ctx, "C01-D3/GATE", cba, c, "not self.writers", "every other writer was popped before the blob is saved",
               key="C01-D3/GATE|callback|drained")
    # the callback is attached to the future handed to the writer
    gbw = ctx.fa(f"{ABS}.get_blob_writer")
    adds = [c for c in gbw.calls(name="add_done_callback") if c.args and dotted(c.args[0]) == "writer_finished_callback"]
    okw = False
    for c in adds:
        fut = dotted(c.func.value)
        cons_ = [x for x in gbw.calls(name="HashBlobWriter") if len(x.args) >= 3 and dotted(x.args[2]) == fut]
        okw = okw or bool(cons_)
    ctx.ob("C01-D2/DEP", okw, gbw.site(adds[0]) if adds else gbw.site(),
           "writer_finished_callback is a done-callback of the very future given to the writer", func=gbw.fi.qualname)

    # save_verified_blob: verified is set by a done-callback of the write task
    sv = ctx.fa(f"{ABS}.save_verified_blob")
    wtasks = [s for s in sv.stmts(ast.Assign) if isinstance(s.value, ast.Call) and dotted(s.value.func) == "self._write_blob"]
    ctx.floor("C01-D2/ORDER", "write task in save_verified_blob", len(wtasks), 1)
    for s in wtasks:
        prm = [p for p in sv.fi.params() if p != "self"][0]
        ctx.ob("C01-D2/DEP", len(s.value.args) == 1 and dotted(s.value.args[0]) == prm, sv.site(s),
               "the bytes written are the verified bytes handed in", func=sv.fi.qualname)
        tname = dotted(s.targets[0])
        cbs = [c for c in sv.calls(name="add_done_callback") if dotted(c.func.value) == tname and c.args
               and dotted(c.args[0]) == "update_events"]
        ctx.ob("C01-D2/ORDER", bool(cbs), sv.site(s), "verified is set from a done-callback of the write task (after the write)",
               func=sv.fi.qualname)
    R.callers_only(ctx, "C01-D2/CALLERS", "update_events", [f"{ABS}.save_verified_blob"], "verified-event setter", floor=1)

    # who sets `verified`
    def blob_recv(m, recv, f):
        return m.name.startswith("lbry.")
    sites = R.writers_only(ctx, "C01-D2/WRITERS", "verified",
                           [f"{ABS}.save_verified_blob.<locals>.update_events", f"{BF}.__init__", f"{ABS}.__init__",
                            f"{ABS}.delete", "lbry.blob.blob_file.BlobBuffer._reader_context"],
                           "blob verified flag", floor=3, recv_filter=blob_recv)
    setters = [(m, node, f) for m, node, kind, recv, f in sites if kind == "call:set"]
    ok = {f.qualname for _, _, f in setters if f is not None} == {f"{ABS}.save_verified_blob.<locals>.update_events",
                                                                 f"{BF}.__init__"}
    ctx.ob("C01-D2/WRITERS", ok, f"lbry/blob/blob_file.py:1", "verified.set() happens exactly in update_events and BlobFile.__init__",
           detail="" if ok else str(sorted(f.qualname for _, _, f in setters if f)))
    bi = ctx.fa(f"{BF}.__init__")
    for c in bi.calls(dotted_name="self.verified.set"):
        R.gate(ctx, "C01-D2/GATE", bi, c, "self.file_exists and not (length and length != file_size)",
               "an existing file is trusted only when its size matches the expected length",
               key="C01-D2/GATE|BlobFile.__init__|size")
    dels = bi.calls(dotted_name="self.delete")
    okd = any(bi.guarded(c, "length and length != file_size")[0] for c in dels)
    ctx.ob("C01-D2/GATE", okd, bi.site(dels[0]) if dels else bi.site(), "a size mismatch deletes the file", func=bi.fi.qualname)

    # files opened for writing in lbry.blob
    for m in [x for x in prog.modules.values() if x.name.startswith("lbry.blob")]:
        for mm, c in [(mm, c) for mm, c in prog.calls_named("open") if mm is m and isinstance(c.func, ast.Name)]:
            mode = c.args[1] if len(c.args) > 1 else kwarg(c, "mode")
            mv = mode.value if isinstance(mode, ast.Constant) else ("r" if mode is None else "?")
            if any(ch in str(mv) for ch in "wax+?"):
                f = prog.function_of(c)
                ok = f is not None and f.qualname == f"{BF}._write_blob.<locals>._write_blob" and unparse(c.args[0]) == "self.file_path"
                ctx.ob("C01-D2/WRITERS", ok, f"{m.relpath}:{c.lineno}", f"open(…, {mv!r}) in lbry.blob only inside BlobFile._write_blob",
                       func=getattr(f, "qualname", None))
    wb = ctx.fa(f"{BF}._write_blob.<locals>._write_blob")
    outer_param = [p for p in prog.func(f"{BF}._write_blob").params() if p != "self"][0]
    fw = [c for c in wb.calls(name="write")]
    ctx.ob("C01-D2/DEP", len(fw) == 1 and dotted(fw[0].args[0]) == outer_param, wb.site(), "the file receives exactly the bytes handed to _write_blob",
           func=wb.fi.qualname)
    fp = [s for s in bi.stmts(ast.Assign) if any(dotted(t) == "self.file_path" for t in s.targets)]
    ctx.ob("C01-D2/DEP", len(fp) == 1 and unparse(fp[0].value) == "os.path.join(self.blob_directory, self.blob_hash)", bi.site(),
           "a blob file is named by its blob hash inside the blob directory", func=bi.fi.qualname)

    # buffer -> file migration writes only bytes of a readable (verified) buffer
    gb = ctx.fa("lbry.blob.blob_manager.BlobManager.get_blob")
    for c in gb.calls(name="write_blob"):
        R.gate(ctx, "C01-D2/GATE", gb, c, "buffer.is_readable()", "migration copies only a verified in-memory blob",
               key="C01-D2/GATE|get_blob|readable")
        src = gb.sources(c.args[0]) if c.args else {"calls": set()}
        ctx.ob("C01-D2/DEP", "buffer.reader_context" in src["calls"], gb.site(c), "migrated bytes are read from that buffer",
               func=gb.fi.qualname)
    isr = ctx.fa(f"{ABS}.is_readable")
    r = R.single_return_value(isr)
    ctx.ob("C01-D2/DEP", r is not None and unparse(r.value) == "self.verified.is_set()", isr.site(), "readable == verified",
           func=isr.fi.qualname)
    for sub in prog.subclasses(prog.cls(ABS)):
        for nm in ("is_readable", "get_is_verified"):
            if nm in sub.methods:
                ctx.ob("C01-D2/DEP", False, sub.methods[nm].site(), f"{sub.name} overrides {nm}", func=sub.methods[nm].qualname)

    # ------------------------------------------------------------ D3 losers are shut down, only by a winner
    closes = cba.calls(name="close_handle")
    ctx.floor("C01-D3/ORDER", "close_handle of other writers", len(closes), 1)
    for c in closes:
        R.gate(ctx, "C01-D3/GATE", cba, c, f"not {fparam}.exception()", "other writers are closed only by a writer that succeeded",
               key="C01-D3/GATE|callback|winner-only")
        R.gate(ctx, "C01-D3/GATE", cba, c, f"{dotted(c.func.value)} is not writer", "the winner does not close itself first",
               key="C01-D3/GATE|callback|not-self")
        loop = cba.lexically_inside(c, lambda a: isinstance(a, ast.While))
        ok = loop is not None and unparse(loop.test) == "self.writers" and any(
            isinstance(x, ast.Call) and dotted(x.func) == "self.writers.popitem" for x in ast.walk(loop))
        ctx.ob("C01-D3/ORDER", ok, cba.site(c), "losers are taken from `while self.writers: popitem()`", func=cbq)
    for c in saves:
        p = cba.must_precede(c, lambda n: n in closes or (isinstance(n, ast.Call) and dotted(n.func) == "self.writers.popitem"))
        # either there was nothing to pop (loop never entered) or pops precede; the drained guard above is the real obligation
    ch = ctx.fa(f"{WCLS}.close_handle")
    can = ch.calls(dotted_name="self.finished.cancel")
    ctx.ob("C01-D3/GATE", bool(can) and all(ch.guarded(c, "not self.finished.done()")[0] for c in can), ch.site(),
           "closing a writer cancels its still-pending future", func=ch.fi.qualname)
    cl = [s for s in ch.stmts(ast.Assign) if any(dotted(t) == "self.buffer" for t in s.targets) and is_const(s.value)]
    ctx.ob("C01-D3/DEP", bool(cl), ch.site(), "a closed writer drops its buffer (later writes are refused)", func=ch.fi.qualname)
    # write() on a closed writer never reaches the hashing code
    for c in upd:
        R.gate(ctx, "C01-D3/GATE", wa, c, "self.buffer is not None", "a closed writer hashes nothing",
               key="C01-D3/GATE|write|closed")

    # ------------------------------------------------------------ D5 the converse: a complete correct copy IS accepted, saved, announced
    complete(ctx, prog, wa, cba, fparam, sinks, saves, closes)

    # ------------------------------------------------------------ D4 length bound
    try:
        mx = ev.name(prog.module("lbry.blob"), "MAX_BLOB_SIZE")
        bl = ev.name(prog.module("lbry.blob"), "BLOBHASH_LENGTH")
    except Unknown as e:
        raise AnalysisError(f"C01: constant does not fold: {e}")
    ctx.ob("C01-D4/CONST", mx == 2 * 2 ** 20, "lbry/blob/__init__.py:3", "MAX_BLOB_SIZE folds to 2 MiB", detail=str(mx))
    ctx.ob("C01-D4/CONST", bl == 96, "lbry/blob/__init__.py:6", "BLOBHASH_LENGTH folds to 96 hex digits", detail=str(bl))
    sl = ctx.fa(f"{ABS}.set_length")
    lparam = [p for p in sl.fi.params() if p != "self"][0]
    las = [s for s in sl.stmts(ast.Assign) if any(dotted(t) == "self.length" for t in s.targets)]
    ctx.floor("C01-D4/GATE", "assignment of self.length in set_length", len(las), 1)
    for s in las:
        ctx.ob("C01-D4/DEP", dotted(s.value) == lparam, sl.site(s), "the stored length is the announced length", func=sl.fi.qualname)
        R.exact_gate(ctx, "C01-D4/GATE", sl, s, f"self.length is None and 0 <= {lparam} <= MAX_BLOB_SIZE",
                     "a length is accepted exactly when none is known yet and 0 <= n <= MAX_BLOB_SIZE",
                     ignore=[f"not (self.length is not None and {lparam} == self.length)", f"{lparam} == self.length",
                             "self.length is not None"],
                     key="C01-D4/GATE|set_length|bound")
    # the announced length is whatever json.loads made of the peer's header — NaN included (C01-r7m2)
    bm = prog.module("lbry.blob.blob_file")
    R.unordered_safe(ctx, "C01-D4/UNORDERED", ast.parse(bm.source), "AbstractBlob", "set_length", "self.length",
                     "the announced length is stored only through order comparisons that are required to hold (an unordered value is refused)", bm.relpath,
                     key="C01-D4/UNORDERED|set_length")
    tgt = prog.resolve_name(sl.fi.module, "MAX_BLOB_SIZE")
    ctx.ob("C01-D4/CONST", isinstance(tgt, tuple) and tgt[1].name == "lbry.blob", sl.site(), "the bound is lbry.blob.MAX_BLOB_SIZE",
           func=sl.fi.qualname)

    def length_recv(m, recv, f):
        # `.length` of a blob object: anything in blob_file.py, or a non-self receiver elsewhere, or self in an AbstractBlob subclass
        if m.name == "lbry.blob.blob_file":
            return True
        d = dotted(recv.value)
        if d == "self" and f is not None and f.cls is not None:
            return prog.is_subclass(f.cls, ABS)
        if d == "self":
            # nested function of a method
            p = f
            while p is not None and p.cls is None:
                p = p.parent
            return p is not None and p.cls is not None and prog.is_subclass(p.cls, ABS)
        return "blob" in (d or "").lower()
    R.writers_only(ctx, "C01-D4/WRITERS", "length", [f"{ABS}.__init__", f"{ABS}.set_length", f"{ABS}.delete", f"{BF}.__init__"],
                   "blob length", floor=4, recv_filter=length_recv, kinds=("assign", "augassign", "delete"))
    gl = ctx.fa(f"{ABS}.get_length")
    r = R.single_return_value(gl)
    ctx.ob("C01-D4/DEP", r is not None and unparse(r.value) == "self.length", gl.site(), "get_length() is the stored length",
           func=gl.fi.qualname)


def complete(ctx, prog, wa, cba, fparam, sinks, saves, closes):
    """exactness of every refusal / acceptance test: nothing narrower than the stated condition stands between a complete
    correct copy and `verified` (a spurious refusal, a dropped registration or a skipped loser breaks the converse clause)"""
    wq = wa.fi.qualname
    for s in sinks:
        R.exact_gate(ctx, "C01-D5/GATE", wa, s,
                     "self.calculate_blob_hash() == self.expected_blob_hash and self.get_length() == self.len_so_far and "
                     "self.len_so_far <= self.get_length() and self.get_length() and self.finished and not self.finished.cancelled() "
                     "and not self.finished.done()",
                     "a writer whose bytes have the announced length and hash delivers its result unless its future is already settled — no further condition",
                     ignore=["self.buffer is not None"], key=f"C01-D5/GATE|{wq}|accept-exact")
    for c, k in R.raise_kinds(wa):
        pass
    rz = [r for r, k in R.raise_kinds(wa)]
    ctx.floor("C01-D5/GATE", "refusals (raise) in HashBlobWriter.write", len(rz), 2, site=wa.site(), func=wq)
    want = {"unknown blob length": "not self.get_length()", "I/O operation on closed file": "self.get_length() and self.buffer is None and self.finished.done()"}
    for r in rz:
        msg = next((str(a.value) for a in ast.walk(r) if isinstance(a, ast.Constant) and isinstance(a.value, str)), "?")
        g = want.get(msg)
        if g is None:
            ctx.ob("C01-D5/GATE", False, wa.site(r), "write() refuses data only for an unknown length or a closed writer", detail=f"additional refusal: {unparse(r)[:80]}", func=wq)
            continue
        R.exact_gate(ctx, "C01-D5/GATE", wa, r, g, f"write() raises `{msg}` exactly under its stated condition", key=f"C01-D5/GATE|{wq}|refuse|{msg}")
    exc = wa.calls(dotted_name="self.finished.set_exception")
    for c in exc:
        if "InvalidDataError" in unparse(c):
            R.exact_gate(ctx, "C01-D5/GATE", wa, c, "not self.len_so_far <= self.get_length() and self.get_length()", "the writer fails for length exactly on an overrun",
                         ignore=["self.buffer is not None"], key=f"C01-D5/GATE|{wq}|overrun-exact")
        elif "InvalidBlobHashError" in unparse(c):
            R.exact_gate(ctx, "C01-D5/GATE", wa, c, "self.calculate_blob_hash() != self.expected_blob_hash and self.get_length() == self.len_so_far and "
                         "self.len_so_far <= self.get_length() and self.get_length()", "the writer fails for hash exactly on a complete copy with a different digest",
                         ignore=["self.buffer is not None"], key=f"C01-D5/GATE|{wq}|mismatch-exact")
    wi = ctx.fa(f"{WCLS}.__init__")
    z = [x for x in wi.stmts(ast.Assign) if any(dotted(t) == "self.len_so_far" for t in x.targets)]
    ctx.ob("C01-D5/CONST", len(z) == 1 and is_const(z[0].value, 0), wi.site(), "the running length starts at 0", func=wi.fi.qualname)
    z = [x for x in wi.stmts(ast.Assign) if any(dotted(t) == "self.get_length" for t in x.targets)]
    ctx.ob("C01-D5/DEP", len(z) == 1 and dotted(z[0].value) == wi.fi.params()[2], wi.site(), "the expected length is read through the getter handed in", func=wi.fi.qualname)
    # closing
    ch = ctx.fa(f"{WCLS}.close_handle")
    for c in ch.calls(dotted_name="self.finished.cancel"):
        R.exact_gate(ctx, "C01-D5/GATE", ch, c, "not self.finished.done()", "closing cancels the future of every writer that is still pending", key="C01-D5/GATE|close|cancel-exact")
    for x in [x for x in ch.stmts(ast.Assign) if any(dotted(t) == "self.buffer" for t in x.targets) and is_const(x.value, None)]:
        R.exact_gate(ctx, "C01-D5/GATE", ch, x, "self.buffer is not None", "closing drops the buffer whenever there is one", key="C01-D5/GATE|close|drop-exact")
    # callback: losers and save
    cbq = cba.fi.qualname
    for c in closes:
        R.exact_gate(ctx, "C01-D5/GATE", cba, c, f"not {fparam}.exception() and {dotted(c.func.value)} is not writer",
                     "EVERY other registered writer is closed by the winner (no further condition)", key=f"C01-D5/GATE|{cbq}|losers-exact")
    for c in saves:
        R.exact_gate(ctx, "C01-D5/GATE", cba, c, f"not {fparam}.exception() and not self.writers",
                     "the winner's bytes are saved whenever its future carries a result", key=f"C01-D5/GATE|{cbq}|save-exact")
    gw = ctx.fa(f"{ABS}.get_blob_writer")
    gq = gw.fi.qualname
    a, pt = gw.fi.params()[1:3]
    regs = [x for x in gw.stmts(ast.Assign) if any(isinstance(t, ast.Subscript) and dotted(t.value) == "self.writers" for t in x.targets)]
    ctx.floor("C01-D5/DEP", "writer registration in get_blob_writer", len(regs), 1, site=gw.site(), func=gq)
    rz = [r for r, k in R.raise_kinds(gw)]
    for x in regs:
        ok = unparse(x.targets[0].slice) == f"({a}, {pt})" and dotted(x.value) == "writer"
        ctx.ob("C01-D5/DEP", ok, gw.site(x), "every new writer is registered under its peer (the winner closes exactly the registered writers)", func=gq, key=f"C01-D5/DEP|{gq}|register")
        R.exact_gate(ctx, "C01-D5/GATE", gw, x, "", "registration is unconditional once the request was not refused",
                     ignore=[f"not ({a}, {pt}) in self.writers", f"self.writers[{a}, {pt}].closed()", f"({a}, {pt}) in self.writers"], key=f"C01-D5/GATE|{gq}|register-always")
    for r in rz:
        R.exact_gate(ctx, "C01-D5/GATE", gw, r, f"({a}, {pt}) in self.writers and not self.writers[{a}, {pt}].closed()",
                     "a second writer for the same peer is refused exactly while the first is still open (it would orphan the first, which no winner could then close)",
                     key=f"C01-D5/GATE|{gq}|refuse-twice")
    ctx.floor("C01-D5/GATE", "double-download refusal in get_blob_writer", len(rz), 1, site=gw.site(), func=gq)
    r = R.single_return_value(gw)
    ctx.ob("C01-D5/DEP", r is not None and dotted(r.value) == "writer", gw.site(), "get_blob_writer returns the registered writer", func=gq)
    mk = [c for c in gw.calls(name="HashBlobWriter")]
    ok = len(mk) == 1 and len(mk[0].args) == 3 and dotted(mk[0].args[2]) == "fut" and \
        any(dotted(c.func) == "fut.add_done_callback" and c.args and dotted(c.args[0]) == "writer_finished_callback" and not R.atomic_facts_at(gw, c)[0] - {(f"(({a}, {pt})) in (self.writers)", False)}
            for c in gw.calls(name="add_done_callback"))
    ctx.ob("C01-D5/DEP", ok, gw.site(), "the finishing callback is always attached to the writer's own future", func=gq)
    # save_verified_blob
    sv = ctx.fa(f"{ABS}.save_verified_blob")
    sq = sv.fi.qualname
    vb = sv.fi.params()[1]
    wt = [c for c in sv.calls(dotted_name="self._write_blob")]
    for c in wt:
        R.exact_gate(ctx, "C01-D5/GATE", sv, c, "not self.verified.is_set() and self.is_writeable()", "verified bytes are written unless the blob is already verified or being written",
                     key=f"C01-D5/GATE|{sq}|write-exact")
    cbs = [c for c in sv.calls(name="add_done_callback")]
    ue = [c for c in cbs if c.args and dotted(c.args[0]) == "update_events"]
    ok = len(ue) == 1 and bool(wt) and dotted(ue[0].func.value) == "task" and sv.expanded_text(ue[0].func.value) == f"self._write_blob({vb})"
    ctx.ob("C01-D5/DEP", ok, sv.site(), "update_events (verified.set) is a done-callback of that write task", func=sq)
    for c in ue:
        R.exact_gate(ctx, "C01-D5/GATE", sv, c, "not self.verified.is_set() and self.is_writeable()", "…always, once the write was started", key=f"C01-D5/GATE|{sq}|verified-always")
    an = [c for c in cbs if c.args and isinstance(c.args[0], ast.Lambda)]
    ok = len(an) == 1 and dotted(an[0].func.value) == "task" and unparse(an[0].args[0].body) == "self.blob_completed_callback(self)"
    ctx.ob("C01-D5/ORDER", ok, sv.site(), "the completion callback (announce / bookkeeping) is invoked with this blob from a done-callback of the write task — after the bytes are stored", func=sq,
           key=f"C01-D5/ORDER|{sq}|announce-after-write")
    for c in an:
        R.exact_gate(ctx, "C01-D5/GATE", sv, c, "not self.verified.is_set() and self.is_writeable() and self.blob_completed_callback", "…whenever a completion callback is configured",
                     key=f"C01-D5/GATE|{sq}|announce-exact")
    R.callers_only(ctx, "C01-D5/CALLERS", "blob_completed_callback", [sq + ".<locals>.<lambda>", sq, f"{ABS}.__init__", f"{BF}.__init__", f"{ABS}.create_from_unencrypted", f"{BF}.create_from_unencrypted",
                                                                         "lbry.blob.blob_file.BlobBuffer.__init__", "lbry.blob.blob_manager.BlobManager._get_blob"],
                   "completion callback", floor=2, module_prefix="lbry.blob")
    ue_f = ctx.fa(sq + ".<locals>.update_events")
    t = R.top_level_texts(ue_f)
    ctx.ob("C01-D5/DEP", [x for x in t if x in ("self.verified.set()", "self.writing.clear()")] == ["self.verified.set()", "self.writing.clear()"], ue_f.site(), "update_events sets verified and clears writing, unconditionally", func=ue_f.fi.qualname)
    iw = ctx.fa(f"{ABS}.is_writeable")
    r = R.single_return_value(iw)
    ctx.ob("C01-D5/DEP", r is not None and unparse(r.value) == "not self.writing.is_set()", iw.site(), "writeable == no write in progress", func=iw.fi.qualname)
    ws = [c for c in sv.calls(dotted_name="self.writing.set")]
    ok = len(ws) == 1 and bool(wt) and sv.must_precede(wt[0], lambda n: n is ws[0]) is None
    ctx.ob("C01-D5/ORDER", ok, sv.site(), "the writing flag is raised before the write task starts (a second winner cannot start a second write)", func=sq)


# ------------------------------------------------------------------------------------------------ third pass: the file-backed sibling and the manager
_check_c01_second = check


def ev_str(node):
    """a literal SQL text: a string constant or implicitly concatenated constants"""
    if isinstance(node, ast.Constant) and isinstance(node.value, str):
        return node.value
    if isinstance(node, ast.JoinedStr):
        return None
    if isinstance(node, ast.BinOp) and isinstance(node.op, ast.Add):
        a, b = ev_str(node.left), ev_str(node.right)
        return a + b if a is not None and b is not None else None
    return None


def siblings(ctx):
    """BlobFile / BlobBuffer refine AbstractBlob and BlobManager hands out ONE object per hash: the guarantees decided on the base class
    hold for the objects the daemon really uses only if the overrides keep the base behaviour as a component."""
    prog = ctx.prog
    R.override_refines(ctx, "C01-D6/OVERRIDE", ABS, "is_writeable", "and-super",
                       "a subclass may only make `writeable` stricter: the base test (no write in progress) stays a conjunct — otherwise two finished writers both save")
    R.override_refines(ctx, "C01-D6/OVERRIDE", ABS, "get_blob_writer", "forward",
                       "the writer is created and registered by the base method under the full (address, port) key — a shortened key lets one writer's "
                       "clean-up unregister another, live writer, which is then never shut down")
    R.override_refines(ctx, "C01-D6/OVERRIDE", ABS, "delete", "super-toplevel", "deleting always runs the base delete (writers closed, verified and length cleared)", floor=2)
    R.override_refines(ctx, "C01-D6/OVERRIDE", ABS, "__init__", "super-toplevel", "construction always runs the base constructor, all parameters handed on", floor=2)
    # the job that stores the bytes is awaited by the write task: `verified` (a done-callback of that task) means the bytes ARE stored
    R.executor_jobs_awaited(ctx, "C01-D6/AWAIT", [f"{BF}._write_blob.<locals>.write_blob"],
                            "the write task ends only when the executor job that writes the file has ended (verified ⇒ bytes on disk)")
    wb = ctx.fa(f"{BF}._write_blob")
    ct = [c for c in wb.calls(name="create_task")]
    ok = len(ct) == 1 and isinstance(ct[0].args[0], ast.Call) and dotted(ct[0].args[0].func) == "write_blob" and \
        all(isinstance(r.value, ast.Call) and r.value is ct[0] for r in wb.stmts(ast.Return)) and bool(wb.stmts(ast.Return))
    ctx.ob("C01-D6/DEP", ok, wb.site(), "BlobFile._write_blob returns the task that runs write_blob()", func=wb.fi.qualname)
    inner = ctx.fa(f"{BF}._write_blob.<locals>._write_blob")
    opens = [c for c in inner.calls(name="open")]
    ok = len(opens) == 1 and len(opens[0].args) >= 2 and unparse(opens[0].args[0]) == "self.file_path" and is_const(opens[0].args[1], "wb")
    ctx.ob("C01-D6/DEP", ok, inner.site(), "the bytes go to the blob's own path, opened 'wb' (truncating)", func=inner.fi.qualname)
    fe = ctx.fa(f"{BF}.file_exists")
    r = R.single_return_value(fe)
    ctx.ob("C01-D6/DEP", r is not None and unparse(r.value) == "os.path.isfile(self.file_path)", fe.site(), "file_exists == the blob's path is a file", func=fe.fi.qualname)
    # a writer's clean-up un-registers ITSELF, not whoever holds its key now: the same peer may have been given a new writer (after this one was closed and
    # before its callbacks ran); deleting that registration hides the new writer from the duplicate guard and from the winner's close-the-others loop
    rw = ctx.fa(f"{ABS}.get_blob_writer.<locals>.remove_writer")
    dels = rw.stmts(ast.Delete) + [R.stmt_of(c) for c in rw.calls(name="pop") if unparse(c.func.value) == "self.writers"]
    ctx.floor("C01-D6/OWN", "remove_writer drops a registration", len(dels), 1, site=rw.site(), func=rw.fi.qualname)
    for d in dels:
        own = False
        for g in ("self.writers.get((peer_address, peer_port)) is writer", "self.writers[(peer_address, peer_port)] is writer"):
            own = own or rw.guarded(d, g)[0]
        ctx.ob("C01-D6/OWN", own, rw.site(d), "a finished writer removes the registration under its (address, port) key only if that registration is this very writer",
               func=rw.fi.qualname, key="C01-D6/OWN|remove_writer|identity",
               detail="" if own else "the key is deleted whoever is registered under it: a newer writer of the same peer is un-registered and is not shut down when the blob verifies")
    # adoption of a file found on disk (restart): verified only together with a length, and the length is the file's size, stored directly
    bi = ctx.fa(f"{BF}.__init__")
    vs = [c for c in bi.calls(dotted_name="self.verified.set")]
    for c in vs:
        prev = R.prev_stmt(R.stmt_of(c))
        ok = isinstance(prev, ast.Assign) and len(prev.targets) == 1 and unparse(prev.targets[0]) == "self.length" and \
            bi.expanded_text(prev.value, keep=()) in ("int(os.stat(self.file_path).st_size)", "os.stat(self.file_path).st_size", "os.path.getsize(self.file_path)")
        ctx.ob("C01-D6/DEP", ok, bi.site(c), "a file adopted at construction gets `length` := its size on disk, assigned directly (the checking setter refuses over-long files and would "
               "leave a verified blob without a length), immediately before `verified` is set", func=bi.fi.qualname, key=f"C01-D6/DEP|{bi.fi.qualname}|adopt-length")
    # BlobFile.get_blob_writer refuses when the file is already there
    gw = ctx.fa(f"{BF}.get_blob_writer")
    for r in gw.stmts(ast.Return):
        R.exact_gate(ctx, "C01-D6/GATE", gw, r, "not self.file_exists", "a writer is handed out exactly when no file exists yet", key=f"C01-D6/GATE|{gw.fi.qualname}|exists-exact")
    # ---- the manager: one live object per hash decides
    bm = "lbry.blob.blob_manager.BlobManager"
    iv = ctx.fa(f"{bm}.is_blob_verified")
    hp = iv.fi.params()[1]
    fresh = [c for c in iv.calls() if call_name(c) in ("_get_blob", "BlobFile", "BlobBuffer")]
    ctx.floor("C01-D6/GATE", "is_blob_verified consults a fresh object only as a fallback", len(fresh), 1, site=iv.site(), func=iv.fi.qualname)
    for c in fresh:
        R.gate(ctx, "C01-D6/GATE", iv, c, f"{hp} not in self.blobs", "a second object for a hash is built from the file only when no live object exists — "
               "a live object that is still being written must answer itself (its file is incomplete)", key=f"C01-D6/GATE|{iv.fi.qualname}|live-object-decides")
    rets = [r for r in iv.stmts(ast.Return) if iv.guarded(r, f"{hp} in self.blobs")[0]]
    ok = bool(rets) and all(unparse(r.value) == f"self.blobs[{hp}].get_is_verified()" for r in rets)
    ctx.ob("C01-D6/DEP", ok, iv.site(), "for a live object the answer is that object's own verified flag", func=iv.fi.qualname, key=f"C01-D6/DEP|{iv.fi.qualname}|live-verdict")
    gb = ctx.fa(f"{bm}._get_blob")
    for c in [c for c in gb.calls() if call_name(c) in ("BlobFile", "BlobBuffer")]:
        a = [unparse(x) for x in c.args]
        ok = a[:4] == ["self.loop", gb.fi.params()[1], gb.fi.params()[2], "self.blob_completed"]
        ctx.ob("C01-D6/DEP", ok, gb.site(c), f"{call_name(c)} objects are built for the requested hash and length with the manager's completion callback", func=gb.fi.qualname,
               key=f"C01-D6/DEP|{gb.fi.qualname}|{call_name(c)}-args")
    for fn in ("get_blob", "is_blob_verified"):
        f = ctx.fa(f"{bm}.{fn}")
        hp_, lp_ = f.fi.params()[1:3]
        for c in f.calls(dotted_name="self._get_blob"):
            ok = len(c.args) >= 2 and dotted(c.args[0]) == hp_ and dotted(c.args[1]) == lp_ or \
                (len(c.args) >= 1 and dotted(c.args[0]) == hp_ and dotted(kwarg(c, "length")) == lp_)
            ctx.ob("C01-D6/DEP", bool(ok), f.site(c), f"{fn} builds the blob object with the caller's hash AND expected length (BlobFile.__init__ compares an existing file's size "
                   "with it; without it any file of that name is adopted as verified)", func=f.fi.qualname, key=f"C01-D6/DEP|{bm}.{fn}|_get_blob-args|{c.lineno - f.fi.node.lineno}")
    # "announced only if verified": what the announcer is handed comes from this query; a blob counts only with status 'finished' (written by blob_completed for
    # a BlobFile), whatever its announce flags say — as a top-level conjunct of the WHERE condition, not inside an OR
    from .. import sqlwhere
    ga = ctx.fa("lbry.extras.daemon.storage.SQLiteStorage.get_blobs_to_announce.<locals>.get_and_update")
    n = 0
    for c in ga.calls(name="execute"):
        if not c.args:
            continue
        try:
            sql = ev_str(c.args[0])
        except Exception:
            sql = None
        if sql is None or not sql.lstrip().lower().startswith("select"):
            continue
        n += 1
        try:
            cj = sqlwhere.conjuncts(sql)
        except ValueError as e:
            cj = [f"<unreadable: {e}>"]
        ok = "status='finished'" in cj and "blob_hash is not null" in cj
        ctx.ob("C01-D7/SQL", ok, ga.site(c), "the announce query selects finished blobs only: `status='finished'` is a top-level conjunct of its WHERE condition", detail="" if ok else
               "top-level conjuncts: " + " AND ".join(cj), func=ga.fi.qualname, key=f"C01-D7/SQL|announce|{n}")
    ctx.floor("C01-D7/SQL", "announce queries", n, 2, site=ga.site(), func=ga.fi.qualname)
    # blob objects are created by the manager only (two objects for one hash = two independent `writing` flags)
    R.callers_only(ctx, "C01-D6/CALLERS", "_get_blob", [f"{bm}.get_blob", f"{bm}.is_blob_verified", f"{bm}._get_blob"], "blob object factory", floor=2, module_prefix="lbry")


def check(ctx):
    _check_c01_second(ctx)
    siblings(ctx)
