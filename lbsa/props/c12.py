"""C12 — DHT network: announced blobs are findable until expiry and lookups terminate."""
import ast

from .. import AnalysisError
from ..astutil import dotted, call_name, unparse, norm_text, walk_local_body, kwarg, is_const
from ..consteval import Evaluator, Unknown
from ..exc import Hierarchy, handler_names
from .. import rules as R
from .. import terms

EXPLANATION = (
    "Necessary structural conditions of expiry, termination and output validity of the DHT lookups. Expiry: "
    "DATA_EXPIRATION folds to 86400 s, the reply filter keeps `ts + DATA_EXPIRATION > now`, the purge drops "
    "`< now`, every read of the announcement store that feeds a reply goes through filter_expired_peers, and every "
    "store (re-)announcement writes (contact, now) on every path (a re-announcement refreshes the 24 h). RPCs are "
    "time-bounded: the only await on a response future is wait_for(…, rpc_timeout), the future is registered "
    "before the datagram is sent, a timeout records a failure. Probe bookkeeping: a probe marks the peer contacted "
    "before its task starts, its done-callback frees the slot and re-runs the search round; a round schedules only "
    "uncontacted, non-self peers below ALPHA running probes and declares exhaustion exactly when nothing was added "
    "and nothing runs; every failure handler of a probe ends it without re-arming. Re-arming (removing a peer from "
    "`contacted`) must be guarded by a locally bounded quantity — today it is bounded only by a remote-supplied "
    "page count (known finding). Output validity: node lookups yield only peers with peer_is_good(...) is True and "
    "not the own id, and only an awaited reply marks a peer as having replied; value lookups yield only peers "
    "built by decode_tcp_peer_from_compact_address (port range and public IPv4 validated)."
)
EXACTNESS = "Second pass (DESIGN.md §10, exactness / completeness halves) — what a storing node records, purges, serves and pages; `store` / `find_value` validators and effects; request dispatch to the four RPCs with their arguments; value-finder accumulation, next-page request and re-arming; node-finder yield and end marker; peer validator; reply / request / sent records written by their own reporter only."
TECHNIQUE = "static analysis: constant folding, guard dominance, must-pass-through on all paths, who-may-call, tainted-bound (TBOUND) check on re-arming guards; exact fact-set comparison of the tests dominating each effect and refusal (effect / refusal tables), fall-through path queries"
NOT_DECIDED = ("NOT APPLICABLE to static analysis: that a blob announced by any node is stored on the closest nodes and found by every other node's "
               "lookup, paging completeness for up to 100 announcers, and the numeric bound on RPC timeouts — properties of a network of "
               "interacting event loops under a schedule; only necessary conditions of expiry/termination/validity are decided")
ASSUMPTIONS = ["asyncio.wait_for cancels and raises TimeoutError after the given timeout; done-callbacks run after the task finished"]

IF = "lbry.dht.protocol.iterative_find"
DS = "lbry.dht.protocol.data_store.DictDataStore"
PR = "lbry.dht.protocol.protocol.KademliaProtocol"


def check(ctx):
    prog = ctx.prog
    ev = Evaluator(prog)
    hier = Hierarchy(prog)
    expiry(ctx, prog, ev)
    rpc_timeout(ctx, prog, hier)
    bookkeeping(ctx, prog, ev, hier)
    rearm(ctx, prog, ev)
    validity(ctx, prog)


def expiry(ctx, prog, ev):
    consts = prog.module("lbry.dht.constants")
    try:
        exp = ev.name(consts, "DATA_EXPIRATION")
    except Unknown as e:
        raise AnalysisError(f"C12: DATA_EXPIRATION does not fold: {e}")
    ctx.ob("C12-D1/CONST", exp == 86400, "lbry/dht/constants.py:18", "DATA_EXPIRATION folds to 24 hours (86400 s)", detail=str(exp))
    fe = ctx.fa(f"{DS}.filter_expired_peers")
    ys = [n for n in fe.local_nodes(ast.Yield)]
    ctx.floor("C12-D1/GATE", "yield in filter_expired_peers", len(ys), 1, site=fe.site(), func=fe.fi.qualname)
    for y in ys:
        R.exact_gate(ctx, "C12-D1/GATE", fe, y, "ts + constants.DATA_EXPIRATION > now",
                     "an announcement is served exactly while it is younger than DATA_EXPIRATION", key=f"C12-D1/GATE|{fe.fi.qualname}|young")
        loop = fe.lexically_inside(y, lambda a: isinstance(a, ast.For))
        ok = loop is not None and unparse(loop.iter).startswith("self._data_store.get(") and unparse(loop.target) in ("(peer, ts)", "peer, ts") \
            and dotted(y.value) == "peer"
        ctx.ob("C12-D1/DEP", ok, fe.site(y), "the age tested is the stored timestamp of the peer that is yielded", func=fe.fi.qualname)
    nows = [s for s in fe.stmts(ast.Assign) if any(dotted(t) == "now" for t in s.targets)]
    ctx.ob("C12-D1/DEP", len(nows) == 1 and unparse(nows[0].value) == "self.loop.time()", fe.site(), "`now` is the event loop clock", func=fe.fi.qualname)
    rm = ctx.fa(f"{DS}.removed_expired_peers")
    apps = [c for c in rm.calls(name="append")]
    ok = bool(apps) and all(rm.guarded(c, "not (not ts + constants.DATA_EXPIRATION < now and not self._peer_manager.peer_is_good(peer) is False)")[0]
                            or rm.guarded(c, "ts + constants.DATA_EXPIRATION < now or self._peer_manager.peer_is_good(peer) is False")[0] for c in apps)
    ctx.ob("C12-D1/GATE", ok, rm.site(), "the purge drops entries older than DATA_EXPIRATION (or of bad peers), nothing younger", func=rm.fi.qualname)
    # the reply path goes through the filter
    gp = ctx.fa(f"{DS}.get_peers_for_blob")
    r = R.single_return_value(gp)
    ctx.ob("C12-D1/CALLERS", r is not None and unparse(r.value) == f"list(self.filter_bad_and_expired_peers({gp.fi.params()[1]}))", gp.site(),
           "get_peers_for_blob returns the filtered peers", func=gp.fi.qualname)
    fb = ctx.fa(f"{DS}.filter_bad_and_expired_peers")
    loops = fb.stmts(ast.For)
    ctx.ob("C12-D1/CALLERS", len(loops) == 1 and unparse(loops[0].iter) == f"self.filter_expired_peers({fb.fi.params()[1]})", fb.site(),
           "which in turn iterates filter_expired_peers", func=fb.fi.qualname)
    # nobody else reads the raw store
    sites = [(m, n, f) for m, n, f in R.ref_sites(prog, "_data_store", loads_only=False) if isinstance(n, ast.Attribute)]
    ctx.floor("C12-D1/CALLERS", "references to _data_store", len(sites), 5)
    allowed = {f"{DS}.{x}" for x in ("__init__", "keys", "__len__", "removed_expired_peers", "filter_expired_peers", "has_peers_for_blob",
                                      "add_peer_to_blob", "get_storing_contacts")}
    for m, n, f in sites:
        q = getattr(f, "qualname", m.name)
        ok = q in allowed or any(q.startswith(a + ".") for a in allowed)
        ctx.ob("C12-D1/CALLERS", ok, f"{m.relpath}:{n.lineno}", f"raw announcement store accessed in {q.rpartition('.')[2]}",
               detail="" if ok else "replies must read announcements through filter_expired_peers", func=q,
               key=f"C12-D1/CALLERS|{q}|_data_store")
    # protocol find_value / finder initial result read through get_peers_for_blob
    fv = ctx.fa("lbry.dht.protocol.protocol.KademliaRPC.find_value")
    ok = any(dotted(c.func) == "self.protocol.data_store.get_peers_for_blob" for c in fv.calls())
    ctx.ob("C12-D1/CALLERS", ok, fv.site(), "findValue replies take their peers from get_peers_for_blob", func=fv.fi.qualname)
    gi = ctx.fa(f"{IF}.IterativeValueFinder.get_initial_result")
    rets = [unparse(r.value) for r in gi.stmts(ast.Return) if r.value is not None]
    ctx.ob("C12-D1/CALLERS", set(rets) <= {"self.protocol.data_store.get_peers_for_blob(self.key)", "[]"}, gi.site(),
           "a lookup's local initial result is the filtered list", func=gi.fi.qualname)
    # every (re-)announcement (re)writes (contact, now)
    ad = ctx.fa(f"{DS}.add_peer_to_blob")
    contact, key = ad.fi.params()[1:3]

    def writes_entry(n):
        if isinstance(n, ast.Assign) and any(isinstance(t, ast.Subscript) and (dotted(t.value) or unparse(t.value)).startswith("self._data_store")
                                             for t in n.targets):
            v = n.value
            vs = v.elts if isinstance(v, ast.List) else [v]
            return all(isinstance(x, ast.Tuple) and [dotted(e) for e in x.elts] == [contact, "now"] for x in vs)
        if isinstance(n, ast.Call) and call_name(n) == "append" and unparse(n.func.value).startswith("self._data_store") and n.args:
            x = n.args[0]
            return isinstance(x, ast.Tuple) and [dotted(e) for e in x.elts] == [contact, "now"]
        return False
    p = ad.path([ad.cfg.entry], [ad.cfg.exit], avoid=lambda n: ad.evaluates(n, writes_entry) or
                (n.kind == "stmt" and writes_entry(n.ast)), include_exc=False)
    ctx.ob("C12-D1/FRESH", p is None, ad.site(), "every store (also a repeated one from the same peer) writes (contact, now): a "
           "re-announcement refreshes the expiry", detail="" if p is None else "path without a timestamp write: " + ad.fmt_path(p),
           func=ad.fi.qualname)
    nows = [s for s in ad.stmts(ast.Assign) if any(dotted(t) == "now" for t in s.targets)]
    ctx.ob("C12-D1/FRESH", len(nows) == 1 and unparse(nows[0].value) == "self.loop.time()", ad.site(), "the timestamp written is the current loop time",
           func=ad.fi.qualname)
    st = ctx.fa("lbry.dht.protocol.protocol.KademliaRPC.store")
    ok = any(dotted(c.func) == "self.protocol.data_store.add_peer_to_blob" for c in st.calls())
    ctx.ob("C12-D1/FRESH", ok, st.site(), "the store RPC records the announcement through add_peer_to_blob", func=st.fi.qualname)


def rpc_timeout(ctx, prog, hier):
    sr = ctx.fa(f"{PR}.send_request")
    q = sr.fi.qualname
    aw = [a for a in sr.local_nodes(ast.Await)]
    ctx.floor("C12-D2/TIMEOUT", "await in send_request", len(aw), 1, site=sr.site(), func=q)
    for a in aw:
        v = a.value
        ok = isinstance(v, ast.Call) and dotted(v.func) == "asyncio.wait_for" and len(v.args) == 2 and unparse(v.args[1]) == "self.rpc_timeout"
        ctx.ob("C12-D2/TIMEOUT", ok, sr.site(a), "the response is awaited through wait_for(…, rpc_timeout)", detail="" if ok else unparse(a)[:80], func=q)
    okh = False
    for tr in sr.stmts(ast.Try):
        for h in tr.handlers:
            if hier.catches(handler_names(h), "asyncio.TimeoutError", sr.fi.module) and "BaseException" not in handler_names(h):
                body = " ".join(unparse(s) for s in h.body)
                okh = "self.peer_manager.report_failure(" in body and isinstance(h.body[-1], ast.Raise)
    ctx.ob("C12-D2/TIMEOUT", okh, sr.site(), "a timeout records a failure for the peer and propagates", func=q)
    sd = ctx.fa(f"{PR}._send")
    reg = [s for s in sd.stmts(ast.Assign) if any(isinstance(t, ast.Subscript) and dotted(t.value) == "self.sent_messages" for t in s.targets)]
    snd = sd.calls(dotted_name="self.transport.sendto")
    ok = len(reg) == 1 and len(snd) == 1 and sd.must_precede(snd[0], lambda n: n is reg[0], assume=("isinstance(message, RequestDatagram)",)) is None
    ctx.ob("C12-D2/ORDER", ok, sd.site(), "the response future is registered before the request datagram leaves", func=sd.fi.qualname)
    cb = sd.calls(name="add_done_callback")
    ok = any(dotted(c.args[0]) == "pop_from_sent_messages" for c in cb if c.args)
    ctx.ob("C12-D2/ORDER", ok, sd.site(), "a finished (or timed out) request is removed from sent_messages", func=sd.fi.qualname)


def bookkeeping(ctx, prog, ev, hier):
    consts = prog.module("lbry.dht.constants")
    alpha = ev.name(consts, "ALPHA")
    ctx.ob("C12-D3/CONST", isinstance(alpha, int) and 1 <= alpha <= 16, "lbry/dht/constants.py:7", "ALPHA is a small positive constant", detail=str(alpha))
    sp = ctx.fa(f"{IF}.IterativeFinder._schedule_probe")
    q = sp.fi.qualname
    peer = sp.fi.params()[1]
    add = sp.calls(dotted_name="self.contacted.add")
    ct = [c for c in sp.calls(name="create_task") if c.args and unparse(c.args[0]) == f"self._send_probe({peer})"]
    ctx.floor("C12-D3/ORDER", "contacted.add / create_task in _schedule_probe", min(len(add), len(ct)), 1, site=sp.site(), func=q)
    if add and ct:
        ok = dotted(add[0].args[0]) == peer and sp.must_precede(ct[0], lambda n: n is add[0]) is None
        ctx.ob("C12-D3/ORDER", ok, sp.site(ct[0]), "a peer is marked contacted before its probe task starts (it is probed once)", func=q)
        tname = R.names_defined_by(sp, lambda v: v is ct[0])
        cbs = [c for c in sp.calls(name="add_done_callback") if tname and dotted(c.func.value) == tname[0] and c.args and dotted(c.args[0]) == "callback"]
        ctx.ob("C12-D3/PAIR", len(cbs) == 1, sp.site(), "every probe task gets the completion callback", func=q)
        rp = [s for s in sp.stmts(ast.Assign) if any(unparse(t) == f"self.running_probes[{peer}]" for t in s.targets)]
        ctx.ob("C12-D3/PAIR", len(rp) == 1 and tname and dotted(rp[0].value) == tname[0], sp.site(), "the task is recorded as a running probe", func=q)
    cb = ctx.fa(f"{IF}.IterativeFinder._schedule_probe.<locals>.callback")
    pops = [c for c in cb.calls(dotted_name="self.running_probes.pop") if c.args and dotted(c.args[0]) == peer]
    sr = cb.calls(dotted_name="self._search_round")
    ok = len(pops) == 1 and len(sr) == 1 and cb.must_precede(sr[0], lambda n: n is pops[0]) is None
    ctx.ob("C12-D3/PAIR", ok, cb.site(), "when a probe finishes (any outcome) its slot is freed and the next round runs", func=cb.fi.qualname)
    if sr:
        R.exact_gate(ctx, "C12-D3/GATE", cb, sr[0], "self.running", "the next round runs exactly while the search is running",
                     key=f"C12-D3/GATE|{cb.fi.qualname}|running")
    # search round
    rd = ctx.fa(f"{IF}.IterativeFinder._search_round")
    rq = rd.fi.qualname
    sch = rd.calls(dotted_name="self._schedule_probe")
    ctx.floor("C12-D3/GATE", "_schedule_probe in _search_round", len(sch), 1, site=rd.site(), func=rq)
    for c in sch:
        p = dotted(c.args[0])
        for g, what, k in ((f"{p} not in self.contacted", "only peers not yet contacted are probed", "uncontacted"),
                           ("len(self.running_probes) < constants.ALPHA", "at most ALPHA probes run at once", "alpha"),
                           (f"{p}.node_id != self.protocol.node_id", "the searching node never probes itself", "not-self"),
                           (f"({p}.address, {p}.udp_port) != (self.protocol.external_ip, self.protocol.udp_port)", "nor its own endpoint", "not-own-endpoint")):
            R.gate(ctx, "C12-D3/GATE", rd, c, g, what, key=f"C12-D3/GATE|{rq}|{k}")
        loop = rd.lexically_inside(c, lambda a: isinstance(a, ast.For))
        ctx.ob("C12-D3/DEP", loop is not None and "self.active" in unparse(loop.iter), rd.site(c), "candidates come from the active shortlist", func=rq)
        cnt = [s for s in rd.stmts(ast.AugAssign) if dotted(s.target) == "added" and isinstance(s.op, ast.Add)]
        ok = len(cnt) == 1 and R.stmt_of(c)._parent is cnt[0]._parent
        ctx.ob("C12-D3/DEP", ok, rd.site(c), "`added` counts exactly the probes scheduled in this round", func=rq)
    ex = rd.calls(dotted_name="self.search_exhausted")
    ctx.floor("C12-D3/GATE", "search_exhausted in _search_round", len(ex), 1, site=rd.site(), func=rq)
    for c in ex:
        R.exact_gate(ctx, "C12-D3/GATE", rd, c, "not added and not self.running_probes",
                     "the search ends exactly when a round added nothing and no probe is in flight", key=f"C12-D3/GATE|{rq}|exhausted")
        loop = rd.stmts(ast.For)
        ok = bool(loop) and rd.must_precede(c, lambda n: n is loop[0].iter or n is loop[0]) is None
    # failure handlers of a probe end it
    pb = ctx.fa(f"{IF}.IterativeFinder._send_probe")
    pq = pb.fi.qualname
    trs = pb.stmts(ast.Try)
    ctx.floor("C12-D3/HANDLER", "try in _send_probe", len(trs), 1, site=pb.site(), func=pq)
    for tr in trs:
        first = tr.body[0]
        ok = isinstance(first, ast.Assign) and isinstance(first.value, ast.Await) and unparse(first.value.value) == f"self.send_probe({pb.fi.params()[1]})"
        ctx.ob("C12-D3/HANDLER", ok, pb.site(tr), "the probe RPC is the guarded statement", func=pq)
        caught = [n for h in tr.handlers for n in handler_names(h)]
        need = ["asyncio.TimeoutError", "lbry.dht.error.RemoteException", "ValueError", "lbry.dht.error.TransportNotConnected"]
        miss = [e for e in need if not hier.catches(caught, e, pb.fi.module)]
        ctx.ob("C12-D3/HANDLER", not miss, pb.site(tr), "silence (timeout), remote errors, malformed replies (ValueError) and a closed transport "
               "are all handled", detail="" if not miss else f"not handled: {miss}", func=pq)
        for h in tr.handlers:
            last = h.body[-1]
            ends = isinstance(last, (ast.Return, ast.Raise))
            rearm = [c for s in h.body for c in ast.walk(s) if isinstance(c, ast.Call) and
                     (dotted(c.func) in ("self._schedule_probe", "self.contacted.remove", "self.contacted.discard", "self.contacted.clear"))]
            ctx.ob("C12-D3/HANDLER", ends and not rearm, pb.site(h), f"handler for {', '.join(handler_names(h))} ends the probe without re-arming it",
                   func=pq, key=f"C12-D3/HANDLER|{pq}|{'+'.join(handler_names(h))}")
    # who schedules probes
    R.callers_only(ctx, "C12-D3/CALLERS", "_schedule_probe", [f"{IF}.IterativeFinder.__init__", f"{IF}.IterativeFinder._search_round"],
                   "probe scheduling", floor=2)


def rearm(ctx, prog, ev):
    """TBOUND: anything that makes a contacted peer probe-able again must be bounded by a local quantity"""
    sites = []
    for m, node, kind, recv in prog.attr_writes("contacted"):
        if m.name != IF:
            continue
        if kind in ("call:remove", "call:discard", "call:clear", "call:pop", "delete", "assign", "item-delete"):
            f = prog.function_of(node)
            if f is not None and f.name == "__init__":
                continue
            sites.append((m, node, kind, recv, f))
    for m, node, kind, recv, f in sites:
        fa = ctx.eng.fa_of(f)
        have, F = R.atomic_facts_at(fa, node)
        # also the guards as they held on entry to each enclosing branch (the branch may update the counter
        # it tested before it re-arms)
        a = node
        while getattr(a, "_parent", None) is not None and a is not f.node:
            par = a._parent
            if isinstance(par, ast.If):
                body = par.body if a in par.body else par.orelse
                if body and body[0] is not node:
                    try:
                        h2, _ = R.atomic_facts_at(fa, body[0])
                        have = set(have) | set(h2)
                    except Exception:
                        pass
            a = par
        # names defined from the remote reply
        remote = set(R.names_defined_by(fa, lambda v: isinstance(v, ast.Call) and (call_name(v) in ("find_value", "find_node", "FindValueResponse",
                                                                                                "FindNodeResponse"))))
        local_bound, remote_bound = [], []
        for (t, p) in sorted(have):
            fi = F.info[(t, p)]
            if " <= " not in t:
                continue
            if "peer_pages" not in t and "page" not in t:
                continue
            if fi.names & remote or any(ch.split(".")[0] in remote for ch in fi.chains):
                remote_bound.append(("" if p else "not ") + t)
            else:
                local_bound.append(("" if p else "not ") + t)
        ok = bool(local_bound)
        ctx.ob("C12-D4/TBOUND", ok, fa.site(node), f"re-arming a contacted peer (`{unparse(node)[:50]}`) is bounded by a local quantity",
               detail="" if ok else f"the only bound on the page counter is remote-controlled: {remote_bound or 'none'} — a peer answering every page "
                                    f"with a full page and a huge page count is probed without end",
               func=f.qualname, key=f"C12-D4/TBOUND|{f.qualname}|contacted.{kind.split(':')[-1]}")
    ctx.floor("C12-D4/TBOUND", "sites that re-arm a contacted peer", len(sites), 1)


def validity(ctx, prog):
    pr = ctx.fa(f"{IF}.IterativeNodeFinder.put_result")
    q = pr.fi.qualname
    comps = [s for s in pr.stmts(ast.Assign) if isinstance(s.value, ast.ListComp)]
    ctx.floor("C12-D5/GATE", "filter in put_result", len(comps), 1, site=pr.site(), func=q)
    for s in comps:
        g = s.value.generators[0]
        v = dotted(g.target)
        conds = set()
        for i in g.ifs:
            conds |= set(terms.conj(i))
        need = {"replied": terms.parse_guard(f"self.peer_manager.peer_is_good({v}) is True")[0],
                "not-self": terms.parse_guard(f"{v}.node_id != self.protocol.node_id")[0],
                "once": terms.parse_guard(f"{v} not in self.yielded_peers")[0]}
        for k, t in need.items():
            ctx.ob("C12-D5/GATE", t in conds, pr.site(s), {"replied": "a node lookup yields only contacts that are known good (they replied)",
                                                           "not-self": "a node lookup never yields the searching node itself",
                                                           "once": "each contact is yielded once"}[k],
                   func=q, key=f"C12-D5/GATE|{q}|{k}")
        lst = dotted(s.targets[0])
        puts = [c for c in pr.calls(dotted_name="self.iteration_queue.put_nowait")]
        for c in puts:
            a = c.args[0]
            ok = is_const(a, None) or lst in {n.id for n in ast.walk(pr.expand(a, keep=(lst,))) if isinstance(n, ast.Name)}
            ctx.ob("C12-D5/DEP", ok, pr.site(c), "what is queued derives from the filtered list (or is the end marker)", func=q)
    # only an awaited reply marks a peer as replied
    R.callers_only(ctx, "C12-D5/CALLERS", "report_last_replied", [f"{PR}.send_request", f"{PR}.handle_response_datagram",
                                                                 "lbry.dht.peer.PeerManager"], "recording that a peer replied", floor=2)
    hr = ctx.fa(f"{PR}.handle_response_datagram")
    for c in hr.calls(name="report_last_replied"):
        R.gate(ctx, "C12-D5/GATE", hr, c, "response_datagram.rpc_id in self.sent_messages", "a reply counts only when it answers a pending request",
               key=f"C12-D5/GATE|{hr.fi.qualname}|pending")
    pg = ctx.fa("lbry.dht.peer.PeerManager.contact_triple_is_good")
    rt = [r for r in pg.stmts(ast.Return) if is_const(r.value, True)]
    ok = bool(rt) and all(pg.guarded(r, "last_replied")[0] for r in rt)
    ctx.ob("C12-D5/GATE", ok, pg.site(), "a peer is 'good' only if a reply from it was recorded", func=pg.fi.qualname)
    # value lookups: queue only decoded, validated peers
    cr = ctx.fa(f"{IF}.IterativeValueFinder.check_result_ready")
    for c in cr.calls(dotted_name="self.iteration_queue.put_nowait"):
        src = cr.sources(c.args[0])
        apps = [x for x in cr.calls(name="append") if dotted(x.func.value) == dotted(c.args[0])]
        ok = bool(apps) and all("decode_tcp_peer_from_compact_address" in cr.sources(x.args[0])["calls"] for x in apps)
        ctx.ob("C12-D5/DEP", ok, cr.site(c), "a value lookup yields only peers built by decode_tcp_peer_from_compact_address", func=cr.fi.qualname)
    dc = ctx.fa("lbry.dht.peer.decode_tcp_peer_from_compact_address")
    r = R.single_return_value(dc)
    ok = r is not None and unparse(r.value) == "make_kademlia_peer(node_id, address, udp_port=None, tcp_port=tcp_port)" and \
        any(call_name(c) == "decode_compact_address" for c in dc.calls())
    ctx.ob("C12-D5/DEP", ok, dc.site(), "compact address -> decode_compact_address -> make_kademlia_peer(tcp_port=…)", func=dc.fi.qualname)
    pi = ctx.fa("lbry.dht.peer.KademliaPeer.__post_init__")
    rk = R.raise_kinds(pi)
    okp = any(pi.guarded(x, "self.tcp_port is not None and not 1024 <= self.tcp_port <= 65535")[0] for x, k in rk)
    oki = any(pi.guarded(x, "not is_valid_public_ipv4(self.address, self.allow_localhost)")[0] for x, k in rk)
    ctx.ob("C12-D5/GATE", okp and oki and all(k == "ValueError" for _, k in rk), pi.site(), "a peer object exists only with a port in 1024..65535 and a public IPv4 address",
           func=pi.fi.qualname)
    # base search_exhausted / _aclose only queue the end marker
    for qn in (f"{IF}.IterativeFinder.search_exhausted", f"{IF}.IterativeFinder._aclose"):
        fa = ctx.fa(qn)
        for c in fa.calls(dotted_name="self.iteration_queue.put_nowait"):
            ctx.ob("C12-D5/DEP", is_const(c.args[0], None), fa.site(c), "only the end marker is queued here", func=fa.fi.qualname)


# --------------------------------------------------------------------------------------------- paging agreement
from ..consteval import eval_with

_base_check = check


def check(ctx):            # noqa: F811
    _base_check(ctx)
    paging(ctx, ctx.prog, Evaluator(ctx.prog))
    page_fits(ctx, ctx.prog, Evaluator(ctx.prog))
    public_address(ctx, ctx.prog)
    # "whatever subset of contacted nodes … answers with garbage": the reader that takes those answers apart terminates and refuses — C17's rule instances
    R.share(ctx, "C17", {"C17-D1": "C12-D7"})


def public_address(ctx, prog):
    """value lookups yield 'well-formed public peer addresses': the predicate every KademliaPeer is validated with refuses each non-public class"""
    f = ctx.fa("lbry.utils.is_valid_public_ipv4")
    ad = f.fi.params()[0]
    anys = [c for c in f.calls(name="any") if c.args and isinstance(c.args[0], (ast.Tuple, ast.List))]
    refuse = [c for c in anys if (lambda st: isinstance(st, ast.If) and any(x is c for x in ast.walk(st.test)))(R.stmt_of(c))]
    ctx.floor("C12-D8/PUBLIC", "the refusal test of is_valid_public_ipv4", len(refuse), 1, site=f.site(), func=f.fi.qualname)
    want = {"parsed_ip.version != 4", "parsed_ip.is_unspecified", "parsed_ip.is_link_local", "parsed_ip.is_loopback", "parsed_ip.is_multicast", "parsed_ip.is_reserved", "parsed_ip.is_private"}
    for c in refuse:
        got = {terms._txt(e) if hasattr(terms, "_txt") else unparse(e) for e in c.args[0].elts}
        got = {g.replace("4 != parsed_ip.version", "parsed_ip.version != 4") for g in got}
        st = R.stmt_of(c)
        ok = want <= got and all(isinstance(x, ast.Return) and is_const(x.value, False) for x in st.body)
        ctx.ob("C12-D8/PUBLIC", ok, f.site(c), "refused: not IPv4, unspecified, link-local, loopback, multicast, reserved, private — each class is tested by name "
               "(`is_global` is no substitute: Python reports 224.0.0.0/4 as global)", detail="" if ok else f"missing: {sorted(want - got)}", func=f.fi.qualname, key="C12-D8/PUBLIC|classes")
    ps = [s for s in f.stmts(ast.Assign) if len(s.targets) == 1 and dotted(s.targets[0]) == "parsed_ip"]
    ok = len(ps) == 1 and unparse(ps[0].value) == f"ipaddress.ip_address({ad})"
    ctx.ob("C12-D8/PUBLIC", ok, f.site(), "the classes are those of ipaddress.ip_address(<the address>)", func=f.fi.qualname, key="C12-D8/PUBLIC|parsed")
    nets = {"CARRIER_GRADE_NAT_SUBNET": "100.64.0.0/10", "IPV4_TO_6_RELAY_SUBNET": "192.88.99.0/24"}
    for nm, net in nets.items():
        v = f.fi.module.assigns.get(nm)
        ok = v is not None and unparse(v) == f"ipaddress.ip_network('{net}')"
        used = any(isinstance(n, ast.Name) and n.id == nm for n in ast.walk(f.fi.node))
        ctx.ob("C12-D8/PUBLIC", ok and used, f.site(), f"{net} (not flagged by the ipaddress module) is refused as well", func=f.fi.qualname, key=f"C12-D8/PUBLIC|{nm}")
    # handlers: an unparsable address is refused, never raised
    hs = [h for t in f.stmts(ast.Try) for h in t.handlers]
    ok = bool(hs) and all(all(isinstance(x, ast.Return) and is_const(x.value, False) for x in h.body) for h in hs) and \
        any("ValueError" in unparse(h.type) for h in hs if h.type is not None)
    ctx.ob("C12-D8/PUBLIC", ok, f.site(), "an address that does not parse is refused (ValueError handled → False)", func=f.fi.qualname, key="C12-D8/PUBLIC|unparsable")
    w = ctx.fa("lbry.dht.peer.is_valid_public_ipv4")
    rets = w.stmts(ast.Return)
    tgt = prog.resolve_name(w.fi.module, "_is_valid_public_ipv4")
    ok = bool(rets) and all(isinstance(r.value, ast.Call) and dotted(r.value.func) == "_is_valid_public_ipv4" and r.value.args and dotted(r.value.args[0]) == w.fi.params()[0]
                            and not any(k.arg == "allow_lan" for k in r.value.keywords) and len(r.value.args) <= 2 for r in rets) and getattr(tgt, "qualname", None) == "lbry.utils.is_valid_public_ipv4"
    ctx.ob("C12-D8/PUBLIC", ok, w.site(), "the DHT's validator is that predicate applied to the peer's address (LAN addresses never allowed)", func=w.fi.qualname, key="C12-D8/PUBLIC|wrapper")


def page_fits(ctx, prog, ev):
    """a full findValue page must be sendable: _send refuses datagrams above MSG_SIZE_LIMIT, and the storing node then answers the request with an error
    — announcers get no store token, announcements reach too few nodes.  Worst case of one reply, from the constants (bencode: a string of n bytes
    costs len(str(n)) + 1 + n; integers as i…e): header d i0e i1e i1e <rpc id> i2e <node id> i3e … e; result {token, protocolVersion, contacts: K triples
    (node id, dotted quad ≤ 15 chars, port ≤ 65535), <blob hash>: K compact addresses (4 + 2 + id length), p: page count}."""
    cm = prog.module("lbry.dht.constants")
    try:
        K, H, RL, LIM = (ev.name(cm, n) for n in ("K", "HASH_LENGTH", "RPC_ID_LENGTH", "MSG_SIZE_LIMIT"))
        ok = all(isinstance(x, int) for x in (K, H, RL, LIM))
    except Unknown:
        ok = False
    if not ok:
        ctx.ob("C12-D6/FITS", False, "lbry/dht/constants.py:1", "K, HASH_LENGTH, RPC_ID_LENGTH and MSG_SIZE_LIMIT fold to integers", key="C12-D6/FITS|consts")
        return

    def enc(n):
        return len(str(n)) + 1 + n
    header = 1 + (3 + 3) + (3 + enc(RL)) + (3 + enc(H)) + 3 + 1
    result = 2 + (7 + enc(H)) + (18 + 3) + (10 + 2 + K * (2 + enc(H) + enc(15) + 7)) + (enc(H) + 2 + K * enc(6 + H)) + (3 + 5)
    need = header + result
    ctx.ob("C12-D6/FITS", LIM >= need, "lbry/dht/constants.py:1", f"MSG_SIZE_LIMIT admits a full findValue reply (token, K contacts, a page of K peers): {need} bytes in the worst case",
           detail=f"MSG_SIZE_LIMIT = {LIM}, K = {K}, id length = {H}, rpc id length = {RL}", key="C12-D6/FITS|page")
    sd = ctx.fa("lbry.dht.protocol.protocol.KademliaProtocol._send")
    cmp_ = [n for n in sd.local_nodes(ast.Compare) if "MSG_SIZE_LIMIT" in unparse(n)]
    ok = len(cmp_) == 1 and R.same_test(cmp_[0], "len(data) > constants.MSG_SIZE_LIMIT")
    ctx.ob("C12-D6/FITS", ok, sd.site(), "_send refuses exactly the datagrams longer than MSG_SIZE_LIMIT", func=sd.fi.qualname, key="C12-D6/FITS|send-test")


def paging(ctx, prog, ev):
    """reader/writer agreement of the findValue paging arithmetic, enumerated over the announcer counts the
    property quantifies over (1..100): the expressions are taken from the source and evaluated over the finite
    range by the checker's own expression evaluator (no repository code runs)."""
    fv = ctx.fa("lbry.dht.protocol.protocol.KademliaRPC.find_value")
    q = fv.fi.qualname
    mod = fv.fi.module
    page = fv.fi.params()[3]
    # writer: page count, serve condition, slice
    pc = [s for s in fv.stmts(ast.Assign) if any(unparse(t) == "response[PAGE_KEY]" for t in s.targets) and not is_const(s.value, 0)]
    serve = [s for s in fv.stmts(ast.Assign) if any(unparse(t) == f"response[{fv.fi.params()[2]}]" for t in s.targets)]
    ctx.floor("C12-D6/PAGING", "page count / page slice in find_value", min(len(pc), len(serve)), 1, site=fv.site(), func=q)
    sp = ctx.fa(f"{IF}.IterativeValueFinder.send_probe")
    inc = [s for s in sp.stmts(ast.AugAssign) if unparse(s.target) == "self.peer_pages[peer]"]
    ctx.floor("C12-D6/PAGING", "page increment in send_probe", len(inc), 1, site=sp.site(), func=sp.fi.qualname)
    if not (pc and serve and inc):
        return
    pages_expr = pc[0].value
    sl = serve[0].value
    ifs = fv.lexically_inside(serve[0], lambda a: isinstance(a, ast.If))
    okshape = isinstance(sl, ast.Subscript) and isinstance(sl.slice, ast.Slice) and dotted(sl.value) == "peers" and ifs is not None
    ctx.ob("C12-D6/PAGING", okshape, fv.site(serve[0]), "a page is a slice of the peer list under a serve condition", func=q)
    cont_if = sp.lexically_inside(inc[0], lambda a: isinstance(a, ast.If))
    if not okshape or cont_if is None:
        return
    # the request carries the client's page index
    rq = [c for c in sp.calls(name="find_value") if kwarg(c, "page") is not None]
    okreq = len(rq) == 1 and sp.expanded_text(kwarg(rq[0], "page")) == "self.peer_pages[peer]"
    ctx.ob("C12-D6/PAGING", okreq, sp.site(), "the client requests the page index it tracks for that peer", func=sp.fi.qualname)
    try:
        K = ev.name(prog.module("lbry.dht.constants"), "K")
        lost, extra_rpcs = [], 0
        for n in range(1, 101):
            p, got = 0, 0
            P = eval_with(prog, mod, pages_expr, {"len(peers)": n})
            for _ in range(64):
                if not eval_with(prog, mod, ifs.test, {"len(peers)": n, page: p}):
                    break
                lo = eval_with(prog, mod, sl.slice.lower, {page: p}) if sl.slice.lower is not None else 0
                hi = eval_with(prog, mod, sl.slice.upper, {page: p}) if sl.slice.upper is not None else n
                chunk = max(0, min(hi, n) - min(lo, n))
                got += chunk
                cont = eval_with(prog, sp.fi.module, cont_if.test, {"len(parsed.found_compact_addresses)": chunk, "self.peer_pages[peer]": p,
                                                                      "parsed.pages": P})
                if not cont:
                    break
                p += 1
            if got != n:
                lost.append((n, got))
        ok = not lost
        detail = "" if ok else "announcers -> returned: " + ", ".join(f"{n}->{g}" for n, g in lost[:12]) + (" …" if len(lost) > 12 else "")
    except Unknown as e:
        ok, detail = False, f"paging expressions do not fold: {e}"
    ctx.ob("C12-D6/PAGING", ok, fv.site(pc[0]), f"for every announcer count 1..100 the client's continuation test `{unparse(cont_if.test)[:80]}` fetches "
           f"every page the server's count `{unparse(pages_expr)}` and slice `{unparse(sl)}` serve", detail=detail, func=q,
           key=f"C12-D6/PAGING|{q}|agreement")


_base_check_c12 = check


def check(ctx):            # noqa: F811  (extends the rules above)
    _base_check_c12(ctx)
    handlers(ctx, ctx.prog)


def handlers(ctx, prog):
    """the local halves of 'announced blobs are findable': what a storing node records, serves and pages, and what a searching node
    accumulates and yields — each effect under exactly the handler's own tests"""
    from ..astutil import norm_text
    DS = "lbry.dht.protocol.data_store.DictDataStore"
    RPC = "lbry.dht.protocol.protocol.KademliaRPC"
    IF = "lbry.dht.protocol.iterative_find"
    # --- store bookkeeping
    ad = ctx.fa(f"{DS}.add_peer_to_blob")
    c, k = ad.fi.params()[1:3]
    vocab = [f"{k} in self._data_store", "len(current) > 0"]
    R.effect_table(ctx, "C12-D1/STORE", ad, vocab, [
        (f"self._data_store[{k}] = [({c}, now)]", f"not {k} in self._data_store", "the first announcement of a blob creates its list"),
        (f"self._data_store[{k}].append(({c}, now))", f"{k} in self._data_store and not len(current) > 0", "a new announcer is appended"),
        (f"self._data_store[{k}][self._data_store[{k}].index(current[0])] = ({c}, now)", f"{k} in self._data_store and len(current) > 0", "a known announcer's entry is replaced (fresh timestamp)"),
    ], "store: ")
    cur = [x for x in ad.stmts(ast.Assign) if any(dotted(t) == "current" for t in x.targets)]
    lam = [n for x in cur for n in ast.walk(x.value) if isinstance(n, ast.Lambda)]
    ok = len(cur) == 1 and len(lam) == 1 and R.same_test(lam[0].body, f"{lam[0].args.args[0].arg}[0] == {c}") and \
        norm_text(cur[0].value) == f"list(filter({norm_text(lam[0])}, self._data_store[{k}]))"
    ctx.ob("C12-D1/STORE", ok, ad.site(), "store: 'known announcer' = an entry of this blob whose contact equals the announcing contact", func=ad.fi.qualname, key="C12-D1/STORE|current")
    rm = ctx.fa(f"{DS}.removed_expired_peers")
    q = rm.fi.qualname
    R.effect_table(ctx, "C12-D1/STORE", rm, ["ts + constants.DATA_EXPIRATION < now", "self._peer_manager.peer_is_good(peer) is False", "self._data_store[key]"], [
        ("to_remove.append((peer, ts))", "", "purge: an expired (or bad-peer) entry is marked"),
        ("self._data_store[key].remove(item)", "", "purge: every marked entry is removed"),
        ("del self._data_store[key]", "not self._data_store[key]", "purge: a blob without entries is forgotten"),
    ], "")
    fb = ctx.fa(f"{DS}.filter_bad_and_expired_peers")
    ys = list(fb.local_nodes(ast.Yield))
    ok = len(ys) == 1 and dotted(ys[0].value) == "peer"
    ctx.ob("C12-D1/STORE", ok, fb.site(), "serve: unexpired peers are passed on", func=fb.fi.qualname)
    for y in ys:
        R.exact_gate(ctx, "C12-D1/STORE", fb, R.stmt_of(y), "self._peer_manager.peer_is_good(peer) is not False", "serve: …unless the peer is known bad — no further condition",
                     key="C12-D1/STORE|serve-exact")
    fe = ctx.fa(f"{DS}.filter_expired_peers")
    for y in fe.local_nodes(ast.Yield):
        R.exact_gate(ctx, "C12-D1/STORE", fe, R.stmt_of(y), "ts + constants.DATA_EXPIRATION > now", "serve: every unexpired announcement is served — no further condition", key="C12-D1/STORE|unexpired-exact")
    ok = any(norm_text(f.iter) == f"self._data_store.get({fe.fi.params()[1]}, [])" and norm_text(f.target) == "(peer, ts)" for f in fe.stmts(ast.For))
    ctx.ob("C12-D1/STORE", ok, fe.site(), "serve: the entries looked at are those stored under the requested key", func=fe.fi.qualname)
    # --- store RPC
    st = ctx.fa(f"{RPC}.store")
    _, rc, bh, tok, port = st.fi.params()
    R.refusal_table(ctx, "C12-D1/RPC", st, [("invalid length of blob hash", f"len({bh}) != constants.HASH_BITS // 8"), ("invalid tcp port", f"not 0 < {port} < 65535"),
                                             ("Invalid token", f"not self.verify_token({tok}, {rc}.compact_ip()) and not self.loop.time() - self.protocol.started_listening_time < constants.TOKEN_SECRET_REFRESH_INTERVAL")],
                    "store RPC")
    for c_ in st.calls(name="add_peer_to_blob"):
        ok = [norm_text(a) for a in c_.args] == [rc, bh]
        ctx.ob("C12-D1/RPC", ok, st.site(c_), "store RPC: the announcement recorded is (requesting contact, blob hash)", func=st.fi.qualname)
        R.only_terms(ctx, "C12-D1/RPC", st, c_, [f"len({bh}) != constants.HASH_BITS // 8", f"0 < {port} < 65535", f"self.verify_token({tok}, {rc}.compact_ip())",
                                                  "self.loop.time() - self.protocol.started_listening_time < constants.TOKEN_SECRET_REFRESH_INTERVAL"],
                     "store RPC: every well-formed, authorised request is recorded", key="C12-D1/RPC|store|record-always")
    ok = any(norm_text(x) == f"{rc}.update_tcp_port({port})" for x in st.stmts(ast.Expr))
    ctx.ob("C12-D1/RPC", ok, st.site(), "store RPC: the announcer's TCP port is taken from the request (it is what value lookups hand out)", func=st.fi.qualname, key="C12-D1/RPC|store|port")
    # --- find_value RPC
    fv = ctx.fa(f"{RPC}.find_value")
    q = fv.fi.qualname
    _, rc, key, page = fv.fi.params()
    vocab = [f"len({key}) != constants.HASH_LENGTH", page, "self.protocol.protocol_version", "len(peers) < constants.K", f"{key}.hex() in self.protocol.data_store.completed_blobs", "peers",
             "len(peers) > constants.K", f"{page} * constants.K < len(peers)"]
    R.refusal_table(ctx, "C12-D6/RPC", fv, [("invalid blob_exchange hash length", f"len({key}) != constants.HASH_LENGTH")], "find_value RPC")
    R.effect_table(ctx, "C12-D6/RPC", fv, vocab, [
        (f"{page} = {page} if {page} > 0 else 0", "", "negative page numbers are clamped to 0"),
        (f"response[b'contacts'] = self.find_node({rc}, {key})[:constants.K]", f"not {page}", "the first page also carries the K closest contacts (the lookup can continue)"),
        ("peers.append(self.compact_address())", f"len(peers) < constants.K and {key}.hex() in self.protocol.data_store.completed_blobs", "a node that holds the blob itself lists itself"),
        ("response[PAGE_KEY] = 0", "not peers", "no peers: zero pages"),
        ("response[PAGE_KEY] = (len(peers) + constants.K - 1) // constants.K", "peers", "page count = ceil(peers / K)"),
        (f"response[{key}] = peers[{page} * constants.K:{page} * constants.K + constants.K]", f"{page} * constants.K < len(peers)", "the requested page is the K peers from index page·K"),
        ("return response", "", "the response is returned"),
    ], "find_value RPC: ")
    pl = [x for x in fv.stmts(ast.Assign) if any(dotted(t) == "peers" for t in x.targets)]
    ok = len(pl) == 1 and isinstance(pl[0].value, ast.ListComp) and norm_text(pl[0].value.elt) == "peer.compact_address_tcp()" and \
        norm_text(pl[0].value.generators[0].iter) == f"self.protocol.data_store.get_peers_for_blob({key})" and len(pl[0].value.generators[0].ifs) == 1 and \
        R.same_test(pl[0].value.generators[0].ifs[0], f"not {rc}.tcp_port or peer.compact_address_tcp() != {rc}.compact_address_tcp()")
    ctx.ob("C12-D6/RPC", ok, fv.site(), "find_value RPC: the peers served are the stored announcers of that key (compact TCP address), except the requester itself", func=q,
           key="C12-D6/RPC|peers")
    # --- value finder accumulation
    cr = ctx.fa(f"{IF}.IterativeValueFinder.check_result_ready")
    rs = cr.fi.params()[1]
    R.effect_table(ctx, "C12-D5/YIELD", cr, [f"{rs}.found", "blob_peer not in self.blob_peers", "to_yield"], [
        ("self.blob_peers.add(blob_peer)", f"{rs}.found and blob_peer not in self.blob_peers", "a peer not seen before is remembered"),
        ("to_yield.append(blob_peer)", f"{rs}.found", "…and queued for the caller"),
        ("self.iteration_queue.put_nowait(to_yield)", f"{rs}.found and to_yield", "new peers are handed to the caller"),
    ], "value lookup: ")
    ok = any(norm_text(R.prev_stmt(x) or ast.Pass()) == "self.blob_peers.add(blob_peer)" for x in cr.stmts(ast.Expr) if norm_text(x) == "to_yield.append(blob_peer)")
    ctx.ob("C12-D5/YIELD", ok, cr.site(), "value lookup: queueing follows remembering in the same branch", func=cr.fi.qualname)
    sp = ctx.fa(f"{IF}.IterativeValueFinder.send_probe")
    pr = sp.fi.params()[1]
    R.effect_table(ctx, "C12-D5/YIELD", sp, ["parsed.found", f"len(self.discovered_peers[{pr}]) != already_known + len(parsed.found_compact_addresses)",
                                              "len(parsed.found_compact_addresses) >= constants.K", f"self.peer_pages[{pr}] < parsed.pages", f"{pr} in self.contacted"], [
        (f"self.discovered_peers[{pr}].update(decoded_peers)", "parsed.found", "every decoded peer of a page is recorded for that contact"),
        ("decoded_peers.add(decode_tcp_peer_from_compact_address(compact_addr))", "parsed.found", "every compact address of the page is decoded"),
        (f"self.peer_pages[{pr}] += 1", f"parsed.found and not len(self.discovered_peers[{pr}]) != already_known + len(parsed.found_compact_addresses) and "
         f"len(parsed.found_compact_addresses) >= constants.K and self.peer_pages[{pr}] < parsed.pages", "the next page is requested after a full, duplicate-free page when more pages are announced"),
        (f"self.contacted.remove({pr})", f"parsed.found and len(parsed.found_compact_addresses) >= constants.K and {pr} in self.contacted",
         "…and the contact is re-armed so that it is probed for that page"),
    ], "value lookup: ")
    rets = sp.stmts(ast.Return)
    ok = len(rets) >= 2 and all(dotted(r.value) == "parsed" for r in rets) and sp.path([sp.cfg.entry], [sp.cfg.exit], avoid=lambda n: n.kind == "return", include_exc=False) is None
    ctx.ob("C12-D5/YIELD", ok, sp.site(), "value lookup: the parsed response is returned on every path (it is what check_result_ready inspects)", func=sp.fi.qualname)
    ok = any(norm_text(x) == "parsed = FindValueResponse(self.key, response)" for x in sp.stmts(ast.Assign)) and \
        any(norm_text(x) == f"response = await self.protocol.get_rpc_peer({pr}).find_value(self.key, page=page)" for x in sp.stmts(ast.Assign)) and \
        any(norm_text(x) == f"page = self.peer_pages[{pr}]" for x in sp.stmts(ast.Assign))
    ctx.ob("C12-D5/YIELD", ok, sp.site(), "value lookup: the probe asks this contact for this key at the tracked page and parses the reply against the key", func=sp.fi.qualname)
    # --- node finder
    prq = ctx.fa(f"{IF}.IterativeNodeFinder.put_result")
    fi_, fin = prq.fi.params()[1:3]
    R.effect_table(ctx, "C12-D5/YIELD", prq, ["to_yield", fin], [
        ("self.yielded_peers.update(to_yield)", "to_yield", "yielded contacts are remembered"),
        ("self.iteration_queue.put_nowait(to_yield)", "to_yield", "…and handed to the caller"),
        ("self.iteration_queue.put_nowait(None)", fin, "the end-of-search marker is queued when the search finishes (the consumer terminates on it)"),
    ], "node lookup: ")
    se = ctx.fa(f"{IF}.IterativeNodeFinder.search_exhausted")
    ok = any(norm_text(x) == "self.put_result(self.active.keys(), finish=True)" for x in se.stmts(ast.Expr))
    ctx.ob("C12-D5/YIELD", ok, se.site(), "node lookup: an exhausted search flushes the active contacts with finish=True", func=se.fi.qualname)
    be = ctx.fa(f"{IF}.IterativeFinder.search_exhausted")
    ok = any(norm_text(x) == "self.iteration_queue.put_nowait(None)" and not R.atomic_facts_at(be, x)[0] for x in be.stmts(ast.Expr))
    ctx.ob("C12-D4/END", ok, be.site(), "an exhausted search always queues the end marker (the async iterator stops on it instead of waiting forever)", func=be.fi.qualname, key="C12-D4/END|exhausted")
    # --- request dispatch
    hr = ctx.fa("lbry.dht.protocol.protocol.KademliaProtocol._handle_rpc")
    sc, msg = hr.fi.params()[1:3]
    mv = ["method not in [b'ping', b'store', b'findNode', b'findValue']", f"{msg}.args", f"isinstance({msg}.args[-1], dict)", f"b'protocolVersion' in {msg}.args[-1]",
          "method == b'ping'", "method == b'store'", "method == b'findNode'", "method == b'findValue'", f"{sc}.node_id != self.node_id"]
    R.refusal_table(ctx, "C12-D6/DISPATCH", hr, [("Invalid method", "method not in [b'ping', b'store', b'findNode', b'findValue']")], "request dispatch", extra_terms=mv)
    R.effect_table(ctx, "C12-D6/DISPATCH", hr, mv, [
        (f"method = {msg}.method", "", "the method is the request's"),
        (f"args, kwargs = (tuple({msg}.args[:-1]), {msg}.args[-1])", f"{msg}.args and isinstance({msg}.args[-1], dict) and b'protocolVersion' in {msg}.args[-1]",
         "new-style arguments: everything but the trailing dict is positional, the dict carries the keywords (page)"),
        (f"args, kwargs = self._migrate_incoming_rpc_args({sc}, {msg}.method, *{msg}.args)", "", "old-style arguments are migrated"),
        ("result = self.node_rpc.ping()", "method == b'ping'", "ping is answered by the ping RPC"),
        ("blob_hash, token, port, original_publisher_id, age = args[:5]", "not method == b'ping' and method == b'store'", "store takes its five positional arguments"),
        (f"result = self.node_rpc.store({sc}, blob_hash, token, port)", "not method == b'ping' and method == b'store'", "…and records the sender for that blob hash, token and port"),
        ("key = args[0]", "not method == b'ping' and not method == b'store'", "lookups take the key first"),
        ("page = kwargs.get(PAGE_KEY, 0)", "not method == b'ping' and not method == b'store'", "…and the page keyword (0 by default)"),
        (f"result = self.node_rpc.find_node({sc}, key)", "method == b'findNode'", "findNode is answered by the node lookup"),
        (f"result = self.node_rpc.find_value({sc}, key, page)", "not method == b'findNode'", "findValue by the value lookup, with the requested page"),
        (f"self.send_response({sc}, ResponseDatagram(RESPONSE_TYPE, {msg}.rpc_id, self.node_id, result))", "", "the result goes back under the request's rpc id and this node's id"),
    ], "request dispatch: ")
    kp = ctx.fa("lbry.dht.peer.KademliaPeer.__post_init__")
    R.refusal_table(ctx, "C12-D5/VALID", kp, [
        ("invalid node_id", "self._node_id is not None and not len(self._node_id) == constants.HASH_LENGTH"),
        ("invalid udp port", "self.udp_port is not None and not 1024 <= self.udp_port <= 65535"),
        ("invalid tcp port", "self.tcp_port is not None and not 1024 <= self.tcp_port <= 65535"),
        ("invalid ip address", "not is_valid_public_ipv4(self.address, self.allow_localhost)"),
    ], "peer validator")
    mk = ctx.fa("lbry.dht.peer.make_kademlia_peer")
    r = R.single_return_value(mk)
    nid, ad_, up, tp, al = mk.fi.params()[:5]
    ok = r is not None and norm_text(r.value) == f"KademliaPeer({ad_}, {nid}, {up}, tcp_port={tp}, allow_localhost={al})" and is_const(mk.node.args.defaults[-1], False)
    ctx.ob("C12-D5/VALID", ok, mk.site(), "make_kademlia_peer builds the validated peer from exactly its arguments (localhost not allowed by default)", func=mk.fi.qualname)
    # "contacts that actually replied": the reply record is written by report_last_replied only, and that is called from the response handler only
    PM = "lbry.dht.peer.PeerManager"
    for attr, owner in (("_last_replied", "report_last_replied"), ("_last_requested", "report_last_requested"), ("_last_sent", "report_last_sent")):
        sites = []
        for f in prog.functions.values():
            if not f.module.name.startswith("lbry.dht"):
                continue
            for x in walk_local_body(f.node):
                if isinstance(x, (ast.Assign, ast.AugAssign)):
                    for t in (x.targets if isinstance(x, ast.Assign) else [x.target]):
                        if isinstance(t, ast.Subscript) and isinstance(t.value, ast.Attribute) and t.value.attr == attr:
                            sites.append((f, x))
        ok = len(sites) == 1 and sites[0][0].qualname == f"{PM}.{owner}"
        ctx.ob("C12-D5/WRITERS", ok, sites[0][0].site(sites[0][1]) if sites else "lbry/dht/peer.py:1", f"`{attr}` entries are written by PeerManager.{owner} only (a request or a sent datagram is not a reply)",
               detail=str([f.qualname for f, _x in sites]), key=f"C12-D5/WRITERS|{attr}")
        if ok:
            f, x = sites[0]
            a, u = f.params()[1:3]
            okv = norm_text(x.targets[0].slice) == f"({a}, {u})" and dotted(x.value) == "now" and any(norm_text(y) == "now = self._loop.time()" for y in ast.walk(f.node) if isinstance(y, ast.Assign))
            ctx.ob("C12-D5/WRITERS", okv, f.site(x), f"…keyed by the (address, udp port) reported, with the current loop time", func=f.qualname, key=f"C12-D5/WRITERS|{attr}|value")
    R.callers_only(ctx, "C12-D5/CALLERS", "report_last_replied", ["lbry.dht.protocol.protocol.KademliaProtocol.handle_response_datagram",
                                                                     "lbry.dht.protocol.protocol.KademliaProtocol.send_request"], "a reply is recorded", floor=2, module_prefix="lbry.dht")
    sr = ctx.fa("lbry.dht.protocol.protocol.KademliaProtocol.send_request")
    for c in sr.calls(name="report_last_replied"):
        aw = [a for a in sr.local_nodes(ast.Await) if "wait_for(response_fut" in norm_text(a)]
        ok = bool(aw) and sr.must_precede(c, lambda n: n is aw[0]) is None and R.in_handler(c, sr) is None
        ctx.ob("C12-D5/CALLERS", ok, sr.site(c), "…in send_request only after the awaited response future delivered (never from a timeout / cancellation handler)", func=sr.fi.qualname)
    pg = ctx.fa(f"{PM}.contact_triple_is_good")
    t = unparse(pg.node)
    ok = "last_replied = self._last_replied.get((address, udp_port))" in t and "last_requested = self._last_requested.get((address, udp_port))" in t
    ctx.ob("C12-D5/WRITERS", ok, pg.site(), "the goodness verdict reads the reply record under the name `last_replied` and the request record under `last_requested`", func=pg.fi.qualname)
