"""C02 — stream publish/decrypt round trip and descriptor commitments."""
import ast
import re

from .. import AnalysisError
from ..astutil import dotted, call_name, unparse, norm_text, walk_local_body, kwarg, is_const
from ..consteval import Evaluator, Unknown
from ..exc import Hierarchy, handler_names
from .. import regexast as rx
from .. import rules as R

EXPLANATION = (
    "Bound, commitment, validation-gate and grammar analysis of stream creation and loading. Chunk bound: "
    "file_reader reads min(remaining, MAX_BLOB_SIZE − k) with folded k ≥ 1 (PKCS7 always adds 1..16 bytes, so a "
    "blob is at most 2 MiB) and advances the offset by exactly what it read. Blob name = hash of ciphertext: in "
    "encrypt_blob_bytes the bytes hashed and the bytes returned are the same value, create_from_unencrypted builds "
    "the blob from that pair with length len(ciphertext) and writes it through the verifying writer (C01). "
    "Descriptor commitments: the sd blob's bytes and its hash come from the same serialiser under the same "
    "old_sort polarity; the stream hash depends on hex name, key, hex suggested file name and, per blob in order, "
    "on blob_hash (non-terminator), blob_num, iv and length, recomputed from those inputs on every call (no memo "
    "keyed on a subset). Validation on load: the `return descriptor` is dominated by the negation of every refusal "
    "(terminator length, zero-length data blob, terminator hash, numbering, stream-hash equality), JSON errors "
    "raise. File name: the sanitiser's regex has unanchored, repeated classes containing '/', '\\\\' and every "
    "code point 0..31, is applied with re.sub to both halves of splitext, and create_stream stores the sanitised "
    "name as suggested_file_name (the raw name only as stream_name). Cipher siblings agree on AES-CBC/PKCS7 wiring."
)
EXACTNESS = "Second pass (DESIGN.md §10, exactness / completeness halves) — reading starts at 0 and every chunk is yielded and appended; descriptor built from the very key and blob list and returned with its sd hash; hash entry of a blob dict exactly for data blobs; serialiser chosen by the same test as the hash; loader accepts *every* consistent descriptor (refusals depend on the five consistency tests only)."
TECHNIQUE = "static analysis: constant folding of the chunk bound, def-use dependence of hashes on committed fields, guard dominance of the load path, regex-AST grammar check, sibling agreement; exact fact-set comparison of the tests dominating each effect and refusal (effect / refusal tables), fall-through path queries"
NOT_DECIDED = "byte-for-byte decrypt round trip, padding behaviour at AES block boundaries, JSON canonical form (runtime behaviour of cryptography/json); DEL and C1 controls are outside the 0..31 reading of 'control character'"
ASSUMPTIONS = ["PKCS7 padding adds between 1 and 16 bytes", "os.path.splitext / basename behave as documented"]

D = "lbry.stream.descriptor"
SD = f"{D}.StreamDescriptor"
BF = "lbry.blob.blob_file"


def check(ctx):
    prog = ctx.prog
    ev = Evaluator(prog)
    hier = Hierarchy(prog)
    chunking(ctx, prog, ev)
    naming(ctx, prog)
    commitments(ctx, prog)
    load(ctx, prog, hier)
    filename(ctx, prog, ev)
    cipher(ctx, prog)
    # the descriptor loader recomputes the stream hash from BlobInfo objects: they must hold the values of the JSON unchanged — a coercion (int(), str())
    # maps tampered values (5008.75, true) back onto the committed ones and the tampering is accepted
    R.ctor_stores(ctx, "C02-D4/STORE", "lbry.blob.blob_info.BlobInfo.__init__", {"blob_hash": "blob_hash", "blob_num": "blob_num", "length": "length", "iv": "iv"},
                  "what is hashed is what the descriptor said")
    # "publish … produces blobs stored under their SHA-384": create_from_unencrypted waits for `verified`; that this means "the bytes are in the
    # file" is C01's chain writer -> save_verified_blob -> write task -> executor job — those rule instances are evaluated here as well
    R.share(ctx, "C01", {"C01-D6/AWAIT": "C02-D7/AWAIT", "C01-D6/DEP": "C02-D7/DEP", "C01-D6/OVERRIDE": "C02-D7/OVERRIDE", "C01-D5/DEP": "C02-D7/CHAIN", "C01-D5/ORDER": "C02-D7/ORDER"})


def chunking(ctx, prog, ev):
    fr = ctx.fa(f"{D}.file_reader")
    q = fr.fi.qualname
    mod = fr.fi.module
    rd = [s for s in fr.stmts(ast.Assign) if any("MAX_BLOB_SIZE" in unparse(n) for n in ast.walk(s.value)) and
          any(unparse(n).strip("()") == "length - offset" or dotted(n) in _remaining_names(fr) for n in ast.walk(s.value))
          and not any(dotted(t) in _remaining_names(fr) for t in s.targets)]
    ctx.floor("C02-D1/BOUND", "chunk size bounded by MAX_BLOB_SIZE in file_reader", len(rd), 1, site=fr.site(), func=q)
    try:
        mx = ev.name(prog.module("lbry.blob"), "MAX_BLOB_SIZE")
    except Unknown as e:
        raise AnalysisError(f"C02: MAX_BLOB_SIZE does not fold: {e}")
    for s in rd:
        ub, rem_ok = _upper_bound(fr, ev, mod, s.value)
        k = None if ub is None else mx - ub
        ok = ub is not None and 1 <= k <= 16 and mx == 2 * 2 ** 20
        ctx.ob("C02-D1/BOUND", ok, fr.site(s), f"a chunk is at most MAX_BLOB_SIZE − k plaintext bytes with 1 ≤ k ≤ 16 (k = {k}): with PKCS7's 1..16 pad bytes the "
               f"blob never exceeds 2 MiB", detail="" if ok else (f"upper bound of `{unparse(s.value)}` folds to {ub}" if ub is not None else
                                                                 f"no constant upper bound derivable from `{unparse(s.value)}`"), func=q, key=f"C02-D1/BOUND|{q}|cap")
        ctx.ob("C02-D1/BOUND", rem_ok, fr.site(s), "and never more than what remains of the file", func=q)
        nm = dotted(s.targets[0])
        # the size read is that bounded value, not a re-derived one
        other = [x for x in fr.stmts((ast.Assign, ast.AugAssign)) if x is not s and any(dotted(t) == nm for t in (x.targets if isinstance(x, ast.Assign) else [x.target]))]
        ctx.ob("C02-D1/BOUND", not other, fr.site(s), "the chunk size has this single definition (no branch that widens it)", detail="; ".join(norm_text(x) for x in other),
               func=q, key=f"C02-D1/BOUND|{q}|single-def")
        rdc = [c for c in fr.calls(name="run_in_executor") if any(dotted(a) == "read_bytes" for a in c.args)]
        okc = len(rdc) == 1 and [dotted(a) for a in rdc[0].args[2:]] == [fr.fi.params()[0], "offset", nm]
        ctx.ob("C02-D1/DEP", okc, fr.site(s), "exactly that many bytes are read at the current offset", func=q)
        adv = [x for x in fr.stmts(ast.AugAssign) if dotted(x.target) == "offset"]
        oka = len(adv) == 1 and isinstance(adv[0].op, ast.Add) and dotted(adv[0].value) == nm
        ctx.ob("C02-D1/DEP", oka, fr.site(s), "the offset advances by exactly the bytes read (no gap, no overlap)", func=q)
    # start, hand-over and loop condition of the reader
    init = [x for x in fr.stmts(ast.Assign) if any(dotted(t) == "offset" for t in x.targets)]
    ctx.ob("C02-D1/DEP", len(init) == 1 and is_const(init[0].value, 0) and not R.atomic_facts_at(fr, init[0])[0], fr.site(), "reading starts at offset 0", func=q, key=f"C02-D1/DEP|{q}|start")
    ln = [x for x in fr.stmts(ast.Assign) if any(dotted(t) == "length" for t in x.targets)]
    ok = len(ln) == 1 and norm_text(ln[0].value) in (f"int(os.stat({fr.fi.params()[0]}).st_size)", f"os.stat({fr.fi.params()[0]}).st_size", f"os.path.getsize({fr.fi.params()[0]})")
    ctx.ob("C02-D1/DEP", ok, fr.site(), "the length is the file's size", func=q)
    ys = list(fr.local_nodes(ast.Yield))
    rdc = [c for c in fr.calls(name="run_in_executor") if any(dotted(a) == "read_bytes" for a in c.args)]
    ok = len(ys) == 1 and len(rdc) == 1 and fr.expanded_text(ys[0].value, keep=tuple(n.id for n in ast.walk(rdc[0]) if isinstance(n, ast.Name))) == "await " + unparse(rdc[0])
    ctx.ob("C02-D1/DEP", ok, fr.site(), "every chunk read is yielded, unmodified", func=q, key=f"C02-D1/DEP|{q}|yield")
    for y in ys:
        have, _F = R.atomic_facts_at(fr, y)
        extra = {k for k in have if k not in {("(length) <= (offset)", False), (nm, True)}}
        ctx.ob("C02-D1/GATE", not extra, fr.site(y), "…under no condition other than `offset < length` (and a non-zero chunk size)", detail=R.fmt_missing(sorted(extra)), func=q, key=f"C02-D1/GATE|{q}|yield-always")
        adv = [x for x in fr.stmts(ast.AugAssign) if dotted(x.target) == "offset"]
        ok = len(adv) == 1 and fr.always_reaches(y, lambda n: n is adv[0].value or n is adv[0].target) is None and R.stmt_of(y)._parent is adv[0]._parent
        ctx.ob("C02-D1/ORDER", ok, fr.site(y), "the offset advances after every yielded chunk, in the same loop body", func=q)
    wl = fr.stmts(ast.While)
    ok = len(wl) == 1 and norm_text(wl[0].test) in ("offset < length", "length > offset") and not wl[0].orelse
    ctx.ob("C02-D1/GATE", ok, fr.site(), "the reader continues while offset < length (up to the last byte)", func=q, key=f"C02-D1/GATE|{q}|loop")
    brk = fr.stmts(ast.Break)
    for b in brk:
        R.exact_gate(ctx, "C02-D1/GATE", fr, b, f"offset < length and not {nm}", "the only early exit is a zero-sized chunk", key=f"C02-D1/GATE|{q}|break")
    # the conditional form (`x if c else y`) of the chunk size is equally fine only if both arms are bounded: not recognised -> floor reports it
    rb = ctx.fa(f"{D}.read_bytes")
    t = unparse(rb.node)
    ctx.ob("C02-D1/DEP", "f.seek(offset)" in t and "return f.read(to_read)" in t and "open(file_path, 'rb')" in t, rb.site(), "read_bytes reads to_read bytes at offset, binary",
           func=rb.fi.qualname)
    cs = ctx.fa(f"{SD}.create_stream")
    cq = cs.fi.qualname
    loops = cs.stmts(ast.AsyncFor)
    ok = len(loops) == 1 and unparse(loops[0].iter) == f"file_reader({cs.fi.params()[3]})"
    ctx.ob("C02-D1/DEP", ok, cs.site(), "create_stream encrypts exactly the chunks of file_reader(file_path), in order", func=cq)
    if ok:
        c = [x for x in cs.calls(name="create_from_unencrypted")]
        okc = len(c) == 1 and [unparse(a) for a in c[0].args[2:6]] == ["key", "next(iv_generator)", dotted(loops[0].target), "blob_num"]
        ctx.ob("C02-D1/DEP", okc, cs.site(), "each chunk becomes one blob with the stream key, a fresh IV and its running number", func=cq)
        okc = len(c) == 1 and [unparse(a) for a in c[0].args[:2]] == cs.fi.params()[1:3] and isinstance(c[0]._parent, ast.Await) and R.stmt_of(c[0])._parent is loops[0]
        ctx.ob("C02-D1/DEP", okc, cs.site(), "…awaited, in the stream's blob directory, inside the loop", func=cq)
        ap = [x for x in cs.calls(dotted_name="blobs.append") if R.stmt_of(x)._parent is loops[0]]
        st = R.stmt_of(c[0]) if c else None
        okc = len(ap) == 1 and isinstance(st, ast.Assign) and len(ap[0].args) == 1 and dotted(ap[0].args[0]) == dotted(st.targets[0]) and not R.atomic_facts_at(cs, ap[0])[0]
        ctx.ob("C02-D1/DEP", okc, cs.site(), "every blob's info is appended to the descriptor's blob list, in order, unconditionally", func=cq, key=f"C02-D1/DEP|{cq}|append")
        mk = [x for x in cs.calls(name="cls")]
        okc = len(mk) == 1 and [unparse(a) for a in mk[0].args] == [cs.fi.params()[1], cs.fi.params()[2], "file_name", "binascii.hexlify(key).decode()", "suggested_file_name", "blobs"]
        ctx.ob("C02-D1/DEP", okc, cs.site(), "the descriptor is built from the file's base name, the hex of the very key used for encryption, the sanitised name and that blob list", func=cq,
               key=f"C02-D1/DEP|{cq}|descriptor")
        r = R.single_return_value(cs)
        st2 = R.stmt_of(mk[0]) if mk else None
        okc = r is not None and isinstance(st2, ast.Assign) and dotted(r.value) == dotted(st2.targets[0]) and \
            f"{dotted(r.value)}.sd_hash = sd_blob.blob_hash" in [norm_text(x) for x in cs.stmts(ast.Assign)] and \
            any(norm_text(x.value).startswith(f"await {dotted(r.value)}.make_sd_blob(") and dotted(x.targets[0]) == "sd_blob" for x in cs.stmts(ast.Assign))
        ctx.ob("C02-D1/DEP", okc, cs.site(), "that descriptor is returned, with sd_hash = hash of the sd blob made from it", func=cq, key=f"C02-D1/DEP|{cq}|return")
        ks = [x for x in cs.stmts(ast.Assign) if any(dotted(t) == "key" for t in x.targets)]
        okc = len(ks) == 1 and norm_text(ks[0].value) == "key or os.urandom(AES.block_size // 8)"
        ctx.ob("C02-D1/DEP", okc, cs.site(), "the key is the caller's or 16 fresh random bytes (AES.block_size // 8)", func=cq)
        ivs = [x for x in cs.stmts(ast.Assign) if any(dotted(t) == "iv_generator" for t in x.targets)]
        okc = len(ivs) == 1 and norm_text(ivs[0].value) == "iv_generator or random_iv_generator()"
        ctx.ob("C02-D1/DEP", okc, cs.site(), "IVs come from the caller's generator or random_iv_generator()", func=cq)
        bn = [s for s in loops[0].body if isinstance(s, ast.AugAssign) and dotted(s.target) == "blob_num" and is_const(s.value, 1)]
        init = [s for s in cs.stmts(ast.Assign) if any(dotted(t) == "blob_num" for t in s.targets) and unparse(s.value) == "-1"]
        ctx.ob("C02-D1/DEP", len(bn) == 1 and len(init) == 1 and loops[0].body[0] is bn[0], cs.site(), "blob numbers start at 0 and increase by one per blob", func=cq)
        term = [x for x in cs.calls(name="BlobInfo")]
        okt = len(term) == 1 and unparse(term[0].args[0]) == "len(blobs)" and is_const(term[0].args[1], 0) and is_const(term[0].args[4], None)
        ctx.ob("C02-D1/DEP", okt, cs.site(), "the list ends with a zero-length terminator without hash, numbered len(blobs)", func=cq)


def _remaining_names(fr):
    return set(R.names_defined_by(fr, lambda v: unparse(v).strip("()") == "length - offset"))


def _is_remaining(fr, e):
    return unparse(e).strip("()") == "length - offset" or dotted(e) in _remaining_names(fr)


def _upper_bound(fr, ev, mod, e):
    """(constant upper bound or None, value never exceeds the remaining bytes) of a chunk-size expression built from
    min(), the remaining byte count and conditional expressions comparing the two"""
    def const(x):
        try:
            v = ev.eval_in_module(mod, x)
            return v if isinstance(v, int) else None
        except Unknown:
            return None
    if isinstance(e, ast.Call) and call_name(e) == "min" and not e.keywords:
        cs = [const(a) for a in e.args]
        known = [c for c in cs if c is not None]
        rem = any(_is_remaining(fr, a) for a in e.args)
        return (min(known) if known else None), rem
    if isinstance(e, ast.IfExp) and isinstance(e.test, ast.Compare) and len(e.test.ops) == 1:
        l, op, r = e.test.left, e.test.ops[0], e.test.comparators[0]
        # normalise to  REM <op> C
        if _is_remaining(fr, r) and const(l) is not None:
            l, r = r, l
            op = {ast.Lt: ast.Gt, ast.Gt: ast.Lt, ast.LtE: ast.GtE, ast.GtE: ast.LtE}.get(type(op), type(op))()
        c = const(r)
        if not _is_remaining(fr, l) or c is None:
            return None, False

        def arm(x, holds):
            """bound of arm x given REM op C holds / does not hold"""
            if const(x) is not None:
                return const(x), const(x) is not None and ((holds and isinstance(op, (ast.Gt, ast.GtE))) or (not holds and isinstance(op, (ast.Lt, ast.LtE)))), True
            if _is_remaining(fr, x):
                t = type(op)
                if holds:
                    b = {ast.Lt: c - 1, ast.LtE: c}.get(t)
                else:
                    b = {ast.Gt: c, ast.GtE: c - 1}.get(t)
                return b, True, False
            return None, False, False
        b1, r1, k1 = arm(e.body, True)
        b2, r2, k2 = arm(e.orelse, False)
        if b1 is None or b2 is None:
            return None, False
        # a constant arm must not exceed the remaining bytes: it is taken when REM > / >= C, value must be <= C
        rem_ok = True
        for x, holds in ((e.body, True), (e.orelse, False)):
            cv = const(x)
            if cv is not None:
                lower_rem = {(ast.Gt, True): c + 1, (ast.GtE, True): c, (ast.Lt, False): c, (ast.LtE, False): c + 1}.get((type(op), holds))
                rem_ok = rem_ok and lower_rem is not None and cv <= lower_rem
        return max(b1, b2), rem_ok
    return None, False


def naming(ctx, prog):
    eb = ctx.fa(f"{BF}.encrypt_blob_bytes")
    q = eb.fi.qualname
    upd = [c for c in eb.calls(name="update") if dotted(c.func.value) == "digest"]
    rets = [r for r in eb.stmts(ast.Return) if isinstance(r.value, ast.Tuple) and len(r.value.elts) == 2]
    ok = len(upd) == 1 and len(rets) == 1 and dotted(upd[0].args[0]) == dotted(rets[0].value.elts[0]) and dotted(upd[0].args[0]) is not None \
        and unparse(rets[0].value.elts[1]) == "digest.hexdigest()"
    ctx.ob("C02-D2/DEP", ok, eb.site(), "the digest is taken over the very ciphertext that is returned", func=q, key=f"C02-D2/DEP|{q}|hash-of-ciphertext")
    dg = [s for s in eb.stmts(ast.Assign) if any(dotted(t) == "digest" for t in s.targets)]
    ctx.ob("C02-D2/CONST", len(dg) == 1 and unparse(dg[0].value) == "get_lbry_hash_obj()", eb.site(), "with the LBRY hash (SHA-384, see C01)", func=q)
    if ok:
        nm = dotted(upd[0].args[0])
        redef = [d for n in eb.cfg.nodes for d in eb.rd.defs_at[n.id] if d.name == nm]
        ctx.ob("C02-D2/DEP", len(redef) == 1, eb.site(), "the ciphertext has a single definition", func=q)
    cf = ctx.fa(f"{BF}.AbstractBlob.create_from_unencrypted")
    t = unparse(cf.node)
    ok = "blob_bytes, blob_hash = encrypt_blob_bytes(key, iv, unencrypted)" in t and "length = len(blob_bytes)" in t and \
        "blob = cls(loop, blob_hash, length," in t and "writer.write(blob_bytes)" in t and "writer = blob.get_blob_writer()" in t and \
        "return BlobInfo(blob_num, length, binascii.hexlify(iv).decode(), added_on, blob_hash, is_mine)" in t
    ctx.ob("C02-D2/DEP", ok, cf.site(), "the blob is created under that hash with length len(ciphertext), written through the verifying writer, and described by "
           "(num, length, iv, hash)", func=cf.fi.qualname)
    p = None
    rr = [r for r in cf.stmts(ast.Return)]
    aw = [a for a in cf.local_nodes(ast.Await) if unparse(a.value) == "blob.verified.wait()"]
    ok = bool(rr) and bool(aw) and cf.must_precede(rr[0], lambda n: n is aw[0]) is None
    ctx.ob("C02-D2/ORDER", ok, cf.site(), "the blob info is returned only after the blob verified", func=cf.fi.qualname)
    # the ciphertext always goes through the verifying writer: a blob object that is "already verified" (a file of that name and size exists — left over from
    # a crash, possibly with other content) must not be adopted in place of the bytes just encrypted; get_blob_writer refuses such a file instead
    for c in [c for c in cf.calls() if unparse(c.func) in ("blob.get_blob_writer", "writer.write")]:
        R.exact_gate(ctx, "C02-D2/GATE", cf, c, "", f"`{unparse(c.func)}(…)` runs unconditionally for every blob created", key=f"C02-D2/GATE|{cf.fi.qualname}|{unparse(c.func)}|always")


def commitments(ctx, prog):
    # sd blob: bytes written and bytes hashed come from the same serialiser under the same polarity
    ms = ctx.fa(f"{SD}.make_sd_blob")
    q = ms.fi.qualname
    h = [s for s in ms.stmts(ast.Assign) if any(dotted(t) == "sd_hash" for t in s.targets)]
    ok = len(h) == 1 and unparse(h[0].value) == "self.calculate_sd_hash() if not old_sort else self.calculate_old_sort_sd_hash()"
    ctx.ob("C02-D3/SYM", ok, ms.site(), "the sd hash is calculate_sd_hash() / calculate_old_sort_sd_hash() by old_sort", func=q)
    d = [s for s in ms.stmts(ast.Assign) if any(dotted(t) == "sd_data" for t in s.targets)]
    okd = len(d) == 2
    if okd:
        for s in d:
            new = ms.guarded(s, "not old_sort")[0]
            okd = okd and unparse(s.value) == ("self.as_json()" if new else "self.old_sort_json()")
    ctx.ob("C02-D3/SYM", okd, ms.site(), "the bytes written are as_json() / old_sort_json() under the same polarity", func=q, key=f"C02-D3/SYM|{q}|polarity")
    for s_ in d:
        new = unparse(s_.value) == "self.as_json()"
        R.exact_gate(ctx, "C02-D3/SYM", ms, s_, "not old_sort" if new else "old_sort", "the serialiser is chosen by old_sort alone — the same test that chose the hash",
                     key=f"C02-D3/SYM|{q}|polarity-exact|{'new' if new else 'old'}")
    for qn, ser in ((f"{SD}.calculate_sd_hash", "self.as_json()"), (f"{SD}.calculate_old_sort_sd_hash", "self.old_sort_json()")):
        fa = ctx.fa(qn)
        t = unparse(fa.node)
        ok = f"h.update({ser})" in t and "h = get_lbry_hash_obj()" in t and "return h.hexdigest()" in t
        ctx.ob("C02-D3/SYM", ok, fa.site(), f"{fa.fi.name} hashes exactly {ser}", func=fa.fi.qualname)
    wr = [c for c in ms.calls(name="write")]
    ok = len(wr) == 1 and dotted(wr[0].args[0]) == "sd_data" and "BlobFile(self.loop, sd_hash, len(sd_data)," in unparse(ms.node)
    ctx.ob("C02-D3/DEP", ok, ms.site(), "the sd blob is created under that hash and length and receives those bytes (re-verified by the writer)", func=q)
    for c in wr:
        R.exact_gate(ctx, "C02-D3/GATE", ms, c, "not sd_blob.get_is_verified()", "the descriptor bytes are written whenever the sd blob is not already verified",
                     ignore=["old_sort", "not old_sort", "blob_file_obj", "not blob_file_obj"], key=f"C02-D3/GATE|{q}|write-exact")
        ok = dotted(c.func.value) == "writer" and [norm_text(x.value) for x in ms.stmts(ast.Assign) if any(dotted(tg) == "writer" for tg in x.targets)] == ["sd_blob.get_blob_writer()"]
        ctx.ob("C02-D3/DEP", ok, ms.site(c), "…through the sd blob's own verifying writer", func=q)
    r = R.single_return_value(ms)
    wt = [c for c in ms.calls(dotted_name="sd_blob.verified.wait")]
    ok = r is not None and dotted(r.value) == "sd_blob" and len(wt) == 1 and isinstance(wt[0]._parent, ast.Await) and not R.atomic_facts_at(ms, wt[0])[0] - \
        {("old_sort", True), ("old_sort", False), ("blob_file_obj", True), ("blob_file_obj", False), ("sd_blob.get_is_verified()", True), ("sd_blob.get_is_verified()", False)} and \
        ms.must_precede(r, lambda n: n is wt[0]) is None
    ctx.ob("C02-D3/ORDER", ok, ms.site(), "make_sd_blob returns that blob only after it verified", func=q)
    sb = [x for x in ms.stmts(ast.Assign) if any(dotted(tg) == "sd_blob" for tg in x.targets)]
    ok = len(sb) == 1 and isinstance(sb[0].value, ast.BoolOp) and isinstance(sb[0].value.op, ast.Or) and dotted(sb[0].value.values[0]) == ms.fi.params()[1] and \
        norm_text(sb[0].value.values[1]).startswith("BlobFile(self.loop, sd_hash, len(sd_data), ")
    ctx.ob("C02-D3/DEP", ok, ms.site(), "the sd blob is the caller's blob object or a new BlobFile named by the sd hash", func=q)
    sl = [c for c in ms.calls(name="set_length")]
    for c in sl:
        ok = unparse(c) == f"{ms.fi.params()[1]}.set_length(len(sd_data))"
        ctx.ob("C02-D3/DEP", ok, ms.site(c), "a caller-supplied blob gets the descriptor's length", func=q)
        R.exact_gate(ctx, "C02-D3/GATE", ms, c, ms.fi.params()[1], "…always", ignore=["old_sort", "not old_sort"], key=f"C02-D3/GATE|{q}|set-length")
    # as_json content
    aj = ctx.fa(f"{SD}.as_json")
    t = unparse(aj.node)
    ok = "format_sd_info(binascii.hexlify(self.stream_name.encode()).decode(), self.key, binascii.hexlify(self.suggested_file_name.encode()).decode(), " \
         "self.stream_hash, [blob_info.as_dict() for blob_info in self.blobs])" in t and "sort_keys=True" in t
    ctx.ob("C02-D3/DEP", ok, aj.site(), "the descriptor JSON carries hex name, key, hex suggested name, stream hash and every blob, keys sorted", func=aj.fi.qualname)
    # stream hash
    sh = ctx.fa(f"{SD}.calculate_stream_hash")
    sq = sh.fi.qualname
    ps = sh.fi.params()
    ups = [c for c in sh.calls(name="update") if dotted(c.func.value) == "h"]
    seq = [unparse(c.args[0]) for c in ups]
    want = [ps[0], ps[1], ps[2], "blobs_hashsum.digest()"]
    ctx.ob("C02-D3/DEP", seq == want, sh.site(), "stream hash = H(hex name ‖ key ‖ hex suggested file name ‖ H(blob hashsums))", detail="" if seq == want else str(seq), func=sq,
           key=f"C02-D3/DEP|{sq}|fields")
    loops = sh.stmts(ast.For)
    ok = len(loops) == 1 and dotted(loops[0].iter) == ps[3] and len(loops[0].body) == 1 and \
        unparse(loops[0].body[0]) == f"blobs_hashsum.update(StreamDescriptor.get_blob_hashsum({dotted(loops[0].target)}))"
    ctx.ob("C02-D3/DEP", ok, sh.site(), "every blob, in list order, contributes its hashsum", func=sq)
    r = R.single_return_value(sh)
    ctx.ob("C02-D3/DEP", r is not None and unparse(r.value) == "h.hexdigest()", sh.site(), "the result is that digest in hex", func=sq)
    bh = ctx.fa(f"{SD}.get_blob_hashsum")
    bq = bh.fi.qualname
    bd = bh.fi.params()[0]
    ups = [c for c in bh.calls(name="update")]
    texts = [bh.expanded_text(c.args[0]) for c in ups]
    want = [f"{bd}['blob_hash'].encode()", f"str({bd}['blob_num']).encode()", f"{bd}['iv'].encode()", f"str({bd}['length']).encode()"]
    # blob_hash has two defs (None for the terminator): compare the raw argument for that one
    raw = [unparse(c.args[0]) for c in ups]
    okf = raw == ["blob_hash.encode()", "str(blob_num).encode()", "iv.encode()", "str(length).encode()"] and texts[1:] == want[1:]
    ctx.ob("C02-D3/DEP", okf, bh.site(), "a blob's hashsum covers blob_hash, blob_num, iv and length of that blob dict", detail="" if okf else str(texts), func=bq,
           key=f"C02-D3/DEP|{bq}|fields")
    if ups:
        ok = bh.guarded(ups[0], "length != 0")[0] and all(not bh.facts_at(c) - bh.facts_at(ups[1]) for c in ups[1:]) if len(ups) > 1 else False
        ctx.ob("C02-D3/GATE", bh.guarded(ups[0], f"{bd}['length'] != 0")[0], bh.site(ups[0]), "the hash is included for every non-terminator blob", func=bq)
        R.exact_gate(ctx, "C02-D3/GATE", bh, ups[0], f"{bd}['length'] != 0", "…exactly then", key=f"C02-D3/GATE|{bq}|hash-exact")
        for c in ups[1:]:
            have, _F = R.atomic_facts_at(bh, c)
            ctx.ob("C02-D3/GATE", not have, bh.site(c), "number, iv and length are always hashed", detail=R.fmt_missing(sorted(have)), func=bq)
        hd = [x for x in bh.stmts(ast.Assign) if any(dotted(tg) == "blob_hash" for tg in x.targets) and not is_const(x.value, None)]
        ok = len(hd) == 1 and unparse(hd[0].value) == f"{bd}['blob_hash']" and bh.guarded(hd[0], f"{bd}['length'] != 0")[0]
        ctx.ob("C02-D3/DEP", ok, bh.site(), "the hash hashed is the dict's own blob_hash entry", func=bq)
    # recomputed from its inputs on every call: no module/class level memo involved
    memo = [n for n in walk_local_body(bh.node) if isinstance(n, ast.Name) and n.id not in bh.fi.params() and n.id.isupper()]
    glob = [n for n in walk_local_body(bh.node) if isinstance(n, (ast.Global, ast.Nonlocal))]
    subs = [n for n in walk_local_body(bh.node) if isinstance(n, ast.Subscript) and dotted(n.value) and dotted(n.value) not in (bd,) and
            not dotted(n.value).startswith(bd) and isinstance(getattr(n, "ctx", None), (ast.Load, ast.Store)) and dotted(n.value)[0].isupper()]
    ok = not memo and not glob and not subs
    ctx.ob("C02-D3/DEP", ok, bh.site((memo + glob + subs)[0]) if not ok else bh.site(), "the hashsum is recomputed from the blob dict on every call (no cache keyed on part "
           "of the committed fields)", detail="" if ok else f"refers to module-level state: {sorted({unparse(x) for x in memo + subs})[:4]}", func=bq,
           key=f"C02-D3/DEP|{bq}|no-memo")
    r = R.single_return_value(bh)
    okr = r is not None and unparse(r.value) == "blob_hashsum.digest()"
    init = [s for s in bh.stmts(ast.Assign) if any(dotted(t) == "blob_hashsum" for t in s.targets)]
    okr = okr and len(init) == 1 and unparse(init[0].value) == "get_lbry_hash_obj()"
    ctx.ob("C02-D3/DEP", okr, bh.site(), "and is the digest of a fresh LBRY hash object", func=bq)
    gs = ctx.fa(f"{SD}.get_stream_hash")
    r = R.single_return_value(gs)
    ok = r is not None and unparse(r.value) == "self.calculate_stream_hash(binascii.hexlify(self.stream_name.encode()), self.key.encode(), " \
                                               "binascii.hexlify(self.suggested_file_name.encode()), [blob_info.as_dict() for blob_info in self.blobs])"
    ctx.ob("C02-D3/DEP", ok, gs.site(), "a descriptor's stream hash is computed from its own name, key, suggested file name and blobs", func=gs.fi.qualname)
    bi = ctx.fa("lbry.blob.blob_info.BlobInfo.as_dict")
    t = unparse(bi.node)
    ok = "'length': self.length" in t and "'blob_num': self.blob_num" in t and "'iv': self.iv" in t and "d['blob_hash'] = self.blob_hash" in t
    ctx.ob("C02-D3/DEP", ok, bi.site(), "a blob's dict carries its length, number, iv and hash", func=bi.fi.qualname)
    hs = [x for x in bi.stmts(ast.Assign) if any(isinstance(tg, ast.Subscript) and is_const(tg.slice, "blob_hash") for tg in x.targets)]
    for x in hs:
        R.exact_gate(ctx, "C02-D3/GATE", bi, x, "self.blob_hash", "the hash entry is present exactly for blobs that have one (every data blob; not the terminator)",
                     key="C02-D3/GATE|as_dict|hash-exact")
    r = R.single_return_value(bi)
    ds = [x for x in bi.stmts(ast.Assign) if r is not None and any(dotted(tg) == dotted(r.value) for tg in x.targets)]
    ok = r is not None and len(ds) == 1 and isinstance(ds[0].value, ast.Dict) and len(hs) == 1 and dotted(hs[0].targets[0].value) == dotted(r.value)
    ctx.ob("C02-D3/DEP", ok, bi.site(), "that dict is what as_dict returns", func=bi.fi.qualname)


def load(ctx, prog, hier):
    fa = ctx.fa(f"{SD}._from_stream_descriptor_blob")
    q = fa.fi.qualname
    rets = [r for r in fa.stmts(ast.Return)]
    ctx.ob("C02-D4/GATE", len(rets) == 1 and dotted(rets[0].value) == "descriptor", fa.site(), "the loader has the single `return descriptor`", func=q)
    rz = [x for x, k in R.raise_kinds(fa) if k == "InvalidStreamDescriptorError"]
    ctx.ob("C02-D4/GATE", len(rz) >= 6, fa.site(), "the loader keeps its six refusals", detail=f"{len(rz)} raise InvalidStreamDescriptorError", func=q)
    if len(rets) != 1:
        return
    checks = [
        ("not decoded['blobs'][-1]['length'] != 0", "the last blob is a zero-length terminator", "terminator-length"),
        ("not any((blob_info['length'] == 0 for blob_info in decoded['blobs'][:-1]))", "no data blob has zero length", "zero-length-data"),
        ("'blob_hash' not in decoded['blobs'][-1]", "the terminator has no hash", "terminator-hash"),
        ("not any((i != blob_info['blob_num'] for i, blob_info in enumerate(decoded['blobs'])))", "blobs are numbered 0..n in order", "numbering"),
        ("not descriptor.get_stream_hash() != decoded['stream_hash']", "the recomputed stream hash equals the stored one", "stream-hash"),
    ]
    for g, what, k in checks:
        R.gate(ctx, "C02-D4/GATE", fa, rets[0], g, f"a descriptor is returned only if {what}", key=f"C02-D4/GATE|{q}|{k}")
    R.exact_gate(ctx, "C02-D4/GATE", fa, rets[0], " and ".join(g for g, _w, _k in checks), "…and under no further condition: every consistent descriptor loads",
                 key=f"C02-D4/GATE|{q}|accept-exact")
    for x in rz:
        if fa.lexically_inside(x, lambda a: isinstance(a, ast.ExceptHandler)) is not None:
            continue
        R.only_terms(ctx, "C02-D4/GATE", fa, x, [g for g, _w, _k in checks], "a refusal depends on nothing but the five consistency tests",
                     key=f"C02-D4/GATE|{q}|refusal-terms|{norm_text(x.exc)[:50]}")
    # each refusal raises (not logs)
    for x in rz:
        ctx.ob("C02-D4/GATE", isinstance(x.exc, ast.Call), fa.site(x), "a refusal raises InvalidStreamDescriptorError", func=q)
    js = [c for c in fa.calls() if dotted(c.func) == "json.loads"]
    ok = False
    if js:
        tr = fa.lexically_inside(js[0], lambda a: isinstance(a, ast.Try))
        if tr is not None:
            ok = all(isinstance(h.body[-1], ast.Raise) for h in tr.handlers) and \
                hier.catches([n for h in tr.handlers for n in handler_names(h)], "json.JSONDecodeError", fa.fi.module)
    ctx.ob("C02-D4/EXC", ok, fa.site(), "bytes that are not JSON raise (the blob is deleted and the load refused)", func=q)
    # the descriptor object is built from the decoded fields (so get_stream_hash() re-derives from them)
    cons = [c for c in fa.calls(name="cls")]
    t = unparse(cons[0]) if cons else ""
    ok = "binascii.unhexlify(decoded['stream_name']).decode()" in t and "decoded['key']" in t and "binascii.unhexlify(decoded['suggested_file_name']).decode()" in t \
        and "BlobInfo(info['blob_num'], info['length'], info['iv'], added_on, info.get('blob_hash')) for info in decoded['blobs']" in t and "blob.blob_hash" in t
    ctx.ob("C02-D4/DEP", ok, fa.site(), "the object checked is built from the decoded name, key, suggested name and every blob entry", func=q)
    si = ctx.fa(f"{SD}.__init__")
    ok = "self.stream_hash = stream_hash or self.get_stream_hash()" in unparse(si.node)
    ctx.ob("C02-D4/DEP", ok, si.site(), "(a supplied stream hash is stored, not trusted: the loader compares it afterwards)", func=si.fi.qualname)
    # only way from a blob to a descriptor
    R.callers_only(ctx, "C02-D4/CALLERS", "_from_stream_descriptor_blob", [f"{SD}.from_stream_descriptor_blob"], "descriptor loader", floor=1)
    fs = ctx.fa(f"{SD}.from_stream_descriptor_blob")
    rz2 = R.raise_kinds(fs)
    ok = any(fs.guarded(x, "not blob.is_readable()")[0] for x, k in rz2)
    ctx.ob("C02-D4/GATE", ok, fs.site(), "an unverified / missing sd blob is refused", func=fs.fi.qualname)
    for x, k in rz2:
        R.exact_gate(ctx, "C02-D4/GATE", fs, x, "not blob.is_readable()", "…exactly then", key=f"C02-D4/GATE|{fs.fi.qualname}|unreadable-exact")
    for c in fs.calls(name="run_in_executor"):
        R.exact_gate(ctx, "C02-D4/GATE", fs, c, "blob.is_readable()", "every readable sd blob is handed to the loader", key=f"C02-D4/GATE|{fs.fi.qualname}|load-exact")
        ok = [unparse(a) for a in c.args[1:]] == ["cls._from_stream_descriptor_blob"] + fs.fi.params()[1:4]
        ctx.ob("C02-D4/DEP", ok, fs.site(c), "…with this very blob", func=fs.fi.qualname)


def filename(ctx, prog, ev):
    mod = prog.module(D)
    try:
        val = ev.name(mod, "RE_ILLEGAL_FILENAME_CHARS")
    except Unknown as e:
        raise AnalysisError(f"C02: RE_ILLEGAL_FILENAME_CHARS does not fold: {e}")
    pat = val[1] if isinstance(val, tuple) else val
    p = rx.parse(pat)
    items = rx.strip_anchors(p)
    # top level: one group containing a BRANCH
    alts = []
    it = items
    g = rx.group_of(it[0]) if len(it) == 1 else None
    inner = g[1] if g else it
    import re._constants as C
    if len(inner) == 1 and inner[0][0] is C.BRANCH:
        alts = [list(a) for a in inner[0][1][1]]
    ctx.ob("C02-D5/REGEX", bool(alts), f"{mod.relpath}:19", "the sanitiser pattern is an alternation", detail=f"{len(alts)} alternatives")
    need = {"/": ord("/"), "\\": ord("\\"), "NUL": 0}
    need.update({f"0x{c:02x}": c for c in range(1, 32)})
    covered = {}
    for alt in alts:
        if len(alt) != 1:
            continue                      # anchored / multi-element alternatives do not remove characters everywhere
        rep = rx.repeat_of(alt[0])
        if rep is None or rep[0] < 1 or rep[1] != rx.MAXREPEAT or len(rep[2]) != 1 or rep[2][0][0] is not C.IN:
            continue
        for name, cp in need.items():
            if rx.in_class(rep[2][0][1], cp) is True:
                covered[name] = True
    miss = [n for n in need if n not in covered]
    ctx.ob("C02-D5/REGEX", not miss, f"{mod.relpath}:19", "unanchored repeated character classes cover '/', '\\\\', NUL and every control code 1..31",
           detail="" if not miss else f"not removed everywhere: {miss[:8]}", key="C02-D5/REGEX|classes")
    sf = ctx.fa(f"{D}.sanitize_file_name")
    q = sf.fi.qualname
    dn = sf.fi.params()[0]
    sp = [s for s in sf.stmts(ast.Assign) if unparse(s.value) == f"os.path.splitext({dn})" and isinstance(s.targets[0], ast.Tuple)]
    ctx.floor("C02-D5/DEP", "splitext in sanitize_file_name", len(sp), 1, site=sf.site(), func=q)
    if sp:
        halves = [dotted(e) for e in sp[0].targets[0].elts]
        subs = [s for s in sf.stmts(ast.Assign) if isinstance(s.value, ast.Call) and dotted(s.value.func) == "re.sub"]
        done = set()
        for s in subs:
            a = s.value.args
            if len(a) == 3 and dotted(a[0]) == "RE_ILLEGAL_FILENAME_CHARS" and is_const(a[1], "") and dotted(a[2]) == dotted(s.targets[0]) and not s.value.keywords:
                done.add(dotted(a[2]))
        ok = set(halves) <= done
        ctx.ob("C02-D5/DEP", ok, sf.site(), "both halves of splitext (stem and extension) are passed through re.sub(pattern, '', …) — all occurrences removed",
               detail="" if ok else f"sanitised: {sorted(done)}, halves: {halves}", func=q, key=f"C02-D5/DEP|{q}|both-halves")
        # the returned value is built only from the sanitised halves and the literal default
        r = R.single_return_value(sf)
        okr = False
        if r is not None:
            src = sf.sources(r.value)
            okr = src["params"] <= {dn, sf.fi.params()[1]} and "re.sub" in src["calls"]
            # every definition of the returned name is a re.sub result, the default, or a concatenation of such
            nm = dotted(r.value)
            for d_ in [d for n in sf.cfg.nodes for d in sf.rd.defs_at[n.id] if d.name == nm]:
                a = d_.node.ast
                if isinstance(a, ast.Assign):
                    okr = okr and (a in subs or dotted(a.value) == sf.fi.params()[1] or a is sp[0])
                elif isinstance(a, ast.AugAssign):
                    okr = okr and dotted(a.value) in done
        ctx.ob("C02-D5/DEP", okr, sf.site(), "what is returned is assembled only from sanitised parts (or the literal default name)", func=q)
    # the published descriptor stores the sanitised name
    cs = ctx.fa(f"{SD}.create_stream")
    cq = cs.fi.qualname
    sn = R.names_defined_by(cs, lambda v: isinstance(v, ast.Call) and call_name(v) == "sanitize_file_name")
    cons = [c for c in cs.calls(name="cls")]
    ok = len(sn) == 1 and len(cons) == 1 and len(cons[0].args) >= 5 and dotted(cons[0].args[4]) == sn[0]
    ctx.ob("C02-D5/DEP", ok, cs.site(), "create_stream stores the sanitised name as suggested_file_name (constructor position 5)",
           detail="" if ok else unparse(cons[0])[:120] if cons else "", func=cq, key=f"C02-D5/DEP|{cq}|suggested-is-sanitised")
    if sn:
        d = [s for s in cs.stmts(ast.Assign) if any(dotted(t) == sn[0] for t in s.targets)]
        okd = len(d) == 1 and cs.expanded_text(d[0].value.args[0]) == f"os.path.basename({cs.fi.params()[3]})"
        ctx.ob("C02-D5/DEP", okd, cs.site(), "sanitising starts from the basename of the published path", func=cq)
    si = ctx.fa(f"{SD}.__init__")
    ok = "self.suggested_file_name = suggested_file_name" in unparse(si.node) and si.fi.params()[5] == "suggested_file_name"
    ctx.ob("C02-D5/DEP", ok, si.site(), "the constructor's fifth argument is the suggested file name", func=si.fi.qualname)
    # download side: names joined to a directory pass the sanitiser
    ms = prog.module("lbry.stream.managed_stream")
    n = 0
    for f in prog.functions_in("lbry.stream.managed_stream"):
        for c in [x for x in walk_local_body(f.node) if isinstance(x, ast.Call) and call_name(x) == "get_next_available_file_name"]:
            n += 1
            a = c.args[2] if len(c.args) > 2 else None
            ops = a.values if isinstance(a, ast.BoolOp) and isinstance(a.op, ast.Or) else [a]
            ok = a is not None and unparse(ops[-1]) == "sanitize_file_name(self.suggested_file_name)" and \
                all(unparse(o) in ("file_name", "self._file_name") for o in ops[:-1])
            ctx.ob("C02-D5/CALLERS", ok, f.site(c), "the name a download is saved under is a user-chosen one or sanitize_file_name(suggested name)",
                   detail="" if ok else unparse(a)[:100] if a is not None else "", func=f.qualname)
    ctx.floor("C02-D5/CALLERS", "download file names built from suggested_file_name", n, 2, site=f"{ms.relpath}:1")
    pr = prog.cls("lbry.stream.managed_stream.ManagedStream").methods.get("suggested_file_name")
    if pr is not None:
        ok = unparse(pr.node).count("sanitize_file_name(") == 1 and "return sanitize_file_name(" in unparse(pr.node)
        ctx.ob("C02-D5/CALLERS", ok, pr.site(), "ManagedStream.suggested_file_name itself returns a sanitised name", func=pr.qualname)


def cipher(ctx, prog):
    e = ctx.fa(f"{BF}.encrypt_blob_bytes")
    d = ctx.fa(f"{BF}.decrypt_blob_bytes")
    te, td = unparse(e.node), unparse(d.node)
    ok = "Cipher(AES(key), modes.CBC(iv), backend=BACKEND)" in te and "Cipher(AES(key), modes.CBC(iv), backend=BACKEND)" in td
    ctx.ob("C02-D6/SYM", ok, e.site(), "encrypt/decrypt build the same AES-CBC cipher from (key, iv)", func=e.fi.qualname)
    ok = "PKCS7(AES.block_size).padder()" in te and "PKCS7(AES.block_size).unpadder()" in td
    ctx.ob("C02-D6/SYM", ok, e.site(), "PKCS7 padder ↔ unpadder over the AES block size", func=e.fi.qualname)
    ok = "encryptor.update(padder.update(unencrypted) + padder.finalize()) + encryptor.finalize()" in te and \
        "unpadder.update(decryptor.update(data) + decryptor.finalize()) + unpadder.finalize()" in td
    ctx.ob("C02-D6/SYM", ok, e.site(), "pad → encrypt and decrypt → unpad, each update()+finalize()", func=e.fi.qualname)
    rz = R.raise_kinds(d)
    ok = any(d.guarded(x, "len(data) != length")[0] for x, k in rz)
    ctx.ob("C02-D6/GATE", ok, d.site(), "decrypt refuses data whose length differs from the descriptor's", func=d.fi.qualname)
    for x, k in rz:
        R.exact_gate(ctx, "C02-D6/GATE", d, x, "len(data) != length", "…and refuses for no other reason", key="C02-D6/GATE|decrypt|refuse-exact")
    ab = ctx.fa(f"{BF}.AbstractBlob.decrypt")
    ok = "decrypt_blob_bytes(reader.read(), self.length, key, iv)" in unparse(ab.node)
    ctx.ob("C02-D6/DEP", ok, ab.site(), "a blob decrypts its own bytes with its own length", func=ab.fi.qualname)
