"""C14 — no double spend: concurrent transaction builds never share an output."""
import ast
import re

from .. import AnalysisError
from ..astutil import dotted, call_name, unparse, norm_text, walk_local_body, kwarg, is_const
from ..exc import Hierarchy, handler_names
from .. import rules as R

EXPLANATION = (
    "Lock-scope, query-definition, sibling and typestate analysis of UTXO reservation. Select+reserve is atomic: in "
    "Ledger.get_spendable_utxos the UTXO read (both strategies), the coin selection and reserve_outputs all lie "
    "inside `async with _utxo_reservation_lock`, what is reserved is what was selected, and every other function "
    "that reserves outputs it read itself holds the same lock. Reserved outputs are invisible to selection: "
    "select_txos(is_spent=False) adds is_reserved = False and spent IS NULL, Ledger.get_utxos restricts to "
    "spendable types, the sqlite chooser's WHERE has txo_type=0, txi.txoid IS NULL and NOT is_reserved. The sqlite "
    "strategy is one SQL transaction: get_and_reserve_spendable_utxos is only passed to db.run (begin … commit / "
    "rollback), its UPDATE reserves exactly the txoids of the rows it returns (row unpacking follows the SELECT "
    "column order, confirmed and unconfirmed branches are siblings that account amount, fee, position and txoid "
    "alike). Release discipline: Transaction.create reserves and signs only inside the try whose every raising "
    "handler first awaits release_tx; broadcast_or_release releases on failure and re-raises; in every daemon "
    "command a transaction is never released after it was broadcast and every path from building it to a normal "
    "return either broadcasts or releases it."
)
EXACTNESS = "Second pass (DESIGN.md §10, exactness / completeness halves) — rows handed out for spending are reserved whenever `set_reserved` (default on, no caller switches it off); producer-anchored ownership typestate over the 17 functions that receive a freshly built transaction; the download payment is released in a `finally`; txo rows inserted with ignore_duplicate, never replaced."
TECHNIQUE = "static analysis: lock-scope (lexical async-with) check, SQL site lexing, sibling-branch agreement, CLEANUP handler check, per-variable typestate over CFG paths; exact fact-set comparison of the tests dominating each effect and refusal (effect / refusal tables), fall-through path queries"
NOT_DECIDED = "that every output is available again once all builds finished, as a global state equality (the pairing rules are its necessary condition); double spends caused by the server or another process"
ASSUMPTIONS = ["asyncio.Lock gives mutual exclusion between tasks of one event loop; AIOSQLite.run executes the function on the single writer thread"]

L = "lbry.wallet.ledger.Ledger"
DBM = "lbry.wallet.database"
DB = f"{DBM}.Database"
TX = "lbry.wallet.transaction.Transaction"
LOCK = "_utxo_reservation_lock"


def in_lock(fa, node):
    w = fa.lexically_inside(node, lambda a: isinstance(a, ast.AsyncWith) and any((dotted(i.context_expr) or "").endswith(LOCK) for i in a.items))
    return w


def check(ctx):
    prog = ctx.prog
    hier = Hierarchy(prog)
    lock_scope(ctx, prog)
    invisible(ctx, prog)
    sqlite_strategy(ctx, prog)
    release(ctx, prog, hier)


def lock_scope(ctx, prog):
    fa = ctx.fa(f"{L}.get_spendable_utxos")
    q = fa.fi.qualname
    ops = {
        "sqlite chooser (read + reserve in one SQL transaction)": fa.calls(dotted_name="self.db.get_spendable_utxos"),
        "UTXO read": fa.calls(dotted_name="self.get_effective_amount_estimators"),
        "coin selection": fa.calls(name="select"),
        "reservation": fa.calls(dotted_name="self.reserve_outputs"),
    }
    for what, cs in ops.items():
        ctx.floor("C14-D1/LOCK", f"{what} in get_spendable_utxos", len(cs), 1, site=fa.site(), func=q)
        for c in cs:
            ok = in_lock(fa, c) is not None
            ctx.ob("C14-D1/LOCK", ok, fa.site(c), f"{what} happens while holding {LOCK}", detail="" if ok else
                   "outside the lock another build can read the same outputs before they are reserved", func=q,
                   key=f"C14-D1/LOCK|{q}|{what.split(' (')[0]}")
    # data flow: selected from what was read, reserved what was selected
    sel = ops["coin selection"]
    rsv = ops["reservation"]
    if sel and rsv:
        read = R.names_defined_by(fa, lambda v: isinstance(v, ast.Call) and dotted(v.func) == "self.get_effective_amount_estimators")
        ctx.ob("C14-D1/DEP", bool(read) and sel[0].args and dotted(sel[0].args[0]) in read, fa.site(sel[0]), "selection runs over the outputs just read", func=q)
        picked = R.names_defined_by(fa, lambda v: v is sel[0])
        a = rsv[0].args[0] if rsv[0].args else None
        ok = bool(picked) and isinstance(a, ast.GeneratorExp) and dotted(a.generators[0].iter) == picked[0] and \
            unparse(a.elt) == f"{dotted(a.generators[0].target)}.txo" and not a.generators[0].ifs
        ctx.ob("C14-D1/DEP", ok, fa.site(rsv[0]), "exactly the selected outputs are reserved", func=q)
        rets = [r for r in fa.stmts(ast.Return) if r.value is not None and dotted(r.value) in picked]
        ctx.ob("C14-D1/DEP", bool(rets), fa.site(), "and exactly those are returned", func=q)
        R.gate(ctx, "C14-D1/GATE", fa, rsv[0], picked[0] if picked else "False", "reservation happens whenever something was selected",
               key=f"C14-D1/GATE|{q}|nonempty")
    # the lock is one asyncio.Lock per ledger
    li = ctx.fa(f"{L}.__init__")
    s = [x for x in li.stmts(ast.Assign) if any(dotted(t) == f"self.{LOCK}" for t in x.targets)]
    ctx.ob("C14-D1/LOCK", len(s) == 1 and unparse(s[0].value) == "asyncio.Lock()", li.site(), f"{LOCK} is one asyncio.Lock per ledger", func=li.fi.qualname)
    R.writers_only(ctx, "C14-D1/WRITERS", LOCK, [f"{L}.__init__"], "reservation lock", floor=1)
    # lock discipline everywhere else: a function that reserves outputs (is_reserved=True) holds the lock, and so does its read
    n = 0
    for m, c in prog.calls_named("reserve_outputs"):
        f = prog.function_of(c)
        if f is None or not m.name.startswith("lbry.") or m.name == "lbry.testcase":
            continue
        if f.name in ("reserve_outputs", "release_outputs"):
            continue                       # the delegating wrappers themselves
        kw = kwarg(c, "is_reserved")
        if kw is not None and is_const(kw, False):
            continue
        n += 1
        fa2 = ctx.eng.fa_of(f)
        w = in_lock(fa2, c)
        ctx.ob("C14-D1/LOCK", w is not None, fa2.site(c), f"`{unparse(c)[:60]}` in {f.short} holds the ledger's {LOCK}",
               detail="" if w is not None else "read-then-reserve without the lock lets a concurrent build select the same outputs",
               func=f.qualname, key=f"C14-D1/LOCK|{f.qualname}|reserve")
        # the read feeding it
        if w is not None and c.args:
            src = fa2.sources(c.args[0])
            reads = [x for x in fa2.calls() if call_name(x) in ("get_utxos", "get_effective_amount_estimators", "get_txos", "select")
                     and dotted(x.func) in src["calls"]]
            for r_ in reads:
                ok = in_lock(fa2, r_) is w
                ctx.ob("C14-D1/LOCK", ok, fa2.site(r_), f"the read feeding that reservation (`{unparse(r_.func)}`) is under the same lock acquisition",
                       func=f.qualname, key=f"C14-D1/LOCK|{f.qualname}|read")
    ctx.floor("C14-D1/LOCK", "functions that reserve outputs", n, 2)


def invisible(ctx, prog):
    st = ctx.fa(f"{DB}.select_txos")
    q = st.fi.qualname
    for key, val in (("is_reserved", False), ("spent.txoid__is_null", True)):
        ss = [s for s in st.stmts(ast.Assign) if any(isinstance(t, ast.Subscript) and dotted(t.value) == "constraints" and is_const(t.slice, key)
                                                      for t in s.targets)]
        ctx.floor("C14-D2/GATE", f"constraints['{key}'] in select_txos", len(ss), 1, site=st.site(), func=q)
        for s in ss:
            ok = is_const(s.value, val) and st.guarded(s, "is_spent is False")[0]
            ctx.ob("C14-D2/GATE", ok, st.site(s), f"unspent queries (is_spent=False) add `{key} = {val}`", func=q, key=f"C14-D2/GATE|{q}|{key}")
    joins = [c for c in st.calls(name="append") if c.args and isinstance(c.args[0], ast.Constant) and "LEFT JOIN txi AS spent ON (spent.txoid=txo.txoid)" in str(c.args[0].value)]
    ok = len(joins) == 1 and st.guarded(joins[0], "include_is_spent or is_spent is not None")[0]
    ctx.ob("C14-D2/GATE", ok, st.site(), "the spending input is joined whenever is_spent is given", func=q)
    # no path where is_spent is False skips these (they are in the same elif)
    gu = ctx.fa(f"{DB}.get_utxos")
    r = R.single_return_value(gu)
    ok = r is not None and isinstance(r.value, ast.Call) and dotted(r.value.func) == "self.get_txos" and is_const(kwarg(r.value, "is_spent"), False)
    ctx.ob("C14-D2/DEP", ok, gu.site(), "Database.get_utxos is get_txos(is_spent=False)", func=gu.fi.qualname)
    lg = ctx.fa(f"{L}.get_utxos")
    cs = lg.calls(dotted_name="self.constraint_spending_utxos")
    db = lg.calls(dotted_name="self.db.get_utxos")
    ok = len(cs) == 1 and len(db) == 1 and lg.must_precede(db[0], lambda n: n is cs[0]) is None and \
        any(k.arg is None and dotted(k.value) == "constraints" for k in db[0].keywords)
    ctx.ob("C14-D2/ORDER", ok, lg.site(), "Ledger.get_utxos restricts to spendable output types before querying", func=lg.fi.qualname)
    cu = ctx.fa(f"{L}.constraint_spending_utxos")
    t = unparse(cu.node)
    ctx.ob("C14-D2/DEP", "constraints['txo_type__in'] = (0, TXO_TYPES['purchase'])" in t, cu.site(), "spendable types are `other` and `purchase` (never claims or supports)",
           func=cu.fi.qualname)
    ac = ctx.fa("lbry.wallet.account.Account.get_utxos")
    ok = any(dotted(c.func) == "self.ledger.get_utxos" and any(k.arg == "accounts" and unparse(k.value) == "[self]" for k in c.keywords) for c in ac.calls())
    ctx.ob("C14-D2/DEP", ok, ac.site(), "an account lists its own outputs only (accounts=[self])", func=ac.fi.qualname)
    es = ctx.fa(f"{L}.get_effective_amount_estimators")
    ok = any(unparse(c.func) == "account.get_utxos" for c in es.calls())
    ctx.ob("C14-D2/DEP", ok, es.site(), "selection candidates are the funding accounts' get_utxos()", func=es.fi.qualname)
    # sqlite chooser
    sq = ctx.fa(f"{DBM}._get_spendable_utxos")
    qs = [s for s in sq.stmts(ast.Assign) if any(dotted(t) == "txo_query" for t in s.targets) and isinstance(s.value, ast.Constant)]
    ctx.floor("C14-D2/SQL", "txo_query in _get_spendable_utxos", len(qs), 1, site=sq.site(), func=sq.fi.qualname)
    for s in qs:
        sql = " ".join(s.value.value.split())
        where = sql.split("WHERE", 1)[1] if "WHERE" in sql else ""
        atoms = [a.strip() for a in re.split(r"\bAND\b", where)]
        for need, what in (("txo.txo_type=0", "plain payments only"), ("txi.txoid IS NULL", "unspent only"), ("NOT txo.is_reserved", "unreserved only")):
            ctx.ob("C14-D2/SQL", need in atoms, sq.site(s), f"sqlite chooser selects {what} (`{need}`)", func=sq.fi.qualname,
                   key=f"C14-D2/SQL|{sq.fi.qualname}|{need}")
        ctx.ob("C14-D2/SQL", "LEFT JOIN txi USING (txoid)" in sql and "INNER JOIN account_address USING (address)" in sql, sq.site(s),
               "spent-ness and ownership come from joins on txi and account_address", func=sq.fi.qualname)
    acc = [s for s in sq.stmts(ast.AugAssign) if dotted(s.target) == "txo_query" and "account_address.account" in unparse(s.value)]
    ctx.ob("C14-D2/SQL", len(acc) == 1 and sq.guarded(acc[0], "accounts")[0], sq.site(), "the funding accounts restrict the candidates", func=sq.fi.qualname)


def sqlite_strategy(ctx, prog):
    # only ever run through db.run
    sites = [(m, n, f) for m, n, f in R.ref_sites(prog, "get_and_reserve_spendable_utxos")]
    ctx.floor("C14-D3/CALLERS", "references to get_and_reserve_spendable_utxos", len(sites), 1)
    for m, n, f in sites:
        par = getattr(n, "_parent", None)
        ok = isinstance(par, ast.Call) and dotted(par.func) == "self.db.run" and par.args and par.args[0] is n and \
            f is not None and f.qualname == f"{DB}.get_spendable_utxos"
        ctx.ob("C14-D3/CALLERS", ok, f"{m.relpath}:{n.lineno}", "the select-and-reserve function only ever runs inside AIOSQLite.run (one SQL transaction)",
               func=getattr(f, "qualname", None))
    rt = ctx.fa(f"{DBM}.AIOSQLite._AIOSQLite__run_transaction") if prog.has_func(f"{DBM}.AIOSQLite._AIOSQLite__run_transaction") else \
        ctx.fa(f"{DBM}.AIOSQLite.__run_transaction")
    q = rt.fi.qualname
    begin = [c for c in rt.calls(name="execute") if c.args and is_const(c.args[0], "begin")]
    fun = [c for c in rt.calls(name="fun")]
    commit = rt.calls(name="commit")
    rollback = rt.calls(name="rollback")
    ok = len(begin) == 1 and len(fun) == 1 and len(commit) == 1 and len(rollback) == 1 and \
        rt.must_precede(fun[0], lambda n: n is begin[0]) is None and rt.must_precede(commit[0], lambda n: n is fun[0]) is None and \
        R.in_handler(rollback[0], rt) is not None
    ctx.ob("C14-D3/ORDER", ok, rt.site(), "run_transaction is begin → fun → commit, rollback in the failure handler", func=q)
    if rollback:
        h = R.in_handler(rollback[0], rt)
        ctx.ob("C14-D3/ORDER", h is not None and isinstance(h.body[-1], ast.Raise), rt.site(), "a failed transaction is rolled back and the error propagates", func=q)
    # reserve exactly what is returned
    gr = ctx.fa(f"{DBM}.get_and_reserve_spendable_utxos")
    gq = gr.fi.qualname
    up = [c for c in gr.calls(name="executemany") if c.args and isinstance(c.args[0], ast.Constant)
          and " ".join(c.args[0].value.split()) == "UPDATE txo SET is_reserved = ? WHERE txoid = ?"]
    ctx.floor("C14-D3/SQL", "reservation UPDATE in get_and_reserve_spendable_utxos", len(up), 1, site=gr.site(), func=gq)
    for c in up:
        a = c.args[1] if len(c.args) > 1 else None
        ok = isinstance(a, (ast.ListComp, ast.GeneratorExp)) and dotted(a.generators[0].iter) == "reserved" and \
            unparse(a.elt) == f"(True, {dotted(a.generators[0].target)})" and not a.generators[0].ifs
        ctx.ob("C14-D3/DEP", ok, gr.site(c), "the UPDATE marks every collected txoid as reserved", detail="" if ok else unparse(a)[:80] if a else "", func=gq)
        R.gate(ctx, "C14-D3/GATE", gr, c, "reserved_dewies >= amount_to_reserve and set_reserved", "outputs are reserved when enough were found",
               key=f"C14-D3/GATE|{gq}|enough")
        R.exact_gate(ctx, "C14-D3/GATE", gr, c, "reserved_dewies >= amount_to_reserve and set_reserved", "…always (whenever rows are handed out for spending and set_reserved is on, they are reserved)",
                     ignore=["reserved_dewies < amount_to_reserve", "gap_count < 5", "floor * multiplier < SQLITE_MAX_INTEGER"], key=f"C14-D3/GATE|{gq}|enough-exact")
    for r_ in gr.stmts(ast.Return):
        if dotted(r_.value) == "txs":
            ok = bool(up) and gr.guarded(r_, "reserved_dewies >= amount_to_reserve")[0] and R.prev_stmt(r_) is not None and any(x is up[0] for x in ast.walk(R.prev_stmt(r_)))
            ctx.ob("C14-D3/ORDER", ok, gr.site(r_), "the rows are returned for spending right after the reservation statement, in the same branch", func=gq, key=f"C14-D3/ORDER|{gq}|reserve-then-return")
    dg = ctx.fa(f"{DB}.get_spendable_utxos")
    dflt = {a.arg: d for a, d in zip(reversed(dg.node.args.args), reversed(dg.node.args.defaults))}
    ok = is_const(dflt.get("set_reserved"), True) and is_const(dflt.get("return_insufficient_funds"), False)
    ctx.ob("C14-D3/GATE", ok, dg.site(), "Database.get_spendable_utxos reserves by default (set_reserved=True) and hands out nothing when funds are insufficient", func=dg.fi.qualname,
           key="C14-D3/GATE|defaults")
    for m_, c_ in prog.calls_named("get_spendable_utxos"):
        if m_.name.startswith("lbry.wallet") and not m_.name.startswith("lbry.wallet.server") and isinstance(c_.func, ast.Attribute) and dotted(c_.func).endswith("db.get_spendable_utxos"):
            ok = kwarg(c_, "set_reserved") is None or is_const(kwarg(c_, "set_reserved"), True)
            ctx.ob("C14-D3/GATE", ok, f"{m_.relpath}:{c_.lineno}", "no caller switches the reservation off", func=getattr(prog.function_of(c_), "qualname", None), key=f"C14-D3/GATE|caller|{m_.name}")
    inner = [c for c in gr.calls(name="_get_spendable_utxos")]
    ok = len(inner) == 1 and [dotted(a) for a in inner[0].args[:5]] == ["transaction", "accounts", "decoded_transactions", "txs", "reserved"]
    ctx.ob("C14-D3/DEP", ok, gr.site(), "rows to spend (`txs`) and txoids to reserve (`reserved`) are filled by the same scan", func=gq)
    rets = [unparse(r.value) for r in gr.stmts(ast.Return) if r.value is not None]
    ctx.ob("C14-D3/DEP", set(rets) <= {"txs", "txs if return_insufficient_funds else {}"} and "txs" in rets, gr.site(), "what is returned is that same collection", func=gq)
    # the row scan: unpacking follows the SELECT; both branches account alike
    sq = ctx.fa(f"{DBM}._get_spendable_utxos")
    qq = sq.fi.qualname
    qs = [s for s in sq.stmts(ast.Assign) if any(dotted(t) == "txo_query" for t in s.targets) and isinstance(s.value, ast.Constant)]
    cols = []
    if qs:
        sel = " ".join(qs[0].value.value.split())
        m_ = re.search(r"SELECT (.*?) FROM", sel)
        if m_:
            for col in m_.group(1).split(","):
                col = col.strip()
                cols.append(col.split(" as ")[-1].split(".")[-1].strip())
    unpacks = [s for s in sq.stmts(ast.Assign) if isinstance(s.targets[0], ast.Tuple) and len(s.targets[0].elts) == len(cols) and cols]
    ctx.floor("C14-D3/TABLE", "row unpacking in _get_spendable_utxos", len(unpacks), 2, site=sq.site(), func=qq)
    for s in unpacks:
        names = [dotted(e) for e in s.targets[0].elts]
        ok = all(n == c or c.endswith("_" + n) or n.endswith("_" + c) for n, c in zip(names, cols))
        ctx.ob("C14-D3/TABLE", ok, sq.site(s), "row fields are unpacked in SELECT column order", detail="" if ok else f"{names} vs columns {cols}", func=qq)
    # each place a position is recorded also records the txoid of the same row
    apps = [c for c in sq.calls(name="append") if isinstance(c.func.value, ast.Subscript) and dotted(c.func.value.value) == "result"]
    ctx.floor("C14-D3/SYM", "result[…].append(nout) sites", len(apps), 2, site=sq.site(), func=qq)
    sigs = []
    for c in apps:
        blk = R.stmt_of(c)._parent
        body = blk.body if R.stmt_of(c) in getattr(blk, "body", []) else getattr(blk, "orelse", [])
        norm = []
        for st in body:
            t = norm_text(st)
            if any(k in t for k in ("reserved_amount", "result[", "reserved.append")) and not isinstance(st, (ast.If, ast.While, ast.For)):
                norm.append(t)
        sigs.append((c, norm))
        rv = [x for st in body for x in ast.walk(st) if isinstance(x, ast.Call) and dotted(x.func) == "reserved.append"]
        ok = len(rv) == 1 and rv[0].args and dotted(rv[0].args[0]) == "txoid" and dotted(c.args[0]) == "nout"
        ctx.ob("C14-D3/DEP", ok, sq.site(c), "a selected row contributes its position to the result and its txoid to the reservation list",
               detail="" if ok else "; ".join(unparse(x)[:40] for x in rv), func=qq, key=f"C14-D3/DEP|{qq}|txoid|{'a' if c is apps[0] else 'b'}")
    if len(sigs) >= 2:
        base = sigs[0][1]
        for c, norm in sigs[1:]:
            ok = sorted(norm) == sorted(base)
            ctx.ob("C14-D3/SYM", ok, sq.site(c), "confirmed and unconfirmed branches account a selected output identically (amount, input fee, position, txoid)",
                   detail="" if ok else f"{sorted(set(base) ^ set(norm))}", func=qq, key=f"C14-D3/SYM|{qq}|siblings")
    ok = bool(base if len(sigs) >= 2 else []) and any("reserved_amount -= Input.spend(decoded_tx.outputs[nout]).size * fee_per_byte" in t for t in (sigs[0][1] if sigs else []))
    ctx.ob("C14-D3/SYM", ok, sq.site(), "the fee for spending a selected output is deducted from the amount it contributes", func=qq)
    # column writers
    n = 0
    for f in prog.functions_in("lbry.wallet"):
        for c in [x for x in walk_local_body(f.node) if isinstance(x, ast.Call)]:
            if call_name(c) in ("execute", "executemany", "execute_fetchall") and c.args and isinstance(c.args[0], ast.Constant) and \
                    isinstance(c.args[0].value, str) and re.search(r"SET\s+is_reserved", c.args[0].value, re.I):
                n += 1
                ok = f.qualname in (f"{DB}.reserve_outputs", f"{DBM}.get_and_reserve_spendable_utxos", f"{DB}.release_all_outputs")
                ctx.ob("C14-D4/WRITERS", ok, f.site(c), f"is_reserved is written only by reserve_outputs / the sqlite chooser / release_all_outputs ({f.short})",
                       func=f.qualname)
    ctx.floor("C14-D4/WRITERS", "SQL writers of is_reserved", n, 4)


def release(ctx, prog, hier):
    cr = ctx.fa(f"{TX}.create")
    q = cr.fi.qualname
    rsv = cr.calls(dotted_name="ledger.get_spendable_utxos")
    sgn = cr.calls(dotted_name="tx.sign")
    ctx.floor("C14-D4/CLEANUP", "reserving call / sign in Transaction.create", min(len(rsv), len(sgn)), 1, site=cr.site(), func=q)
    rel = cr.calls(dotted_name="ledger.release_tx")
    relh = [R.in_handler(c, cr) for c in rel]
    trs = {id(h._parent): h._parent for h in relh if h is not None}
    ctx.ob("C14-D4/CLEANUP", len(trs) == 1, cr.site(), "create has one try whose handler releases the transaction's inputs", func=q)
    if len(trs) != 1:
        return
    tr = list(trs.values())[0]
    for c, what in [(x, "reserving outputs") for x in rsv] + [(x, "signing") for x in sgn] + \
                   [(x, "creating a change address") for x in cr.calls(name="get_or_create_usable_address")]:
        inside = any(c in list(ast.walk(s)) for s in tr.body)
        ctx.ob("C14-D4/CLEANUP", inside, cr.site(c), f"{what} happens inside the try that releases on failure", detail="" if inside else
               "a failure here leaves the reserved inputs reserved and the caller has no transaction to release", func=q,
               key=f"C14-D4/CLEANUP|{q}|{what}")
    for h in tr.handlers:
        raises = [s for s in ast.walk(h) if isinstance(s, ast.Raise)]
        if not raises and not any(isinstance(s, ast.Return) for s in ast.walk(h)):
            ctx.ob("C14-D4/CLEANUP", False, cr.site(h), f"handler `except {', '.join(handler_names(h))}` swallows the failure", func=q)
            continue
        rels = [c for s in h.body for c in ast.walk(s) if isinstance(c, ast.Call) and dotted(c.func) == "ledger.release_tx" and c.args and dotted(c.args[0]) == "tx"]
        first_raise = min((r.lineno for r in raises), default=10 ** 9)
        ok = bool(rels) and min(c.lineno for c in rels) < first_raise and isinstance(getattr(rels[0], "_parent", None), ast.Await)
        ctx.ob("C14-D4/CLEANUP", ok, cr.site(h), f"handler `except {', '.join(handler_names(h))}` awaits release_tx(tx) before it re-raises",
               detail="" if ok else "this failure path keeps the inputs reserved", func=q, key=f"C14-D4/CLEANUP|{q}|handler|{'+'.join(handler_names(h))}")
    names = [n for h in tr.handlers for n in handler_names(h)]
    ctx.ob("C14-D4/CLEANUP", hier.catches(names, "Exception", cr.fi.module), cr.site(tr), "every failure (Exception) of the build reaches a releasing handler", func=q)
    # inputs are attached to the tx right after they were reserved (release_tx releases tx.inputs)
    for c in rsv:
        var = R.names_defined_by(cr, lambda v: v is c)
        adds = [x for x in cr.calls(dotted_name="tx.add_inputs") if var and any(isinstance(n, ast.Name) and n.id == var[0] for n in ast.walk(x))]
        ok = bool(adds)
        if ok:
            between = [x for x in cr.local_nodes(ast.Await) if c.lineno < x.lineno < adds[0].lineno]
            ok = not between
        ctx.ob("C14-D4/ORDER", ok, cr.site(c), "reserved outputs become inputs of the transaction before the next await (so release_tx covers them)", func=q)
    rt = ctx.fa(f"{L}.release_tx")
    r = R.single_return_value(rt)
    ok = r is not None and unparse(r.value) == "self.release_outputs([txi.txo_ref.txo for txi in tx.inputs])"
    ctx.ob("C14-D4/DEP", ok, rt.site(), "release_tx releases the outputs spent by all inputs of the transaction", func=rt.fi.qualname)
    ro = ctx.fa(f"{DB}.release_outputs")
    ok = any(unparse(c) == "self.reserve_outputs(txos, is_reserved=False)" for c in ro.calls())
    ctx.ob("C14-D4/DEP", ok, ro.site(), "release = reserve_outputs(…, is_reserved=False)", func=ro.fi.qualname)
    # broadcast_or_release
    for qn in (f"{L}.broadcast_or_release",):
        br = ctx.fa(qn)
        t = br.stmts(ast.Try)
        ok = False
        if t:
            body_b = any(isinstance(c, ast.Call) and dotted(c.func) == "self.broadcast" for s in t[0].body for c in ast.walk(s))
            hs = t[0].handlers
            ok = body_b and len(hs) == 1 and hs[0].type is None and isinstance(hs[0].body[-1], ast.Raise) and hs[0].body[-1].exc is None and \
                any(isinstance(c, ast.Call) and dotted(c.func) == "self.release_tx" for s in hs[0].body for c in ast.walk(s))
        ctx.ob("C14-D4/CLEANUP", ok, br.site(), "broadcast_or_release: any failure of the broadcast releases the inputs and re-raises", func=br.fi.qualname)
    # typestate over every function that releases a transaction variable
    n = 0
    for f in list(prog.functions.values()):
        if not f.module.name.startswith("lbry.") or f.module.name in ("lbry.testcase",) or f.qualname in (q, f"{L}.broadcast_or_release", f"{L}.release_tx"):
            continue
        body_calls = [c for c in walk_local_body(f.node) if isinstance(c, ast.Call)]
        rels = [c for c in body_calls if call_name(c) == "release_tx" and c.args and isinstance(c.args[0], ast.Name)]
        if not rels:
            continue
        fa = ctx.eng.fa_of(f)
        for var in sorted({c.args[0].id for c in rels}):
            n += 1
            bc = [c for c in body_calls if call_name(c) in ("broadcast_or_release", "broadcast") and c.args and dotted(c.args[0]) == var]
            rl = [c for c in rels if c.args[0].id == var]
            bnodes = [x for c in bc for x in fa.cfg_nodes(c)]
            rnodes = [x for c in rl for x in fa.cfg_nodes(c)]
            p = fa.path(bnodes, rnodes, include_exc=False) if bnodes and rnodes else None
            ctx.ob("C14-D4/STATE", p is None, fa.site(rl[0]), f"{f.short}: `{var}` is never released after it was broadcast",
                   detail="" if p is None else "path " + fa.fmt_path(p), func=f.qualname, key=f"C14-D4/STATE|{f.qualname}|{var}|no-release-after-broadcast")
            if bc:
                # from the point the tx exists, every normal path to a return broadcasts or releases it
                defs = [s for s in fa.stmts(ast.Assign) if any(dotted(t) == var for t in s.targets) and not isinstance(s.value, ast.Constant)]
                if defs:
                    done = set(x.id for x in bnodes + rnodes)
                    start = [x for d in defs for x in fa.cfg_nodes(d)]
                    resets = {x.id for s_ in fa.stmts(ast.Assign) if any(dotted(t) == var for t in s_.targets) and is_const(s_.value, None)
                              for x in fa.cfg_nodes(s_)}
                    from .. import terms as _t
                    none_t = _t.atom(ast.parse(f"{var} is None", mode="eval").body)
                    # on an edge that established `var is None` (or falsy) there is nothing to release
                    p2 = fa.path(start, [fa.cfg.exit], avoid=lambda x: x.id in done or x.id in resets, include_exc=False,
                                 edge_ok=lambda e: not any((l.term == none_t[0] and l.pol == none_t[1]) or (l.term == var and l.pol is False)
                                                           for l in e.labels))
                    # a `payment = None` style re-definition resets the obligation
                    ctx.ob("C14-D4/STATE", p2 is None, fa.site(defs[0]), f"{f.short}: once `{var}` is built every normal path broadcasts or releases it",
                           detail="" if p2 is None else "path " + fa.fmt_path(p2), func=f.qualname, key=f"C14-D4/STATE|{f.qualname}|{var}|broadcast-or-release")
    ctx.floor("C14-D4/STATE", "functions that release a transaction", n, 10)
    owners(ctx, prog)
    # reservations live in the database; ALL of them are dropped in exactly two places: at start-up (nothing can be in flight in a fresh process) and on
    # the user's explicit utxo_release command.  Anywhere else — a reconnect handler, a periodic task — it frees outputs that unbroadcast builds still hold.
    R.callers_only(ctx, "C14-D4/CALLERS", "release_all_outputs", ["lbry.wallet.ledger.Ledger.start", "lbry.wallet.account.Account.release_all_outputs",
                                                                  "lbry.extras.daemon.daemon.Daemon.jsonrpc_utxo_release"],
                   "blanket release of every reservation", floor=3, module_prefix="lbry", ignore_modules=("lbry.wallet.server", "lbry.wallet.orchstr8", "lbry.testcase"))
    # a held output must keep its is_reserved mark while wallet sync re-saves the transaction that created it: txo rows are inserted with
    # ignore_duplicate, never replaced (a REPLACE writes the column default 0 back)
    n = 0
    for m_, c_ in prog.calls_named("_insert_sql"):
        if not m_.name.startswith("lbry.wallet") or m_.name.startswith("lbry.wallet.server") or not c_.args or not is_const(c_.args[0], "txo"):
            continue
        n += 1
        ok = kwarg(c_, "replace") is None and is_const(kwarg(c_, "ignore_duplicate"), True)
        ctx.ob("C14-D4/WRITERS", ok, f"{m_.relpath}:{c_.lineno}", "txo rows are inserted with ignore_duplicate and never replaced (re-saving a known transaction must not reset is_reserved "
               "of an output another build holds)", func=getattr(prog.function_of(c_), "qualname", None), key=f"C14-D4/WRITERS|txo-insert|{n}")
    ctx.floor("C14-D4/WRITERS", "txo row insertions", n, 2)
    bad = [(m_, x) for m_ in prog.modules.values() if m_.name.startswith("lbry.wallet") and not m_.name.startswith("lbry.wallet.server")
           for x in ast.walk(m_.tree) if isinstance(x, ast.Constant) and isinstance(x.value, str) and re.search(r"replace\s+into\s+txo\b", x.value, re.I)]
    ctx.ob("C14-D4/WRITERS", not bad, f"{bad[0][0].relpath}:{bad[0][1].lineno}" if bad else "lbry/wallet/database.py:1", "no SQL statement replaces txo rows", key="C14-D4/WRITERS|no-replace-sql")


def owners(ctx, prog):
    """typestate anchored at the PRODUCERS of transactions (so that deleting the release / broadcast cannot make the instance disappear):
    every function that receives a freshly built transaction in a local variable must, on every normal path to its exit, hand it to
    broadcast_or_release / broadcast or release_tx — or return it to its caller from a function that is itself a producer"""
    from .. import terms as _t
    txc = prog.cls(TX)
    builders = {"create"}
    for name, m in txc.methods.items():
        if any(isinstance(c, ast.Call) and dotted(c.func) in ("cls.create", "Transaction.create") for c in ast.walk(m.node)):
            builders.add(name)
    wrappers = set()
    for f in prog.functions.values():
        if not f.module.name.startswith("lbry.") or f.module.name.startswith(("lbry.wallet.server", "lbry.testcase", "lbry.wallet.orchstr8")) or f.cls is txc:
            continue
        for r in [x for x in walk_local_body(f.node) if isinstance(x, ast.Return) and x.value is not None]:
            v = r.value.value if isinstance(r.value, ast.Await) else r.value
            if isinstance(v, ast.Call) and call_name(v) in builders and (dotted(v.func) or "").startswith("Transaction."):
                wrappers.add(f.name)
    n = 0
    for f in list(prog.functions.values()):
        if not f.module.name.startswith("lbry.") or f.module.name.startswith(("lbry.wallet.server", "lbry.testcase", "lbry.wallet.orchstr8")) or f.cls is txc:
            continue
        prods = []
        for a in [x for x in walk_local_body(f.node) if isinstance(x, ast.Assign)]:
            v = a.value.value if isinstance(a.value, ast.Await) else a.value
            if isinstance(v, ast.Call) and len(a.targets) == 1 and isinstance(a.targets[0], ast.Name) and \
                    ((call_name(v) in builders and (dotted(v.func) or "").startswith("Transaction.")) or call_name(v) in wrappers):
                prods.append((a.targets[0].id, a))
        if not prods:
            continue
        fa = ctx.eng.fa_of(f)
        for var in sorted({v for v, _ in prods}):
            n += 1
            defs = [a for v, a in prods if v == var]
            calls = [c for c in walk_local_body(f.node) if isinstance(c, ast.Call)]
            fin = [c for c in calls if call_name(c) in ("broadcast_or_release", "broadcast", "release_tx") and c.args and dotted(c.args[0]) == var]
            done = {x.id for c in fin for x in fa.cfg_nodes(c)}
            # `var = None` ends the obligation only where it directly follows the hand-over (the `broadcast…(payment); payment = None` idiom)
            resets = {x.id for s_ in fa.stmts(ast.Assign) if any(dotted(t) == var for t in s_.targets) and is_const(s_.value, None)
                      and R.prev_stmt(s_) is not None and any(c in fin for c in ast.walk(R.prev_stmt(s_))) for x in fa.cfg_nodes(s_)}
            escapes = {x.id for r in fa.stmts(ast.Return) if r.value is not None and dotted(r.value) == var and f.name in wrappers for x in fa.cfg_nodes(r)}
            none_t = _t.atom(ast.parse(f"{var} is None", mode="eval").body)
            start = [x for d in defs for x in fa.cfg_nodes(d)]
            p2 = fa.path(start, [fa.cfg.exit], avoid=lambda x: x.id in done or x.id in resets or x.id in escapes, include_exc=False,
                         edge_ok=lambda e: not any((l.term == none_t[0] and l.pol == none_t[1]) or (l.term == var and l.pol is False) for l in e.labels))
            clears = [s_ for s_ in fa.stmts(ast.Assign) if any(dotted(t) == var for t in s_.targets) and is_const(s_.value, None)
                      and not any(x.id in resets for x in fa.cfg_nodes(s_))]
            for s_ in clears:
                p3 = fa.path(start, fa.cfg_nodes(s_), avoid=lambda x: x.id in done or x.id in resets, include_exc=False)
                ctx.ob("C14-D4/OWNER", p3 is None, fa.site(s_), f"{f.short}: `{var}` is cleared only right after the transaction was handed to broadcast / release "
                       f"(clearing it earlier makes the later `is not None` clean-up skip a transaction whose inputs are still reserved)",
                       detail="" if p3 is None else "path " + fa.fmt_path(p3), func=f.qualname, key=f"C14-D4/OWNER|{f.qualname}|{var}|clear")
            ctx.ob("C14-D4/OWNER", p2 is None, fa.site(defs[0]), f"{f.short}: the transaction built into `{var}` is broadcast or released on every normal path (its inputs are reserved "
                   f"from the moment it is built)", detail="" if p2 is None else "path " + fa.fmt_path(p2) + " reaches the exit with the inputs still reserved", func=f.qualname,
                   key=f"C14-D4/OWNER|{f.qualname}|{var}")
    ctx.floor("C14-D4/OWNER", "functions that receive a freshly built transaction", n, 15)
    # the one owner that keeps the transaction across many awaits (the whole download) releases it in a `finally`
    for qn, var in (("lbry.file.file_manager.FileManager.download_from_uri", "payment"),):
        fa = ctx.fa(qn)
        fin_rel = [c for c in fa.calls(name="release_tx") if c.args and dotted(c.args[0]) == var and
                   fa.lexically_inside(c, lambda a: isinstance(a, ast.Try) and any(c in list(ast.walk(s_)) for s_ in a.finalbody)) is not None]
        ctx.ob("C14-D4/CLEANUP", len(fin_rel) == 1 and isinstance(fin_rel[0]._parent, ast.Await), fa.site(), f"{fa.fi.short}: a `finally` releases `{var}` (a failure anywhere between "
               "building the payment and broadcasting it must not leave its inputs reserved)", func=qn, key=f"C14-D4/CLEANUP|{qn}|finally-release")
        for c in fin_rel:
            tr = fa.lexically_inside(c, lambda a: isinstance(a, ast.Try) and any(c in list(ast.walk(s_)) for s_ in a.finalbody))
            have, _F = R.atomic_facts_at(fa, c)
            t_none = R.terms.atom(ast.parse(f"{var} is None", mode="eval").body)[0]
            ok = (t_none, False) in have and all(k[0] == t_none for k in have)
            ctx.ob("C14-D4/CLEANUP", ok, fa.site(c), f"…whenever `{var}` is still set, under no further condition", detail=R.fmt_missing(sorted(have)), func=qn, key=f"C14-D4/CLEANUP|{qn}|finally-exact")
            prod = [a for a in fa.stmts(ast.Assign) if any(dotted(t) == var for t in a.targets) and not is_const(a.value)]
            ok = bool(prod) and all(any(a in list(ast.walk(s_)) for s_ in tr.body) for a in prod)
            ctx.ob("C14-D4/CLEANUP", ok, fa.site(c), f"…and `{var}` is built inside that try", func=qn, key=f"C14-D4/CLEANUP|{qn}|built-inside")
