"""C17 — DHT wire codec is lossless for protocol messages and total on garbage."""
import ast
import re

from .. import AnalysisError
from ..astutil import dotted, call_name, unparse, norm_text, walk_local_body, kwarg, is_const
from ..consteval import Evaluator, Unknown
from ..exc import Hierarchy, handler_names
from ..mayraise import MayRaise
from .. import rules as R
from .. import terms

EXPLANATION = (
    "Field-table agreement plus an interprocedural may-raise analysis with typed taint. Tables: for every datagram "
    "class required_fields == constructor parameters == attributes stored (bencode() reads them back by name), the "
    "packet-type dispatch table maps each type constant to the class expecting it, bencode writer and reader handle "
    "the same four tags and the string length prefix is read up to the first ':' without a digit cap, compact "
    "addresses are written and sliced at the same offsets with the same validators. Totality: the set of "
    "exceptions hostile bytes can raise inside decode_datagram (index/key/attribute/type confusion on decoded "
    "values, int()/decode() failures, recursion depth, explicit raises, constructor checks) is computed from the "
    "source and must be contained in what datagram_received catches; the same analysis is run over the three "
    "post-decode handlers with the decoded message as tainted input (fields typed by what the constructors "
    "enforce): nothing but environment faults (socket errors) may escape them, including from inside their own "
    "except handlers. The decode-failure handler records the sender's failure and calls nothing that mutates the "
    "routing table or the data store."
)
EXACTNESS = "Second pass (DESIGN.md §10, exactness / completeness halves) — bencode writer framing per type and sorted keys; reader cursor arithmetic per tag, terminator loops, handlers always re-raise as `DecodeError`; datagram dispatch by class; no memoised method of a value class reads a field its equality ignores."
TECHNIQUE = "static analysis: exception-escape (may-raise with typed taint, handler class hierarchy), reader/writer table agreement, who-may-call; exact fact-set comparison of the tests dominating each effect and refusal (effect / refusal tables), fall-through path queries"
NOT_DECIDED = ("agreement with an independent bencode implementation on concrete messages and lossless round trip of every message "
               "value (runtime data); a datagram that decodes to a well-typed request with semantically odd arguments is handled by "
               "the request try/except, which is checked only for completeness of its handlers")
ASSUMPTIONS = [
    "asyncio hands datagram_received a bytes object; the UDP source address is not attacker-typed",
    "implicit raise table (DESIGN.md §3.6) lists every way the used operations fail on a value of the wrong bencode type",
    "methods of objects of trusted type (routing table, peer manager, futures, logging, prometheus) do not raise on well-typed arguments",
]

BEN = "lbry.dht.serialization.bencoding"
DG = "lbry.dht.serialization.datagram"
PROTO = "lbry.dht.protocol.protocol.KademliaProtocol"
ENV_ALLOW = {"OSError", "lbry.dht.error.TransportNotConnected"}       # socket / transport state, not datagram content
CLASSES = ("RequestDatagram", "ResponseDatagram", "ErrorDatagram")


def check(ctx):
    prog = ctx.prog
    ev = Evaluator(prog)
    hier = Hierarchy(prog)
    tables(ctx, prog, ev)
    codec(ctx, prog, ev)
    totality(ctx, prog, ev, hier)
    failure_handler(ctx, prog)


# ----------------------------------------------------------------------------------------------- D1 tables
def tables(ctx, prog, ev):
    mod = prog.module(DG)
    base = prog.cls(f"{DG}.KademliaDatagramBase")
    for cn in ("KademliaDatagramBase",) + CLASSES:
        cls = prog.cls(f"{DG}.{cn}")
        try:
            rf = list(ev.class_attr(cls, "required_fields"))
        except Unknown as e:
            raise AnalysisError(f"C17: required_fields of {cn} does not fold: {e}")
        init = cls.methods.get("__init__")
        if init is None:
            ctx.ob("C17-D1/TABLE", False, f"{mod.relpath}:{cls.node.lineno}", f"{cn} defines its constructor", func=cls.qualname)
            continue
        params = [p for p in init.params() if p != "self"]
        ctx.ob("C17-D1/TABLE", params == rf, init.site(), f"{cn}: required_fields == constructor parameters, in wire order",
               detail="" if params == rf else f"required_fields={rf} parameters={params}", func=init.qualname)
        # every field is stored under its own name (bencode() reads getattr(self, field))
        stored = set()
        for k in prog.mro(cls):
            ini = k.methods.get("__init__")
            if ini is None:
                continue
            for n in walk_local_body(ini.node):
                if isinstance(n, (ast.Assign, ast.AnnAssign)):
                    for t in (n.targets if isinstance(n, ast.Assign) else [n.target]):
                        d = dotted(t)
                        if d and d.startswith("self."):
                            stored.add(d[5:])
        miss = [f for f in rf if f not in stored]
        ctx.ob("C17-D1/TABLE", not miss, init.site(), f"{cn}: every wire field is stored as an attribute of the same name",
               detail="" if not miss else f"not stored: {miss}", func=init.qualname)
        if cn != "KademliaDatagramBase":
            sup = [c for c in walk_local_body(init.node) if isinstance(c, ast.Call) and dotted(c.func) == "super().__init__"]
            ok = len(sup) == 1 and [dotted(a) for a in sup[0].args] == rf[:3]
            ctx.ob("C17-D1/TABLE", ok, init.site(), f"{cn}: the common fields go to the base constructor in order", func=init.qualname)
    # bencode(): index -> getattr(self, field)
    be = ctx.fa(f"{DG}.KademliaDatagramBase.bencode")
    txt = unparse(be.node)
    ok = "i: getattr(self, k) for i, k in enumerate(self.required_fields)" in txt
    ctx.ob("C17-D1/TABLE", ok, be.site(), "the writer numbers the fields by their position in required_fields", func=be.fi.qualname)
    # reader: position -> field name from the same list
    dd = ctx.fa(f"{DG}._decode_datagram")
    txt = unparse(dd.node)
    ok = "for i, k in enumerate(datagram_class.required_fields)" in txt and "k: converted[str(i).encode()]" in txt
    ctx.ob("C17-D1/TABLE", ok, dd.site(), "the reader maps position i back to required_fields[i] of the chosen class", func=dd.fi.qualname)
    # dispatch table
    mt = [s for s in dd.stmts(ast.Assign) if isinstance(s.value, ast.Dict) and any(dotted(t) == "msg_types" for t in s.targets)]
    ctx.floor("C17-D1/TABLE", "msg_types dispatch table", len(mt), 1, site=dd.site(), func=dd.fi.qualname)
    for s in mt:
        seen = {}
        for k, v in zip(s.value.keys, s.value.values):
            try:
                kv = ev.eval_in_module(mod, k)
            except Unknown:
                kv = None
            cls = prog.resolve_name(mod, dotted(v) or "")
            exp = None
            if cls is not None and hasattr(cls, "assigns"):
                try:
                    exp = ev.class_attr(cls, "expected_packet_type")
                except Unknown:
                    pass
            ok = kv is not None and kv == exp
            seen[kv] = getattr(cls, "name", None)
            ctx.ob("C17-D1/TABLE", ok, dd.site(s), f"packet type {unparse(k)} dispatches to the class expecting it ({unparse(v)})",
                   detail="" if ok else f"key folds to {kv}, class expects {exp}", func=dd.fi.qualname)
        ctx.ob("C17-D1/TABLE", set(seen.values()) == set(CLASSES) and len(seen) == 3, dd.site(s),
               "the three packet types map to the three datagram classes", detail=str(seen), func=dd.fi.qualname)
    dc = ctx.fa(f"{DG}.decode_datagram")
    r = R.single_return_value(dc)
    ctx.ob("C17-D1/DEP", r is not None and unparse(r.value) == "datagram_class(**decoded)", dc.site(),
           "the message is built by the dispatched class from the decoded fields", func=dc.fi.qualname)


def codec(ctx, prog, ev):
    # writer tags
    wa = ctx.fa(f"{BEN}._bencode")
    fmts = [n.left.value for n in walk_local_body(wa.node) if isinstance(n, ast.BinOp) and isinstance(n.op, ast.Mod)
            and isinstance(n.left, ast.Constant) and isinstance(n.left.value, bytes)]
    wtags = set()
    for f in fmts:
        if f == b"i%de":
            wtags.add("i")
        elif f == b"l%se":
            wtags.add("l")
        elif f == b"d%se":
            wtags.add("d")
        elif f == b"%d:%s":
            wtags.add("str")
        else:
            wtags.add(repr(f))
    ra = ctx.fa(f"{BEN}._bdecode")
    rtags = set()
    for n in walk_local_body(ra.node):
        if isinstance(n, ast.Compare) and len(n.ops) == 1 and isinstance(n.ops[0], ast.Eq) and isinstance(n.comparators[0], ast.Call) \
                and call_name(n.comparators[0]) == "ord" and isinstance(n.comparators[0].args[0], ast.Constant) \
                and isinstance(n.left, ast.Subscript) and not any(isinstance(a, ast.While) for a in _anc(n, ra.node)):
            rtags.add(n.comparators[0].args[0].value)
    top = next((x for x in ra.node.body if isinstance(x, ast.If)), None)     # the dispatch ladder is the first `if` of the body
    has_else = False
    cur = top
    while isinstance(cur, ast.If):
        if cur.orelse and not (len(cur.orelse) == 1 and isinstance(cur.orelse[0], ast.If)):
            has_else = True
            break
        cur = cur.orelse[0] if cur.orelse else None
    if has_else:
        rtags.add("str")
    ctx.ob("C17-D1/TABLE", wtags == rtags == {"i", "l", "d", "str"}, ra.site(), "bencode writer and reader handle the same four type tags",
           detail="" if wtags == rtags else f"writer {sorted(wtags)} reader {sorted(rtags)}", func=ra.fi.qualname)
    # string branch: separator search is unbounded, length is int(prefix), payload is data[start:start+length]
    finds = [c for c in ra.calls() if call_name(c) in ("find", "index") and c.args and is_const(c.args[0], b":")]
    ctx.floor("C17-D1/SYM", "search for the ':' of a string length prefix", len(finds), 1, site=ra.site(), func=ra.fi.qualname)
    for c in finds:
        ok = len(c.args) == 1 and not c.keywords
        base = c.func.value
        if ok and isinstance(base, ast.Subscript) and isinstance(base.slice, ast.Slice):
            ok = base.slice.upper is None and base.slice.step is None
        elif ok and dotted(base):
            ok = True
        elif len(c.args) == 2 and call_name(c) in ("find", "index") and dotted(base):
            ok = True           # data.find(b':', start) : still unbounded to the right
        ctx.ob("C17-D1/SYM", ok, ra.site(c), "the length prefix is read up to the first ':' of the remaining data (the writer emits "
               "'%d:' for any length; no cap on the number of digits)", detail="" if ok else unparse(c), func=ra.fi.qualname)
    negs = [x for x, k in R.raise_kinds(ra) if ra.guarded(x, "length < 0")[0]]
    ctx.ob("C17-D1/SYM", bool(negs), ra.site(negs[0]) if negs else ra.site(), "a negative length prefix is refused (the index must advance)",
           func=ra.fi.qualname)
    # compact address
    mk = ctx.fa(f"{DG}.make_compact_address")
    dk = ctx.fa(f"{DG}.decode_compact_address")
    r = R.single_return_value(mk)
    okw = r is not None and unparse(r.value) == "compact_ip + port.to_bytes(2, 'big') + node_id"
    ctx.ob("C17-D1/SYM", okw, mk.site(), "compact address = ip(4) ‖ port(2, big endian) ‖ node id", func=mk.fi.qualname)
    t = unparse(dk.node)
    okr = all(x in t for x in ("compact_address[:4]", "int.from_bytes(compact_address[4:6], 'big')", "compact_address[6:]"))
    ctx.ob("C17-D1/SYM", okr, dk.site(), "the reader slices [:4] [4:6] [6:] and reads the port big endian", func=dk.fi.qualname)
    for fa in (mk, dk):
        kinds = [unparse(x.exc)[:40] for x, k in R.raise_kinds(fa)]
        okp = any(fa.guarded(x, "not 0 < port < 65536")[0] for x, k in R.raise_kinds(fa))
        okl = any(fa.guarded(x, "len(node_id) != constants.HASH_BITS // 8")[0] for x, k in R.raise_kinds(fa))
        ctx.ob("C17-D1/SYM", okp and okl, fa.site(), f"{fa.fi.name} validates the port range and the id length", func=fa.fi.qualname)
    ci = ctx.fa(f"{DG}.make_compact_ip")
    ok4 = any(ci.guarded(x, "len(compact_ip) != 4")[0] for x, k in R.raise_kinds(ci))
    ctx.ob("C17-D1/SYM", ok4, ci.site(), "the ip part is exactly 4 bytes", func=ci.fi.qualname)


def _anc(n, stop):
    out = []
    a = getattr(n, "_parent", None)
    while a is not None and a is not stop:
        out.append(a)
        a = getattr(a, "_parent", None)
    return out


# --------------------------------------------------------------------------------------------- D2 totality
def totality(ctx, prog, ev, hier):
    eng = ctx.eng
    mr = MayRaise(eng, assume={f"{BEN}.bdecode": ("not allow_non_dict_return",)})
    # bdecode is called without allow_non_dict_return on the datagram path
    dd = ctx.fa(f"{DG}._decode_datagram")
    bd = dd.calls(name="bdecode")
    ctx.ob("C17-D2/SPEC", len(bd) == 1 and len(bd[0].args) == 1 and not bd[0].keywords, dd.site(),
           "the datagram path decodes with allow_non_dict_return left False (the result is a dict)", func=dd.fi.qualname)

    recv = ctx.fa(f"{PROTO}.datagram_received")
    rq = recv.fi.qualname
    dparam = [p for p in recv.fi.params() if p != "self"][0]
    calls = recv.calls(name="decode_datagram")
    ctx.floor("C17-D2/EXC", "decode_datagram call in datagram_received", len(calls), 1, site=recv.site(), func=rq)
    if not calls:
        return
    call = calls[0]
    ctx.ob("C17-D2/DEP", len(call.args) == 1 and dotted(call.args[0]) == dparam, recv.site(call), "the raw datagram is what is decoded", func=rq)
    tr = recv.lexically_inside(call, lambda a: isinstance(a, ast.Try))
    caught = [n for h in tr.handlers for n in handler_names(h)] if tr is not None else []
    ctx.ob("C17-D2/EXC", tr is not None, recv.site(call), "decoding happens inside a try", func=rq)

    # ---- (a) decode stage
    dec = prog.func(f"{DG}.decode_datagram")
    raises, rk, _ = mr.function(dec, {dec.params()[0]: "B"})
    all_r = list(raises)
    for cn in CLASSES:
        init = prog.func(f"{DG}.{cn}.__init__")
        kinds = {p: "A" for p in init.params() if p != "self"}
        rr, _, st = mr.function(init, kinds)
        mr.field_kinds[f"{DG}.{cn}"] = dict(st)
        all_r.extend(rr)
    by = {}
    for r in all_r:
        by.setdefault(r.exc, []).append(r)
    ctx.floor("C17-D2/EXC", "exception classes hostile bytes can raise while decoding", len(by), 5, site=recv.site(call), func=rq)
    for exc in sorted(by):
        rs = by[exc]
        ok = hier.catches(caught, exc, recv.fi.module)
        ex = rs[0]
        ctx.ob("C17-D2/EXC", ok, recv.site(call),
               f"decode stage may raise {exc.rpartition('.')[2]} ({len({(r.site, r.why) for r in rs})} site(s), e.g. {ex.site}: {ex.why[:70]}) — "
               f"caught by datagram_received",
               detail="" if ok else f"`except ({', '.join(caught)})` does not catch it: a hostile datagram raises out of the handler",
               func=rq, key=f"C17-D2/EXC|{rq}|decode|{exc}")
    ctx.note(f"may-raise analysed {len(mr.functions)} functions for the decode stage: {sorted(mr.functions)}")

    # ---- typed fields: ids used as dict keys must be enforced bytes
    for cn in CLASSES:
        fk = mr.field_kinds.get(f"{DG}.{cn}", {})
        for f in ("rpc_id", "node_id"):
            ok = fk.get(f) in ("B", "U")
            ctx.ob("C17-D2/TYPE", ok, prog.func(f"{DG}.KademliaDatagramBase.__init__").site(),
                   f"{cn}.{f} is enforced to be bytes by the constructor (it is used as a dict key / cache key later)",
                   detail="" if ok else f"kind after construction: {fk.get(f)} (any bencode type, e.g. a list of ints of the right length)",
                   func=f"{DG}.KademliaDatagramBase.__init__", key=f"C17-D2/TYPE|{cn}|{f}")

    # ---- wire fields are validated, never silently coerced to the expected type
    COERCE = {"list", "tuple", "dict", "bytes", "bytearray", "str", "int", "set", "frozenset"}
    for cn in CLASSES + ("KademliaDatagramBase",):
        init = prog.func(f"{DG}.{cn}.__init__")
        params = {p for p in init.params() if p != "self"}
        bad = []
        for c in [x for x in walk_local_body(init.node) if isinstance(x, ast.Call)]:
            if isinstance(c.func, ast.Name) and c.func.id in COERCE and c.args:
                if any(isinstance(n, ast.Name) and n.id in params for n in ast.walk(c.args[0])):
                    bad.append(c)
        ctx.ob("C17-D2/TYPE", not bad, init.site(bad[0]) if bad else init.site(),
               f"{cn}: wire fields are not coerced with list()/bytes()/int()/… (a coercion accepts a field of the wrong bencode type, "
               f"e.g. a dict or byte string where a list is expected, instead of dropping the datagram)",
               detail="; ".join(unparse(c)[:60] for c in bad), func=init.qualname, key=f"C17-D2/TYPE|{cn}|coercion")

    # ---- (b,c,d) the post-decode handlers
    disp = {"RequestDatagram": "handle_request_datagram", "ResponseDatagram": "handle_response_datagram",
            "ErrorDatagram": "handle_error_datagram"}
    # dispatch in datagram_received
    for cn, hn in disp.items():
        hc = recv.calls(dotted_name=f"self.{hn}")
        ok = len(hc) == 1
        ctx.ob("C17-D2/DEP", ok, recv.site(hc[0]) if hc else recv.site(), f"{cn} messages are handled by {hn}", func=rq)
    discharged_pre = _peer_invariant(ctx, prog, ev)
    for cn, hn in disp.items():
        f = prog.func(f"{PROTO}.{hn}")
        mparam = [p for p in f.params() if p not in ("self", "address")][0]
        res = mr.function(f, {mparam: f"M:{DG}.{cn}"})
        raises = res[0] if res else []
        groups = {}
        for r in raises:
            groups.setdefault((r.exc, r.site), []).append(r)
        bad = 0
        for (exc, site), rs in sorted(groups.items()):
            r = rs[0]
            if any(hier.catches([a], exc, f.module) for a in ENV_ALLOW):
                ctx.ob("C17-D2/EXC", True, site, f"{hn}: {exc.rpartition('.')[2]} is an environment fault (socket/transport), not driven by datagram content",
                       func=f.qualname)
                continue
            if discharged_pre and exc == "ValueError" and r.func == "lbry.dht.peer.KademliaPeer.__post_init__" and \
                    r.guards and all("self._node_id" in t for t, p in r.guards):
                ctx.ob("C17-D2/EXC", True, site, f"{hn}: node-id length check of KademliaPeer cannot fail: the datagram constructor already "
                       f"enforced the same length", func=f.qualname)
                continue
            bad += 1
            ctx.ob("C17-D2/EXC", False, site, f"{hn}: {exc.rpartition('.')[2]} can escape datagram_received after decoding",
                   detail=f"{r.why[:160]}", func=f.qualname, key=f"C17-D2/EXC|{f.qualname}|{exc}|{r.why[:60]}")
        ctx.ob("C17-D2/EXC", bad == 0, f.site(), f"{hn}: nothing content-driven escapes (may-raise over {len(raises)} raise site(s) filtered "
               f"by its handlers)", func=f.qualname, key=f"C17-D2/EXC|{f.qualname}|summary")
    ctx.note(f"may-raise totals: {len(mr.functions)} functions analysed, {mr.calls_resolved} calls resolved, "
             f"{len(set(mr.calls_unresolved))} calls on trusted receivers left opaque")

    # the request try/except is complete (catch-all) so that any failure of the RPC is answered, not raised
    hr = ctx.fa(f"{PROTO}.handle_request_datagram")
    rpc = hr.calls(dotted_name="self._handle_rpc")
    ctx.floor("C17-D2/EXC", "_handle_rpc call", len(rpc), 1, site=hr.site(), func=hr.fi.qualname)
    for c in rpc:
        t2 = hr.lexically_inside(c, lambda a: isinstance(a, ast.Try))
        names = [n for h in t2.handlers for n in handler_names(h)] if t2 is not None else []
        f = prog.func(f"{PROTO}._handle_rpc")
        res = mr.function(f, {"message": f"M:{DG}.RequestDatagram"})
        excs = sorted({r.exc for r in (res[0] if res else [])})
        miss = [e for e in excs if not hier.catches(names, e, hr.fi.module)]
        ctx.ob("C17-D2/EXC", not miss and bool(excs), hr.site(c),
               f"every exception a decoded request can raise in _handle_rpc ({', '.join(e.rpartition('.')[2] for e in excs)}) is caught "
               f"around the call", detail="" if not miss else f"`except ({', '.join(names)})` lets {miss} escape", func=hr.fi.qualname,
               key=f"C17-D2/EXC|{hr.fi.qualname}|rpc")


def _peer_invariant(ctx, prog, ev):
    """KademliaDatagramBase enforces len(node_id) == HASH_LENGTH with the same constant KademliaPeer checks"""
    bi = ctx.fa(f"{DG}.KademliaDatagramBase.__init__")
    ok1 = any(bi.guarded(x, "not len(node_id) == constants.HASH_LENGTH")[0] for x, k in R.raise_kinds(bi))
    pi = ctx.fa("lbry.dht.peer.KademliaPeer.__post_init__")
    ok2 = any(pi.guarded(x, "not len(self._node_id) == constants.HASH_LENGTH")[0] for x, k in R.raise_kinds(pi))
    same = prog.resolve_name(bi.fi.module, "constants") is prog.resolve_name(pi.fi.module, "constants")
    ctx.ob("C17-D2/CONST", ok1 and ok2 and same, bi.site(), "datagram constructor and KademliaPeer check the node id against the same "
           "constants.HASH_LENGTH", func=bi.fi.qualname)
    return ok1 and ok2 and same


# --------------------------------------------------------------------------------------------- D3 handler
def failure_handler(ctx, prog):
    recv = ctx.fa(f"{PROTO}.datagram_received")
    rq = recv.fi.qualname
    calls = recv.calls(name="decode_datagram")
    if not calls:
        return
    tr = recv.lexically_inside(calls[0], lambda a: isinstance(a, ast.Try))
    if tr is None:
        return
    for h in tr.handlers:
        body_calls = [c for s in h.body for c in ast.walk(s) if isinstance(c, ast.Call)]
        rep = [c for c in body_calls if dotted(c.func) == "self.peer_manager.report_failure"]
        ok = len(rep) == 1 and [unparse(a) for a in rep[0].args] == ["address[0]", "address[1]"]
        ctx.ob("C17-D3/ORDER", ok, recv.site(h), "a datagram that does not decode records a failure for its sender", func=rq)
        ret = any(isinstance(s, ast.Return) for s in h.body)
        ctx.ob("C17-D3/ORDER", ret, recv.site(h), "and is dropped (the handler returns)", func=rq)
        other = [c for c in body_calls if c not in rep and not (dotted(c.func) or "").startswith("log.")
                 and not (isinstance(c.func, ast.Attribute) and c.func.attr == "hex")]
        ctx.ob("C17-D3/EFFECT", not other, recv.site(other[0]) if other else recv.site(h),
               "the decode-failure path calls nothing else (routing table and data store are not touched)",
               detail="; ".join(unparse(c)[:60] for c in other), func=rq)
    # nothing is done with the message before dispatch other than isinstance tests
    pm = ctx.fa("lbry.dht.peer.PeerManager.report_failure")
    writes = {dotted(t.value) if isinstance(t, ast.Subscript) else dotted(t) for s in pm.stmts((ast.Assign, ast.AugAssign))
              for t in (s.targets if isinstance(s, ast.Assign) else [s.target])}
    ctx.ob("C17-D3/EFFECT", {w for w in writes if w and w.startswith("self.")} <= {"self._rpc_failures"}, pm.site(),
           "report_failure only updates the failure statistics", detail=str(sorted(map(str, writes))), func=pm.fi.qualname)


_base_check_c17 = check


def check(ctx):            # noqa: F811  (extends the rules above)
    _base_check_c17(ctx)
    codec_exact(ctx, ctx.prog)


def codec_exact(ctx, prog):
    """bencode writer/reader: per type tag the exact framing (prefix, separator, terminator) and the reader's cursor arithmetic"""
    import ast
    from ..astutil import norm_text, dotted, is_const
    from .. import rules as R
    BE = "lbry.dht.serialization.bencoding"
    we = ctx.fa(f"{BE}._bencode")
    d = we.fi.params()[0]
    kinds = [f"isinstance({d}, int)", f"isinstance({d}, (bytes, bytearray))", f"isinstance({d}, str)", f"isinstance({d}, (list, tuple))", f"isinstance({d}, dict)"]
    R.effect_table(ctx, "C17-D1/CODEC", we, kinds, [
        (f"return b'i%de' % {d}", kinds[0], "an int is written i<decimal>e"),
        (f"return b'%d:%s' % (len({d}), {d})", kinds[1], "bytes are written <length>:<bytes>"),
        (f"return _bencode({d}.encode())", kinds[2], "text is written as the byte string of its UTF-8 encoding"),
        ("encoded_list_items = b''", kinds[3], "a list starts empty"),
        ("encoded_list_items += _bencode(item)", kinds[3], "…every item is appended in order"),
        ("return b'l%se' % encoded_list_items", kinds[3], "…and framed l…e"),
        ("encoded_dict_items = b''", kinds[4], "a dict starts empty"),
        ("encoded_dict_items += _bencode(key)", kinds[4], "…every key …"),
        (f"encoded_dict_items += _bencode({d}[key])", kinds[4], "… is followed by its value"),
        ("return b'd%se' % encoded_dict_items", kinds[4], "…and framed d…e"),
    ], "bencode writer: ")
    R.refusal_table(ctx, "C17-D1/CODEC", we, [("Cannot bencode", " and ".join("not " + k for k in kinds))], "bencode writer")
    # <length>:<payload> — the length written is the length of exactly the bytes written after it (for text: of the ENCODED bytes, not the character count)
    n_lp = 0
    for b in [n for n in we.local_nodes(ast.BinOp) if isinstance(n.op, ast.Mod) and isinstance(n.left, ast.Constant) and n.left.value == b"%d:%s"]:
        n_lp += 1
        t = b.right
        ok = isinstance(t, ast.Tuple) and len(t.elts) == 2 and isinstance(t.elts[0], ast.Call) and call_name(t.elts[0]) == "len" and len(t.elts[0].args) == 1 and \
            we.expanded_text(t.elts[0].args[0], keep=(d,)) == we.expanded_text(t.elts[1], keep=(d,))
        ctx.ob("C17-D1/CODEC", ok, we.site(b), "bencode writer: the length prefix is len() of the very bytes that follow it", func=we.fi.qualname,
               detail="" if ok else f"prefix counts `{unparse(t.elts[0]) if isinstance(t, ast.Tuple) and t.elts else '?'}`, payload is `{unparse(t.elts[1]) if isinstance(t, ast.Tuple) and len(t.elts) > 1 else '?'}`",
               key=f"C17-D1/CODEC|_bencode|length-of-payload|{n_lp}")
    ctx.floor("C17-D1/CODEC", "length-prefixed writes in _bencode", n_lp, 1, site=we.site(), func=we.fi.qualname)
    lps = we.stmts(ast.For)
    ok = len(lps) == 2 and norm_text(lps[0].iter) == d and norm_text(lps[1].iter) in ("sorted(keys)", f"sorted({d}.keys())", f"sorted({d})")
    ctx.ob("C17-D1/CODEC", ok, we.site(), "bencode writer: list items in order, dict keys sorted", func=we.fi.qualname, key="C17-D1/CODEC|writer|order")
    rd = ctx.fa(f"{BE}._bdecode")
    d, si = rd.fi.params()[:2]
    tags = [f"{d}[{si}] == ord('i')", f"{d}[{si}] == ord('l')", f"{d}[{si}] == ord('d')"]
    rows = [
        (f"end_pos = {d}[{si}:].find(b'e') + {si}", tags[0], "int: the terminator is searched from the tag on (offset added back)"),
        (f"return (int({d}[{si} + 1:end_pos]), end_pos + 1)", tags[0], "int: the digits between tag and terminator; the cursor moves past the terminator"),
        (f"{si} += 1", tags[1], "list: the tag is skipped", 0),
        ("decoded_list = []", "lex:" + tags[1], "list: starts empty"),
        (f"(list_data, {si}) = _bdecode({d}, {si})", "lex:" + tags[1], "list: each element is decoded at the cursor, which moves behind it"),
        ("decoded_list.append(list_data)", "lex:" + tags[1], "list: …and appended in order"),
        (f"return (decoded_list, {si} + 1)", "lex:" + tags[1], "list: the cursor moves past the terminator"),
        (f"{si} += 1", tags[2], "dict: the tag is skipped", 1),
        ("decoded_dict = {}", "lex:" + tags[2], "dict: starts empty"),
        (f"(key, {si}) = _bdecode({d}, {si})", "lex:" + tags[2], "dict: a key is decoded at the cursor …"),
        (f"(value, {si}) = _bdecode({d}, {si})", "lex:" + tags[2], "dict: … followed by its value"),
        ("decoded_dict[key] = value", "lex:" + tags[2], "dict: the pair is stored"),
        (f"split_pos = {d}[{si}:].find(b':') + {si}", " and ".join("not " + t for t in tags), "string: the separator is searched from the cursor on (offset added back)"),
        (f"length = int({d}[{si}:split_pos])", " and ".join("not " + t for t in tags), "string: the length is the decimal between cursor and separator"),
        (f"{si} = split_pos + 1", "not length < 0", "string: the payload starts right behind the separator"),
        (f"end_pos = {si} + length", "not length < 0", "string: …and is `length` bytes long"),
        (f"return ({d}[{si}:end_pos], end_pos)", "not length < 0", "string: payload slice; the cursor moves behind it"),
    ]
    un = any(norm_text(x).startswith(f"list_data, {si} =") for x in rd.stmts(ast.Assign))
    if un:
        rows = [((r[0][1:].replace(")", "", 1),) + r[1:]) if r[0].startswith(("(list_data,", "(key,", "(value,")) else r for r in rows]
    R.effect_table(ctx, "C17-D1/CODEC", rd, tags + ["length < 0", f"{d}[{si}] != ord('e')"], rows, "bencode reader: ")
    dr = [r for r in rd.stmts(ast.Return) if norm_text(r.value).startswith("(decoded_dict,")]
    ok = len(dr) == 1 and norm_text(dr[0].value) in (f"(decoded_dict, {si})", f"(decoded_dict, {si} + 1)") and any(pol and R.same_test(t_, tags[2]) for t_, pol in R.lexical_conditions(rd, dr[0]))
    ctx.ob("C17-D1/CODEC", ok, rd.site(), "bencode reader: dict: the collected pairs are returned with the cursor at (or past) the terminator", func=rd.fi.qualname)
    wl = rd.stmts(ast.While)
    ok = len(wl) == 2 and all(R.same_test(w.test, f"{d}[{si}] != ord('e')") and not w.orelse for w in wl)
    ctx.ob("C17-D1/CODEC", ok, rd.site(), "bencode reader: lists and dicts are read until the terminator 'e'", func=rd.fi.qualname, key="C17-D1/CODEC|reader|until-e")
    dflt = [norm_text(x) for x in rd.node.args.defaults]
    ctx.ob("C17-D1/CODEC", dflt == ["0"], rd.site(), "bencode reader: decoding starts at offset 0", func=rd.fi.qualname, key="C17-D1/CODEC|reader|start")
    R.refusal_table(ctx, "C17-D1/CODEC", rd, [("negative string length", "length < 0")], "bencode reader", extra_terms=tags)
    bd = ctx.fa(f"{BE}.bdecode")
    d, nd = bd.fi.params()[:2]
    R.refusal_table(ctx, "C17-D1/CODEC", bd, [("Cannot decode empty string", f"len({d}) == 0"), ("expected dict", f"not {nd} and not isinstance(result, dict)")], "bdecode", extra_terms=[f"isinstance({d}, bytes)"])
    R.effect_table(ctx, "C17-D1/CODEC", bd, [f"len({d}) == 0", nd, "isinstance(result, dict)", f"isinstance({d}, bytes)"], [
        (f"result = _bdecode({d})[0]", f"not len({d}) == 0", "the value decoded at offset 0 is the result"),
        ("return result", f"not len({d}) == 0", "…and is returned"),
    ], "bdecode: ")
    ok = is_const(bd.node.args.defaults[0], False) if bd.node.args.defaults else False
    ctx.ob("C17-D1/CODEC", ok, bd.site(), "bdecode: a datagram must be a dict unless the caller says otherwise (default False)", func=bd.fi.qualname)
    for f_ in (rd, bd):
        hs = [h for t_ in f_.stmts(ast.Try) for h in t_.handlers]
        ok = len(hs) == 1 and sorted(handler_names(hs[0])) == ["TypeError", "ValueError"] and isinstance(hs[0].body[-1], ast.Raise) and \
            norm_text(hs[0].body[-1]).startswith("raise DecodeError(") and len(hs[0].body) == 1
        ctx.ob("C17-D1/CODEC", ok, f_.site(), f"{f_.fi.name}: a malformed number / structure (ValueError, TypeError) is turned into DecodeError — the handler always raises (falling through would "
               "continue with an unbound local)", func=f_.fi.qualname, key=f"C17-D1/CODEC|{f_.fi.name}|handler-raises")
    be = ctx.fa(f"{BE}.bencode")
    r_ = R.single_return_value(be)
    ctx.ob("C17-D1/CODEC", r_ is not None and norm_text(r_.value) == f"_bencode({be.fi.params()[0]})", be.site(), "bencode returns the encoding of its argument", func=be.fi.qualname)
    R.refusal_table(ctx, "C17-D1/CODEC", be, [("TypeError", f"not isinstance({be.fi.params()[0]}, dict)")], "bencode")
    # datagram dispatch in the protocol
    dr_ = ctx.fa("lbry.dht.protocol.protocol.KademliaProtocol.datagram_received")
    R.effect_table(ctx, "C17-D2/DISPATCH", dr_, ["isinstance(message, RequestDatagram)", "isinstance(message, ErrorDatagram)", "isinstance(message, ResponseDatagram)"], [
        ("self.handle_request_datagram(address, message)", "isinstance(message, RequestDatagram)", "a decoded request goes to the request handler"),
        ("self.handle_error_datagram(address, message)", "not isinstance(message, RequestDatagram) and isinstance(message, ErrorDatagram)", "an error to the error handler"),
        ("self.handle_response_datagram(address, message)", "not isinstance(message, RequestDatagram) and not isinstance(message, ErrorDatagram)", "anything else (a response) to the response handler"),
    ], "datagram dispatch: ")
    # memoisation keyed by an object compares that object with ==: a cached method of a value class must not read a field the class's equality ignores
    # (KademliaPeer compares address / node id / udp port; tcp_port, which a re-announcement updates and compact addresses carry, is not compared)
    CACHERS = ("lru_cache", "cache", "cachedproperty", "cached_property", "cache_concurrent", "lru_cache_concurrent")
    n = 0
    for cls_ in prog.classes.values():
        if not cls_.module.name.startswith("lbry.dht"):
            continue
        ignored = set()
        for x in cls_.node.body:
            if isinstance(x, ast.AnnAssign) and isinstance(x.value, ast.Call) and call_name(x.value) == "field" and is_const(kwarg(x.value, "compare"), False):
                ignored.add(norm_text(x.target))
        if not ignored:
            continue
        for m in cls_.methods.values():
            n += 1
            decs = [call_name(d_) if isinstance(d_, ast.Call) else (dotted(d_) or "").split(".")[-1] for d_ in m.node.decorator_list]
            cached = [d_ for d_ in decs if d_ in CACHERS]
            reads = sorted({a_.attr for a_ in ast.walk(m.node) if isinstance(a_, ast.Attribute) and isinstance(a_.value, ast.Name) and a_.value.id == "self" and a_.attr in ignored})
            ok = not (cached and reads)
            if cached or not ok:
                ctx.ob("C17-D3/CACHE", ok, m.site(), f"{m.short}: memoised (`{cached[0]}`) and reads only fields that take part in equality", detail=f"reads {reads}, which == ignores: after the field "
                       f"changes the cached value is stale", func=m.qualname, key=f"C17-D3/CACHE|{m.qualname}")
    ctx.ob("C17-D3/CACHE", n > 0, "lbry/dht/peer.py:1", "value classes with fields excluded from equality were found and their methods checked for memoisation", detail=str(n), key="C17-D3/CACHE|scanned")
