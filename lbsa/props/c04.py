"""C04 — signatures: inputs verify under SIGHASH_ALL; channel signatures bind the claim."""
import ast

from .. import AnalysisError
from ..astutil import dotted, call_name, unparse, norm_text, walk_local_body, kwarg, is_const
from .. import rules as R
from .. import seqops

EXPLANATION = (
    "Digest-construction and binding analysis. Per-input binding (Transaction.sign): the signature stored on input "
    "i is private_key.sign(_serialize_for_signature(i)) for the same loop index i followed by the hash-type byte "
    "produced by the same signature_hash_type(1) call that the serialisation appends; the public key stored is "
    "that key's, and the key is looked up from the pubkey_hash of the output being spent; the caches are reset "
    "before the first serialisation and after the last script change. SIGHASH_ALL coverage: the operation "
    "sequence of _serialize_for_signature equals _serialize's (version, input count, every input, outputs, "
    "locktime) with the script replaced by the spent output's script for the signing input and by b'' for all "
    "others, plus one trailing u32 hash type; PrivateKey.sign hashes with double_sha256. Channel binding: the "
    "pieces hashed by Output.sign equal, element by element, the new-style branch of get_signature_digest (first "
    "input's outpoint hash ‖ signing channel hash ‖ message bytes, SHA-256 of the join); is_signed_by verifies "
    "signable.signature over that digest under channel.claim.channel.public_key_bytes; the legacy branch "
    "(address ‖ payload ‖ reversed channel hash) is kept under unsigned_payload. PublicKey.verify parses, "
    "normalises (high-S signatures of earlier releases) and verifies over the digest given; Channel.public_key_bytes "
    "returns a 33-byte key as is and otherwise goes through the curve library (point validation)."
)
EXACTNESS = "Second pass (DESIGN.md §10, exactness / completeness halves) — every p2pkh/p2sh input is signed and only those, key source exactness, unknown script kinds raise, `create` signs by default, what is signed is the stream's bytes, `verify` refuses exactly the wrong lengths and an unparsable signature; Input/Output writers and cache discipline shared from C05 (C04-D5)."
TECHNIQUE = "static analysis: def-use binding of signature to loop index and key, operation-sequence comparison of the two serialisers, element-wise piece-list comparison of signer and verifier, required-call ordering in verify; exact fact-set comparison of the tests dominating each effect and refusal (effect / refusal tables), fall-through path queries"
NOT_DECIDED = "that a produced signature verifies under an independent secp256k1 and single-bit sensitivity (properties of libsecp256k1 and SHA-256)"
ASSUMPTIONS = ["coincurve / libsecp256k1 implement ECDSA over secp256k1; cPublicKey(...) validates that the point is on the curve"]

T = "lbry.wallet.transaction"
K = "lbry.wallet.bip32"


def check(ctx):
    prog = ctx.prog
    input_binding(ctx, prog)
    sighash_all(ctx, prog)
    channel(ctx, prog)
    verify(ctx, prog)
    # the signing serialisation writes each input through Input.serialize_to (an EMPTY alternate script, not "no alternate script", for the inputs that
    # are not being signed) and over the outputs as they are now: the Input/Output writers and the cache discipline are C05's rule instances
    R.share(ctx, "C05", {"C05-D1": "C04-D5", "C05-D3/CACHE": "C04-D5/CACHE"})
    # a legacy (v1) channel signature commits to the ADDRESS of the output that holds the claim: prefix ‖ hash160 ‖ checksum in Base58 — C06's rule instances
    R.share(ctx, "C06", {"C06-D3": "C04-D6"})
    key_dispatch(ctx, prog)


def key_dispatch(ctx, prog):
    """the key an input is signed with is the key of the address that holds the spent output: the account asks the address manager of the
    output's own chain, so that every kind of manager (hierarchical: child key; single-key: the account key) answers for its own addresses"""
    A = "lbry.wallet.account"
    for meth in ("get_private_key", "get_public_key"):
        fa = ctx.fa(f"{A}.Account.{meth}")
        ch, ix = fa.fi.params()[1:3]
        rets = fa.stmts(ast.Return)
        ok = bool(rets) and all(unparse(r.value) == f"self.address_managers[{ch}].{meth}({ix})" for r in rets)
        ctx.ob("C04-D6/DISPATCH", ok, fa.site(), f"Account.{meth}(chain, index) is answered by address_managers[chain].{meth}(index) — never derived around the manager", func=fa.fi.qualname,
               key=f"C04-D6/DISPATCH|{meth}")
    sk = ctx.fa(f"{A}.SingleKey.get_private_key")
    r = R.single_return_value(sk)
    ctx.ob("C04-D6/DISPATCH", r is not None and unparse(r.value) == "self.account.private_key", sk.site(), "a single-key manager answers with the account's own key", func=sk.fi.qualname)
    hd = ctx.fa(f"{A}.HierarchicalDeterministic.get_private_key")
    r = R.single_return_value(hd)
    ix = hd.fi.params()[1]
    ctx.ob("C04-D6/DISPATCH", r is not None and unparse(r.value) == f"self.account.private_key.child(self.chain_number).child({ix})", hd.site(),
           "a hierarchical manager answers with account key / chain / index", func=hd.fi.qualname)
    gk = ctx.fa("lbry.wallet.ledger.Ledger.get_private_key_for_address")
    rets = [r for r in gk.stmts(ast.Return) if r.value is not None and not is_const(r.value, None)]
    ok = bool(rets) and all(call_name(r.value) == "get_private_key" for r in rets if isinstance(r.value, ast.Call)) and all(isinstance(r.value, ast.Call) for r in rets) and \
        all(unparse(r.value) == "account.get_private_key(address_info['chain'], address_info['pubkey'].n)" for r in rets)
    ctx.ob("C04-D6/DISPATCH", ok, gk.site(), "the ledger's key lookup returns the account's get_private_key(chain, index) of the matched address row", func=gk.fi.qualname)


def input_binding(ctx, prog):
    sg = ctx.fa(f"{T}.Transaction.sign")
    q = sg.fi.qualname
    loops = [s for s in sg.stmts(ast.For) if unparse(s.iter) == "enumerate(self._inputs)"]
    ctx.floor("C04-D1/BIND", "loop over enumerate(self._inputs) in sign", len(loops), 1, site=sg.site(), func=q)
    if not loops:
        return
    i, txi = [dotted(e) for e in loops[0].target.elts]
    sigs = [s for s in sg.stmts(ast.Assign) if any(unparse(t) == f"{txi}.script.values['signature']" for t in s.targets)]
    pubs = [s for s in sg.stmts(ast.Assign) if any(unparse(t) == f"{txi}.script.values['pubkey']" for t in s.targets)]
    ctx.floor("C04-D1/BIND", "signature / pubkey stores in sign", min(len(sigs), len(pubs)), 1, site=sg.site(), func=q)
    for s in sigs:
        e = sg.expand(s.value, keep=("private_key", i, txi))
        want = f"private_key.sign(self._serialize_for_signature({i})) + bytes((self.signature_hash_type(1),))"
        ok = unparse(e) == want
        ctx.ob("C04-D1/BIND", ok, sg.site(s), "input i stores private_key.sign(serialisation for input i) ‖ hash-type byte — same index as the input being signed",
               detail="" if ok else unparse(e)[:140], func=q, key=f"C04-D1/BIND|{q}|signature")
    for s in pubs:
        ok = unparse(s.value) == "private_key.public_key.pubkey_bytes"
        ctx.ob("C04-D1/BIND", ok, sg.site(s), "and the public key of that same private key", detail="" if ok else unparse(s.value), func=q, key=f"C04-D1/BIND|{q}|pubkey")
    # the key is the one the spent output pays to
    t = unparse(loops[0])
    ok = f"txo_script = {txi}.txo_ref.txo.script" in t and "address = ledger.hash160_to_address(txo_script.values.get('pubkey_hash', ''))" in t and \
        "private_key = await ledger.get_private_key_for_address(wallet, address)" in t
    ctx.ob("C04-D1/BIND", ok, sg.site(), "the signing key is looked up from the pubkey_hash of the output this input spends", func=q, key=f"C04-D1/BIND|{q}|key-lookup")
    allowed = ["txo_script.is_pay_pubkey_hash", "txo_script.is_pay_script_hash", "'pubkey_hash' in txo_script.values"]
    lk = [x for x in sg.stmts(ast.Assign) if any(dotted(tg) == "private_key" for tg in x.targets)]
    for x in lk:
        by_hash = "get_private_key_for_address" in unparse(x.value)
        R.exact_gate(ctx, "C04-D1/GATE", sg, x, "'pubkey_hash' in txo_script.values" if by_hash else "'pubkey_hash' not in txo_script.values",
                     "the key is looked up by the spent output's pubkey_hash whenever the output has one" if by_hash else "a caller-supplied key is used only for an output without pubkey_hash",
                     ignore=["txo_script.is_pay_pubkey_hash", "txo_script.is_pay_script_hash", "not txo_script.is_pay_pubkey_hash", f"{txi}.script is not None", f"{txi}.txo_ref.txo is not None"],
                     key=f"C04-D1/GATE|{q}|key-source|{by_hash}")
    for x in sigs + pubs:
        R.only_terms(ctx, "C04-D1/GATE", sg, x, allowed + ["private_key is not None", f"{txi}.script is not None", f"{txi}.txo_ref.txo is not None"], "every p2pkh / p2sh input is signed — no further condition", key=f"C04-D1/GATE|{q}|sign-always|{norm_text(x.targets[0])[:40]}")
        ok = sg.guarded(x, "txo_script.is_pay_pubkey_hash or txo_script.is_pay_script_hash")[0]
        ctx.ob("C04-D1/GATE", ok, sg.site(x), "…and only those", func=q)
    cr_ = ctx.fa(f"{T}.Transaction.create")
    sc = cr_.calls(dotted_name="tx.sign")
    dflt = {a.arg: d for a, d in zip(reversed(cr_.node.args.args), reversed(cr_.node.args.defaults))}
    ok = len(sc) == 1 and is_const(dflt.get("sign"), True) and [norm_text(a) for a in sc[0].args] == ["funding_accounts"] and isinstance(sc[0]._parent, ast.Await)
    ctx.ob("C04-D1/GATE", ok, cr_.site(), "Transaction.create signs with the funding accounts by default (sign=True)", func=cr_.fi.qualname, key="C04-D1/GATE|create-signs")
    for c_ in sc:
        R.only_terms(ctx, "C04-D1/GATE", cr_, c_, ["sign", "payment < cost", "payment > cost", "change_amount > DUST", "tx._outputs", "spendables"],
                     "…whenever sign is set — no further condition", key="C04-D1/GATE|create-signs-exact")
        ok = cr_.guarded(c_, "sign")[0]
        ctx.ob("C04-D1/GATE", ok, cr_.site(c_), "…and only then", func=cr_.fi.qualname)
    rz = [r for r, k in R.raise_kinds(sg) if k == "NotImplementedError"]
    ok = len(rz) == 1 and sg.guarded(rz[0], "not (txo_script.is_pay_pubkey_hash or txo_script.is_pay_script_hash)")[0]
    ctx.ob("C04-D1/GATE", ok, sg.site(), "an input spending any other kind of output makes sign() fail — it is never left unsigned silently", func=q, key=f"C04-D1/GATE|{q}|unknown-raises")
    gens = [c for c in sg.calls(name="generate") if unparse(c.func) == f"{txi}.script.generate"]
    ok = len(gens) == 1 and all(sg.must_precede(gens[0], lambda n, s=s: n is s) is None for s in sigs + pubs)
    ctx.ob("C04-D1/ORDER", ok, sg.site(), "the input script is regenerated after signature and key were stored", func=q)
    rs = sg.calls(dotted_name="self._reset")
    ser = sg.calls(dotted_name="self._serialize_for_signature")
    ok = bool(ser) and len(rs) >= 2 and sg.must_precede(ser[0], lambda n: n in rs) is None
    ctx.ob("C04-D1/ORDER", ok, sg.site(), "caches are reset before the first signing serialisation (the digest covers the outputs as they are now, not a cached copy)",
           func=q, key=f"C04-D1/ORDER|{q}|reset-first")
    p = sg.path([x for c in ser for x in sg.cfg_nodes(c)], [sg.cfg.exit], avoid=lambda n: sg.evaluates(n, lambda s: s in rs), include_exc=False) if ser else None
    ctx.ob("C04-D1/ORDER", bool(ser) and p is None, sg.site(), "and again after signing (raw/id reflect the signed scripts)", func=q)
    # hash type: one definition used by both
    ht = ctx.fa(f"{T}.Transaction.signature_hash_type")
    r = R.single_return_value(ht)
    ctx.ob("C04-D1/CONST", r is not None and dotted(r.value) == ht.fi.params()[0], ht.site(), "signature_hash_type(x) is x (1 = SIGHASH_ALL)", func=ht.fi.qualname)
    sf = prog.func(f"{T}.Transaction._serialize_for_signature")
    n1 = [c for c in walk_local_body(sf.node) if isinstance(c, ast.Call) and dotted(c.func) == "self.signature_hash_type"]
    n2 = [c for c in walk_local_body(sg.node) if isinstance(c, ast.Call) and dotted(c.func) == "self.signature_hash_type"]
    ok = len(n1) == 1 and len(n2) == 1 and unparse(n1[0]) == unparse(n2[0]) == "self.signature_hash_type(1)"
    ctx.ob("C04-D1/CONST", ok, sf.site(), "the hash type serialised into the digest and the byte appended to the signature come from the same call with the same literal",
           func=sf.qualname, key="C04-D1/CONST|hashtype-agree")
    ps = ctx.fa(f"{K}.PrivateKey.sign")
    r = R.single_return_value(ps)
    ok = r is not None and unparse(r.value) == f"self.signing_key.sign({ps.fi.params()[1]}, hasher=double_sha256)"
    ctx.ob("C04-D1/CONST", ok, ps.site(), "PrivateKey.sign signs the double SHA-256 of the serialisation", func=ps.fi.qualname)


def sighash_all(ctx, prog):
    f1 = prog.func(f"{T}.Transaction._serialize")
    f2 = prog.func(f"{T}.Transaction._serialize_for_signature")
    ctx.prog.consulted.add(f1.module.relpath)
    a = seqops.extract(f1.node, ["stream"])
    b = seqops.extract(f2.node, ["stream"])
    q = f2.qualname
    # expected: same as _serialize with inputs unconditionally, per-input branch on signing_input, trailing hash type
    want = [("w", "uint32", "self.version"), ("w", "compact_size", "len(self._inputs)"),
            ("rep", "enumerate(self._inputs)", [("if", seqops.cond("signing_input == i"),
                                                 [("if", seqops.cond("txin.script.is_script_hash"), [("call", "txin.serialize_to")], [("call", "txin.serialize_to")])],
                                                 [("call", "txin.serialize_to")])]),
            ("call", "self._serialize_outputs"), ("w", "uint32", "self.locktime"), ("w", "uint32", "self.signature_hash_type(1)")]
    ok = b == want
    fa2 = ctx.fa(f2.qualname)
    r_ = R.single_return_value(fa2)
    ok_r = r_ is not None and norm_text(r_.value) == "stream.get_bytes()" and [norm_text(x.value) for x in fa2.stmts(ast.Assign) if any(dotted(tg) == "stream" for tg in x.targets)] == ["BCDataStream()"]
    ctx.ob("C04-D2/DEP", ok_r, f2.site(), "what is signed is the bytes of that very stream (a fresh BCDataStream)", func=q, key=f"C04-D2/DEP|{q}|returns-stream")
    ctx.ob("C04-D2/SEQ", ok, f2.site(), "the signing serialisation is version, input count, every input, outputs, locktime, then one u32 hash type",
           detail="" if ok else seqops.fmt(b), func=q, key=f"C04-D2/SEQ|{q}")
    # agreement with _serialize on the common part
    flat_a = [o for o in a if o[0] != "if"] + [x for o in a if o[0] == "if" for x in o[2]]
    common_a = [("w", "uint32", "self.version"), ("w", "compact_size", "len(self._inputs)")]
    ok2 = a[0] == b[0] and a[-1] == b[-2] and a[-2] == b[-3] and a[1][0] == "if" and a[1][2][0] == b[1]
    ctx.ob("C04-D2/SYM", ok2, f2.site(), "field order and widths equal Transaction._serialize (same version, count, outputs block and locktime writes)", func=q)
    # script substitution
    t = unparse(f2.node)
    ok3 = "txin.serialize_to(stream, txin.txo_ref.txo.script.source)" in t and "txin.serialize_to(stream, b'')" in t and \
        "txin.serialize_to(stream, txin.script.values['script'].source)" in t
    fa = ctx.fa(q)
    blanks = [c for c in fa.calls(name="serialize_to") if len(c.args) == 2 and is_const(c.args[1], b"")]
    own = [c for c in fa.calls(name="serialize_to") if len(c.args) == 2 and not is_const(c.args[1], b"")]
    ok4 = len(blanks) == 1 and fa.guarded(blanks[0], "not signing_input == i")[0] and bool(own) and all(fa.guarded(c, "signing_input == i")[0] for c in own)
    ctx.ob("C04-D2/GATE", ok3 and ok4, f2.site(), "the signing input carries the script of the output it spends (or its redeem script), every other input an empty script",
           func=q, key=f"C04-D2/GATE|{q}|scripts")
    lp = [s for s in fa.stmts(ast.For)]
    ok5 = len(lp) == 1 and unparse(lp[0].target) in ("(i, txin)", "i, txin")
    ctx.ob("C04-D2/DEP", ok5, f2.site(), "inputs are visited in order with their index", func=q)


def channel(ctx, prog):
    sg = ctx.fa(f"{T}.Output.sign")
    gd = ctx.fa(f"{T}.Output.get_signature_digest")
    q = sg.fi.qualname
    # signer pieces
    dig = [s for s in sg.stmts(ast.Assign) if any(dotted(t) == "digest" for t in s.targets)]
    ctx.floor("C04-D3/SYM", "digest in Output.sign", len(dig), 1, site=sg.site(), func=q)
    spieces = None
    if dig:
        v = dig[0].value
        ok = isinstance(v, ast.Call) and dotted(v.func) == "sha256" and isinstance(v.args[0], ast.Call) and unparse(v.args[0].func) == "b''.join" and \
            isinstance(v.args[0].args[0], ast.List)
        if ok:
            spieces = [unparse(e) for e in v.args[0].args[0].elts]
    # verifier pieces (new style branch)
    vp = None
    legacy = None
    for s in gd.stmts(ast.Assign):
        if any(dotted(t) == "pieces" for t in s.targets) and isinstance(s.value, ast.List):
            if gd.guarded(s, "self.signable.unsigned_payload")[0]:
                legacy = [unparse(e) for e in s.value.elts]
            elif gd.guarded(s, "not self.signable.unsigned_payload")[0]:
                vp = [unparse(e) for e in s.value.elts]
    want = ["self.tx_ref.tx.inputs[0].txo_ref.hash", "self.signable.signing_channel_hash", "self.signable.to_message_bytes()"]
    norm_s = [x.replace("first_input_id or ", "") for x in spieces] if spieces else None
    ok = norm_s == vp == want
    ctx.ob("C04-D3/SYM", ok, sg.site(), "signer and verifier hash the same pieces in the same order: first input's outpoint hash ‖ signing channel hash ‖ message bytes",
           detail="" if ok else f"sign: {spieces}  verify: {vp}", func=q, key="C04-D3/SYM|pieces")
    r = R.single_return_value(gd)
    ctx.ob("C04-D3/SYM", r is not None and unparse(r.value) == "sha256(b''.join(pieces))", gd.site(), "the verifier's digest is SHA-256 of the joined pieces (as the signer's)",
           func=gd.fi.qualname)
    okl = legacy == ["Base58.decode(self.get_address(ledger))", "self.signable.unsigned_payload", "self.signable.signing_channel_hash[::-1]"]
    ctx.ob("C04-D3/SYM", okl, gd.site(), "signatures of earlier releases: address ‖ unsigned payload ‖ reversed channel hash, selected by unsigned_payload",
           detail="" if okl else str(legacy), func=gd.fi.qualname, key="C04-D3/SYM|legacy")
    # signer wiring
    t = unparse(sg.node)
    ok = "self.signable.signing_channel_hash = channel.claim_hash" in t and "self.signable.signature = channel.private_key.sign_compact(digest)" in t
    ctx.ob("C04-D3/DEP", ok, sg.site(), "the channel hash recorded is the signing channel's claim hash and the signature is made with that channel's key over that digest",
           func=q)
    o1 = [s for s in sg.stmts(ast.Assign) if unparse(s.targets[0]) == "self.signable.signing_channel_hash"]
    ok = bool(o1) and bool(dig) and sg.must_precede(dig[0], lambda n: n is o1[0]) is None
    ctx.ob("C04-D3/ORDER", ok, sg.site(), "the channel hash is set before the digest that includes it is computed", func=q)
    gen = sg.calls(dotted_name="self.script.generate")
    sigset = [s for s in sg.stmts(ast.Assign) if unparse(s.targets[0]) == "self.signable.signature"]
    ok = len(gen) == 1 and bool(sigset) and sg.must_precede(gen[0], lambda n: n is sigset[0]) is None
    ctx.ob("C04-D3/ORDER", ok, sg.site(), "the output script is regenerated with the signature in it", func=q)
    # verifier wiring
    isb = ctx.fa(f"{T}.Output.is_signed_by")
    r = R.single_return_value(isb)
    ok = r is not None and unparse(r.value) == "self.is_signature_valid(self.signable.signature, self.get_signature_digest(ledger), channel.claim.channel.public_key_bytes)"
    ctx.ob("C04-D3/DEP", ok, isb.site(), "validation checks the stored signature over that digest under the given channel's public key", func=isb.fi.qualname,
           key="C04-D3/DEP|is_signed_by")
    isv = ctx.fa(f"{T}.Output.is_signature_valid")
    r = R.single_return_value(isv)
    ok = r is not None and unparse(r.value) == "PublicKey.from_compressed(public_key_bytes).verify(signature, digest)"
    ctx.ob("C04-D3/DEP", ok, isv.site(), "through PublicKey.from_compressed(key).verify(signature, digest)", func=isv.fi.qualname)
    # channel public key bytes: 33-byte keys as is, legacy DER keys through the curve library
    pk = prog.cls("lbry.schema.claim.Channel").methods.get("public_key_bytes")
    if pk is not None:
        fa = ctx.eng.fa_of(pk)
        rets = fa.stmts(ast.Return)
        fast = [r for r in rets if unparse(r.value) == "self.message.public_key"]
        okf = len(fast) == 1 and fa.guarded(fast[0], "len(self.message.public_key) == 33")[0]
        slow = [r for r in rets if r not in fast]
        oks = len(slow) == 1 and "cPublicKey(" in fa.expanded_text(slow[0].value) and ".format(compressed=True)" in fa.expanded_text(slow[0].value) and \
            "PublicKeyInfo.load(self.message.public_key)" in fa.expanded_text(slow[0].value)
        ctx.ob("C04-D3/DEP", okf and oks and len(rets) == 2, fa.site(), "a channel key is used as stored when compressed (33 bytes); a legacy DER key is parsed and "
               "re-compressed by the curve library (which rejects points not on the curve), never by hand", func=pk.qualname, key="C04-D3/DEP|channel-key")


def verify(ctx, prog):
    vf = ctx.fa(f"{K}.PublicKey.verify")
    q = vf.fi.qualname
    sig, dg = vf.fi.params()[1:3]
    rz = R.raise_kinds(vf)
    ok = any(vf.guarded(x, f"len({sig}) != 64")[0] for x, k in rz) and any(vf.guarded(x, f"len({dg}) != 32")[0] for x, k in rz)
    ctx.ob("C04-D4/GATE", ok, vf.site(), "verify refuses signatures that are not 64 bytes and digests that are not 32 bytes", func=q)
    ctx.floor("C04-D4/GATE", "length refusals in PublicKey.verify", len(rz), 2, site=vf.site(), func=q)
    exp = [f"len({sig}) != 64", f"len({sig}) == 64 and len({dg}) != 32"]
    for (x, k), g in zip(rz, exp):
        R.exact_gate(ctx, "C04-D4/GATE", vf, x, g, "each refusal fires exactly for its wrong length (a 64-byte signature over a 32-byte digest always reaches the curve library)",
                     key=f"C04-D4/GATE|{q}|refuse-exact|{g[-2:]}")
    asr = [a for a in vf.stmts(ast.Assert)]
    pc = [x for x in vf.stmts(ast.Assign) if "secp256k1_ecdsa_signature_parse_compact" in unparse(x.value)]
    ok = len(pc) == 1 and any(R.same_test(a.test, f"{dotted(pc[0].targets[0])} == 1") for a in asr)
    ctx.ob("C04-D4/GATE", ok, vf.site(), "a signature the library cannot parse is refused (parse result asserted == 1), never verified from an uninitialised structure", func=q,
           key=f"C04-D4/GATE|{q}|parsed")
    calls = {call_name(c): c for c in vf.calls() if call_name(c).startswith("secp256k1_")}
    need = ["secp256k1_ecdsa_signature_parse_compact", "secp256k1_ecdsa_signature_normalize", "secp256k1_ecdsa_verify"]
    ok = all(n in calls for n in need)
    ctx.ob("C04-D4/ORDER", ok, vf.site(), "verify parses, normalises and verifies", detail="" if ok else f"calls present: {sorted(calls)}", func=q, key=f"C04-D4/ORDER|{q}|steps")
    if ok:
        p, n, v = (calls[x] for x in need)
        o1 = vf.must_precede(n, lambda x: x is p) is None and vf.must_precede(v, lambda x: x is n) is None
        ctx.ob("C04-D4/ORDER", o1, vf.site(v), "in that order", func=q)
        raw = dotted(p.args[1]) if len(p.args) > 1 else None
        okp = len(p.args) == 3 and dotted(p.args[2]) == sig
        okn = len(n.args) == 3 and dotted(n.args[2]) == raw
        nor = dotted(n.args[1]) if len(n.args) > 1 else None
        okv = len(v.args) == 4 and dotted(v.args[1]) == nor and dotted(v.args[2]) == dg and unparse(v.args[3]) == "key.public_key"
        ctx.ob("C04-D4/DEP", okp and okn and okv, vf.site(v), "the signature given is parsed, its normalised (low-S) form is what is verified — high-S signatures made by "
               "earlier releases stay valid — over the digest given, under this key", detail="" if okp and okn and okv else
               f"parse({[unparse(a) for a in p.args]}) normalize({[unparse(a) for a in n.args]}) verify({[unparse(a) for a in v.args]})", func=q,
               key=f"C04-D4/DEP|{q}|normalised")
        r = R.single_return_value(vf)
        vn = R.names_defined_by(vf, lambda x: x is v)
        ctx.ob("C04-D4/DEP", r is not None and bool(vn) and unparse(r.value) == f"bool({vn[0]})", vf.site(), "the verdict is the library's result", func=q)
    ks = [s for s in vf.stmts(ast.Assign) if any(dotted(t) == "key" for t in s.targets)]
    ctx.ob("C04-D4/DEP", len(ks) == 1 and unparse(ks[0].value) == "self.verifying_key", vf.site(), "the key is this object's verifying key", func=q)
