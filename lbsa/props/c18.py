"""C18 — blob bookkeeping matches the disk after any restart."""
import ast

from ..astutil import dotted, call_name, unparse, norm_text, walk_local_body, kwarg, is_const, MUTATORS
from .. import rules as R

EXPLANATION = (
    "Abstract set-algebra evaluation plus ordering / ownership analysis of the restart reconciliation. In "
    "storage.sync_missing_blobs the expressions are evaluated over the Venn regions of (files on disk, rows "
    "marked finished): the value returned is exactly files ∩ finished, the rows set to 'pending' are exactly "
    "finished − files, both are fed by the status='finished' SELECT, and the caller's scan set is not mutated in "
    "place. BlobManager.setup unconditionally runs scan → sync_missing_blobs(scan) → completed.update(result) → "
    "ensure_completed_blobs_status(scan − result); completed_blob_hashes only grows from that value and from "
    "blob_completed for on-disk blobs; ensure_completed_blobs_status records a hash only under "
    "is_blob_verified (file exists) and always flushes the whole batch with finished=True; add_blobs "
    "inserts-or-ignores and upgrades to 'finished'. The completion callback runs only as a done-callback of the "
    "file-write task (file before row). Deletion removes the file, the in-memory entry and (when asked) the row."
)
EXACTNESS = "Second pass (DESIGN.md §10, exactness / completeness halves) — `is_blob_verified`, `blob_completed`, `delete_blob`, re-examination and scan effects under exactly their tests; defaults of `delete_blobs`; file-backed object for every blob whose file exists."
TECHNIQUE = "static analysis: abstract interpretation of set expressions over Venn regions, must-pass-through ordering, who-may-write, SQL site lexing; exact fact-set comparison of the tests dominating each effect and refusal (effect / refusal tables), fall-through path queries"
NOT_DECIDED = "the state equality 'after any history followed by a restart' over sqlite + directory contents (the decided clauses are exactly the restart step); sqlite/WAL crash semantics"
ASSUMPTIONS = ["sqlite executes the literal SQL as written; os.scandir lists the blob directory"]

BM = "lbry.blob.blob_manager.BlobManager"
ST = "lbry.extras.daemon.storage.SQLiteStorage"
ABS = "lbry.blob.blob_file.AbstractBlob"

FULL = {"F&D", "F-D", "D-F"}
IDENT = {"set", "tuple", "list", "frozenset", "sorted", "iter"}


class SetEval:
    """values are frozensets of Venn regions of F (files) and D (finished rows)"""

    def __init__(self, fa, base):
        self.fa, self.base = fa, dict(base)
        self.problems = []

    def ev(self, e, node):
        if isinstance(e, ast.Name):
            ds = self.fa.rd.reaching(e.id, node)
            if e.id in self.base:
                # the role of this name was established by its (single) definition
                return self.base[e.id] if len(ds) <= 1 else None
            if len(ds) == 1 and ds[0].value is not None:
                return self.ev(ds[0].value, ds[0].node)
            return None
        if isinstance(e, ast.Await):
            return self.ev(e.value, node)
        if isinstance(e, ast.BinOp):
            a, b = self.ev(e.left, node), self.ev(e.right, node)
            if a is None or b is None:
                return None
            if isinstance(e.op, ast.Sub):
                return a - b
            if isinstance(e.op, ast.BitAnd):
                return a & b
            if isinstance(e.op, ast.BitOr):
                return a | b
            if isinstance(e.op, ast.BitXor):
                return a ^ b
            return None
        if isinstance(e, ast.Call):
            fn = call_name(e)
            if isinstance(e.func, ast.Name) and fn in IDENT and len(e.args) == 1:
                return self.ev(e.args[0], node)
            if isinstance(e.func, ast.Attribute) and fn in ("difference", "intersection", "union", "symmetric_difference") \
                    and len(e.args) == 1:
                a, b = self.ev(e.func.value, node), self.ev(e.args[0], node)
                if a is None or b is None:
                    return None
                return {"difference": a - b, "intersection": a & b, "union": a | b, "symmetric_difference": a ^ b}[fn]
            if isinstance(e.func, ast.Attribute) and fn in ("copy", "fetchall"):
                return self.ev(e.func.value, node)
            if fn == "execute" and e.args and isinstance(e.args[0], ast.Constant):
                sql = " ".join(str(e.args[0].value).lower().split())
                if sql == "select blob_hash from blob where status='finished'":
                    return frozenset({"F&D", "D-F"})
                return None
            return None
        if isinstance(e, (ast.GeneratorExp, ast.ListComp, ast.SetComp)):
            if len(e.generators) == 1 and not e.generators[0].ifs:
                g = e.generators[0]
                tnames = [n.id for n in ast.walk(g.target) if isinstance(n, ast.Name)]
                elt = e.elt.elts[0] if isinstance(e.elt, ast.Tuple) and len(e.elt.elts) == 1 else e.elt
                if isinstance(elt, ast.Name) and elt.id in tnames and len(tnames) == 1:
                    return self.ev(g.iter, node)
            return None
        return None


def check(ctx):
    prog = ctx.prog
    sync(ctx, prog)
    setup(ctx, prog)
    ensure(ctx, prog)
    add_blobs(ctx, prog)
    callback(ctx, prog)
    deletion(ctx, prog)


def sync(ctx, prog):
    outer = ctx.fa(f"{ST}.sync_missing_blobs")
    inner = ctx.fa(f"{ST}.sync_missing_blobs.<locals>._sync_blobs")
    q = inner.fi.qualname
    fparam = [p for p in outer.fi.params() if p != "self"][0]
    se = SetEval(inner, {fparam: frozenset({"F&D", "F-D"})})
    rets = [r for r in inner.stmts(ast.Return) if r.value is not None]
    ctx.floor("C18-D1/SET", "return of _sync_blobs", len(rets), 1, site=inner.site(), func=q)
    for r in rets:
        v = se.ev(r.value, inner.cfg_nodes(r)[0])
        ctx.ob("C18-D1/SET", v == frozenset({"F&D"}), inner.site(r), "reported as completed = files on disk ∩ rows marked finished",
               detail="" if v == frozenset({"F&D"}) else f"`{unparse(r.value)}` evaluates to regions {sorted(v) if v is not None else 'unknown'}",
               func=q, key=f"C18-D1/SET|{q}|return")
    ups = [c for c in inner.calls(name="executemany") + inner.calls(name="execute")
           if c.args and isinstance(c.args[0], ast.Constant) and str(c.args[0].value).lower().lstrip().startswith("update")]
    ctx.floor("C18-D1/SET", "UPDATE in _sync_blobs", len(ups), 1, site=inner.site(), func=q)
    for c in ups:
        sql = " ".join(c.args[0].value.lower().split())
        ok = sql == "update blob set status='pending' where blob_hash=?"
        ctx.ob("C18-D1/SQL", ok, inner.site(c), "rows are downgraded to 'pending' by blob_hash", detail="" if ok else sql, func=q)
        v = se.ev(c.args[1], inner.cfg_nodes(c)[0]) if len(c.args) > 1 else None
        ctx.ob("C18-D1/SET", v == frozenset({"D-F"}), inner.site(c), "downgraded rows = rows marked finished − files on disk",
               detail="" if v == frozenset({"D-F"}) else f"evaluates to regions {sorted(v) if v is not None else 'unknown'}", func=q,
               key=f"C18-D1/SET|{q}|update")
    # the caller's set is not mutated in place
    mut = []
    for n in walk_local_body(inner.node):
        if isinstance(n, ast.Call) and isinstance(n.func, ast.Attribute) and dotted(n.func.value) == fparam \
                and (n.func.attr in MUTATORS):
            mut.append(n)
        if isinstance(n, ast.AugAssign) and dotted(n.target) == fparam:
            mut.append(n)
    ctx.ob("C18-D1/EFFECT", not mut, inner.site(mut[0]) if mut else inner.site(),
           f"the caller's scan set `{fparam}` is not modified in place (setup computes scan − result afterwards)",
           detail="; ".join(norm_text(m)[:70] for m in mut), func=q)
    runs = [c for c in outer.calls(name="run") if c.args and dotted(c.args[0]) == "_sync_blobs"]
    ctx.ob("C18-D1/DEP", len(runs) == 1 and any(isinstance(r.value, ast.Call) and r.value is runs[0] for r in outer.stmts(ast.Return)),
           outer.site(), "sync_missing_blobs returns the result of that transaction", func=outer.fi.qualname)


def setup(ctx, prog):
    fa = ctx.fa(f"{BM}.setup")
    q = fa.fi.qualname
    scan = R.one_name(ctx, "C18-D2/ORDER", fa, lambda v: isinstance(v, ast.Call) and call_name(v) == "run_in_executor"
                      and len(v.args) == 2 and dotted(v.args[1]) == "get_files_in_blob_dir", "the directory scan")
    res = R.one_name(ctx, "C18-D2/ORDER", fa, lambda v: isinstance(v, ast.Call) and call_name(v) == "sync_missing_blobs", "the reconciliation result")
    if not scan or not res:
        return
    sm = fa.calls(name="sync_missing_blobs")[0]
    ctx.ob("C18-D2/DEP", len(sm.args) == 1 and dotted(sm.args[0]) == scan, fa.site(sm), "reconciliation is given the directory scan",
           func=q)
    se = SetEval(fa, {scan: frozenset({"F&D", "F-D"}), res: frozenset({"F&D"})})
    ups = [c for c in fa.calls(dotted_name="self.completed_blob_hashes.update")]
    ctx.floor("C18-D2/ORDER", "completed_blob_hashes.update in setup", len(ups), 1, site=fa.site(), func=q)
    for c in ups:
        ctx.ob("C18-D2/DEP", len(c.args) == 1 and dotted(c.args[0]) == res, fa.site(c),
               "completed_blob_hashes is fed the reconciliation result (never the raw scan)",
               detail="" if len(c.args) == 1 and dotted(c.args[0]) == res else unparse(c), func=q)
        R.exact_gate(ctx, "C18-D2/GATE", fa, c, res, "the result is recorded whenever it is non-empty (no other condition)",
                     key=f"C18-D2/GATE|{q}|update")
    ens = fa.calls(name="ensure_completed_blobs_status")
    ctx.floor("C18-D2/ORDER", "ensure_completed_blobs_status call in setup", len(ens), 1, site=fa.site(), func=q)
    for c in ens:
        v = se.ev(c.args[0], fa.cfg_nodes(c)[0]) if c.args else None
        ctx.ob("C18-D2/SET", v == frozenset({"F-D"}), fa.site(c), "files present but not recorded finished (scan − result) are re-examined",
               detail="" if v == frozenset({"F-D"}) else f"`{unparse(c.args[0]) if c.args else ''}` evaluates to {sorted(v) if v is not None else 'unknown'}",
               func=q, key=f"C18-D2/SET|{q}|ensure-arg")
    # both steps run on every start, in order
    for calls, what in ((fa.calls(name="sync_missing_blobs"), "sync_missing_blobs"), (ens, "ensure_completed_blobs_status")):
        p = fa.path([fa.cfg.entry], [fa.cfg.exit], avoid=lambda n, cs=calls: fa.evaluates(n, lambda s: s in cs), include_exc=False)
        ctx.ob("C18-D2/ORDER", p is None, fa.site(calls[0]) if calls else fa.site(), f"every start runs {what} (unconditionally)",
               detail="" if p is None else "skipping path " + fa.fmt_path(p), func=q, key=f"C18-D2/ORDER|{q}|always|{what}")
    for c in ens:
        p = fa.must_precede(c, lambda n: n is sm)
        ctx.ob("C18-D2/ORDER", p is None, fa.site(c), "reconciliation precedes the re-examination", func=q)
    # the scan
    sc = ctx.fa(f"{BM}.setup.<locals>.get_files_in_blob_dir")
    rets = [r for r in sc.stmts(ast.Return) if isinstance(r.value, ast.SetComp)]
    ok = False
    for r in rets:
        g = r.value.generators[0]
        ok = isinstance(g.iter, ast.Call) and dotted(g.iter.func) == "os.scandir" and unparse(g.iter.args[0]) == "self.blob_dir" \
            and unparse(r.value.elt) == f"{dotted(g.target)}.name" and len(g.ifs) == 1 and \
            unparse(g.ifs[0]) == f"is_valid_blobhash({dotted(g.target)}.name)"
    ctx.ob("C18-D2/DEP", ok, sc.site(), "the scan lists every valid blob-hash file name in the blob directory", func=sc.fi.qualname)

    # who grows completed_blob_hashes
    sites = R.writers_only(ctx, "C18-D2/WRITERS", "completed_blob_hashes",
                           [f"{BM}.__init__", f"{BM}.setup", f"{BM}.blob_completed", f"{BM}.get_blob", f"{BM}.delete_blob", f"{BM}.stop"],
                           "completed set", floor=5)
    adders = {f.qualname for m, node, kind, recv, f in sites if kind in ("call:add", "call:update") and f is not None}
    ctx.ob("C18-D2/WRITERS", adders == {f"{BM}.setup", f"{BM}.blob_completed"}, "lbry/blob/blob_manager.py:1",
           "completed_blob_hashes grows only in setup (reconciled value) and blob_completed", detail=str(sorted(adders)))
    bc = ctx.fa(f"{BM}.blob_completed")
    for c in bc.calls(dotted_name="self.completed_blob_hashes.add"):
        R.gate(ctx, "C18-D2/GATE", bc, c, "isinstance(blob, BlobFile)", "only blobs that live on disk are reported completed",
               key="C18-D2/GATE|blob_completed|onfile")
    ab = bc.calls(name="add_blobs")
    ctx.floor("C18-D2/DEP", "add_blobs in blob_completed", len(ab), 2, site=bc.site(), func=bc.fi.qualname)
    for c in ab:
        fin = kwarg(c, "finished")
        onfile = bc.guarded(c, "isinstance(blob, BlobFile)")[0]
        ok = fin is not None and is_const(fin, True if onfile else False)
        ctx.ob("C18-D2/DEP", ok, bc.site(c), f"{'on-disk' if onfile else 'in-memory'} blob is recorded finished={onfile}", func=bc.fi.qualname)


def ensure(ctx, prog):
    fa = ctx.fa(f"{BM}.ensure_completed_blobs_status")
    q = fa.fi.qualname
    apps = [c for c in fa.calls(name="append") if isinstance(c.func.value, ast.Name)]
    ctx.floor("C18-D2/GATE", "batch append in ensure_completed_blobs_status", len(apps), 1, site=fa.site(), func=q)
    lists = {c.func.value.id for c in apps}
    loop = fa.stmts((ast.For, ast.AsyncFor))
    lv = dotted(loop[0].target) if loop else None
    prm = [p for p in fa.fi.params() if p != "self"][0]
    ctx.ob("C18-D2/DEP", bool(loop) and dotted(loop[0].iter) == prm, fa.site(), "every hash handed in is examined", func=q)
    for c in apps:
        R.gate(ctx, "C18-D2/GATE", fa, c, f"self.is_blob_verified({lv})", "a file is recorded finished only when its blob verifies (file exists with a consistent size)",
               key=f"C18-D2/GATE|{q}|verified")
        e = fa.expand(c.args[0]) if c.args else None
        ok = isinstance(e, ast.Tuple) and len(e.elts) == 4 and unparse(e.elts[0]) == f"self.get_blob({lv}).blob_hash"
        ctx.ob("C18-D2/DEP", ok, fa.site(c), "the row recorded is that blob's (hash, length, added_on, is_mine)",
               detail="" if ok else unparse(e)[:100] if e is not None else "", func=q)
    adds = fa.calls(name="add_blobs")
    ctx.floor("C18-D2/DEP", "add_blobs in ensure_completed_blobs_status", len(adds), 1, site=fa.site(), func=q)
    for c in adds:
        whole = len(c.args) == 1 and isinstance(c.args[0], ast.Starred) and isinstance(c.args[0].value, ast.Name) \
            and c.args[0].value.id in lists
        fin = kwarg(c, "finished")
        ctx.ob("C18-D2/DEP", whole, fa.site(c), "a flush writes the whole pending batch", detail="" if whole else unparse(c)[:90], func=q,
               key=f"C18-D2/DEP|{q}|whole-batch|{'ret' if fa.lexically_inside(c, lambda a: isinstance(a, ast.Return)) else 'mid'}")
        ctx.ob("C18-D2/DEP", fin is not None and is_const(fin, True), fa.site(c), "flushed rows are marked finished", func=q)
    for c in fa.calls(name="clear"):
        if dotted(c.func.value) in lists:
            p = fa.must_precede(c, lambda n: n in adds)
            ctx.ob("C18-D2/ORDER", p is None, fa.site(c), "the batch is cleared only after it was flushed", func=q)
    # the final flush is unconditional
    p = fa.path([fa.cfg.entry], [fa.cfg.exit], avoid=lambda n: fa.evaluates(n, lambda s: s in adds and
                fa.lexically_inside(s, lambda a: isinstance(a, (ast.For, ast.AsyncFor, ast.While))) is None), include_exc=False)
    ctx.ob("C18-D2/ORDER", p is None, fa.site(), "what remains in the batch is always flushed at the end",
           detail="" if p is None else "path " + fa.fmt_path(p), func=q)
    iv = ctx.fa(f"{BM}.is_blob_verified")
    rf = [r for r in iv.stmts(ast.Return) if is_const(r.value, False)]
    ok = any(iv.guarded(r, "not os.path.isfile(os.path.join(self.blob_dir, blob_hash))")[0] for r in rf)
    ctx.ob("C18-D2/GATE", ok, iv.site(), "a hash whose file is absent is never verified", func=iv.fi.qualname)


def add_blobs(ctx, prog):
    fa = ctx.fa(f"{ST}.add_blobs.<locals>._add_blobs")
    q = fa.fi.qualname
    ex = [c for c in fa.calls(name="executemany") if c.args and isinstance(c.args[0], ast.Constant)]
    ins = [c for c in ex if " ".join(c.args[0].value.lower().split()).startswith("insert or ignore into blob")]
    upd = [c for c in ex if " ".join(c.args[0].value.lower().split()) == "update blob set status='finished' where blob.blob_hash=?"]
    ctx.ob("C18-D2/SQL", len(ins) == 1, fa.site(), "add_blobs inserts-or-ignores the rows", func=q)
    ctx.ob("C18-D2/SQL", len(upd) == 1, fa.site(), "add_blobs upgrades existing rows to 'finished'", func=q)
    for c in ins:
        txt = unparse(c.args[1]) if len(c.args) > 1 else ""
        ok = "'pending' if not finished else 'finished'" in txt or "'finished' if finished else 'pending'" in txt
        ctx.ob("C18-D2/SQL", ok, fa.site(c), "inserted status follows the `finished` flag", detail="" if ok else txt[:120], func=q)
    for c in upd:
        R.gate(ctx, "C18-D2/GATE", fa, c, "finished", "rows are upgraded only when finished=True", key=f"C18-D2/GATE|{q}|finished")
        R.exact_gate(ctx, "C18-D2/GATE", fa, c, "finished", "…and always then", key=f"C18-D2/GATE|{q}|finished-exact")
        g = c.args[1] if len(c.args) > 1 else None
        ok = isinstance(g, ast.GeneratorExp) and dotted(g.generators[0].iter) == "blob_hashes_and_lengths" and not g.generators[0].ifs
        ctx.ob("C18-D2/DEP", ok, fa.site(c), "every row handed in is upgraded", func=q)


def callback(ctx, prog):
    sv = ctx.fa(f"{ABS}.save_verified_blob")
    q = sv.fi.qualname
    sites = [(m, n, f) for m, n, f in R.ref_sites(prog, "blob_completed_callback") if isinstance(n, ast.Attribute)]
    calls = [n for m, n, f in sites if isinstance(getattr(n, "_parent", None), ast.Call) and n._parent.func is n]
    ctx.floor("C18-D3/ORDER", "invocation of blob_completed_callback", len(calls), 1, site=sv.site(), func=q)
    for n in calls:
        call = n._parent
        lam = None
        a = call
        while getattr(a, "_parent", None) is not None:
            a = a._parent
            if isinstance(a, ast.Lambda):
                lam = a
                break
            if isinstance(a, (ast.FunctionDef, ast.AsyncFunctionDef)):
                break
        ok = False
        if lam is not None and isinstance(getattr(lam, "_parent", None), ast.Call) and call_name(lam._parent) == "add_done_callback":
            tname = dotted(lam._parent.func.value)
            f = prog.function_of(lam)
            if f is not None and f.qualname == q:
                defs = [s for s in sv.stmts(ast.Assign) if any(dotted(t) == tname for t in s.targets)]
                ok = len(defs) == 1 and isinstance(defs[0].value, ast.Call) and dotted(defs[0].value.func) == "self._write_blob"
        m = prog.module_of(n)
        ctx.ob("C18-D3/ORDER", ok, f"{m.relpath}:{n.lineno}", "the completion callback runs only as a done-callback of the file-write task "
               "(the row is recorded after the file exists)", func=getattr(prog.function_of(n), "qualname", None))
        ctx.ob("C18-D3/DEP", len(call.args) == 1 and dotted(call.args[0]) == "self", f"{m.relpath}:{n.lineno}",
               "the callback is told which blob completed", func=q)


def deletion(ctx, prog):
    fa = ctx.fa(f"{BM}.delete_blobs")
    q = fa.fi.qualname
    prm = [p for p in fa.fi.params() if p != "self"][0]
    loops = fa.stmts(ast.For)
    ok = bool(loops) and dotted(loops[0].iter) == prm and any(
        isinstance(c, ast.Call) and dotted(c.func) == "self.delete_blob" and c.args and dotted(c.args[0]) == dotted(loops[0].target)
        for c in ast.walk(loops[0]))
    ctx.ob("C18-D4/DEP", ok, fa.site(), "every listed blob is deleted locally", func=q)
    dflt = {a.arg: d for a, d in zip(reversed(fa.node.args.args), reversed(fa.node.args.defaults))}
    ctx.ob("C18-D4/GATE", is_const(dflt.get("delete_from_db"), True), fa.site(), "delete_blobs removes the rows by default (delete_from_db=True)", func=q, key=f"C18-D4/GATE|{q}|default")
    for c in fa.calls(name="delete_blobs_from_db"):
        R.exact_gate(ctx, "C18-D4/GATE", fa, c, "delete_from_db", "rows are removed exactly when delete_from_db is set",
                     key=f"C18-D4/GATE|{q}|rows")
        ctx.ob("C18-D4/DEP", len(c.args) == 1 and dotted(c.args[0]) == prm, fa.site(c), "the rows removed are those of the deleted blobs", func=q)
    ctx.floor("C18-D4/DEP", "delete_blobs_from_db call", len(fa.calls(name="delete_blobs_from_db")), 1, site=fa.site(), func=q)
    db = ctx.fa(f"{BM}.delete_blob")
    rm = db.calls(dotted_name="self.completed_blob_hashes.remove")
    ctx.ob("C18-D4/DEP", len(rm) >= 1, db.site(), "a deleted blob leaves the completed set", func=db.fi.qualname)
    dl = [c for c in db.calls(name="delete")] + db.calls(dotted_name="os.remove")
    ctx.ob("C18-D4/DEP", len(dl) >= 2, db.site(), "deletion removes the file (directly or through the blob object)", func=db.fi.qualname)
    dd = ctx.fa(f"{ST}.delete_blobs_from_db.<locals>.delete_blobs")
    sql = [c for c in dd.calls(name="executemany") if c.args and isinstance(c.args[0], ast.Constant)]
    ok = len(sql) == 1 and " ".join(sql[0].args[0].value.lower().split()).rstrip(";") == "delete from blob where blob_hash=?"
    ctx.ob("C18-D4/SQL", ok, dd.site(), "row deletion is by blob_hash", func=dd.fi.qualname)


_base_check_c18 = check


def check(ctx):            # noqa: F811  (extends the rules above)
    _base_check_c18(ctx)
    exact(ctx, ctx.prog)
    periphery(ctx, ctx.prog)


def periphery(ctx, prog):
    """what the reconciliation relies on outside BlobManager.setup: the blob objects it builds, the one shared completed set, the stream recovery pass"""
    import ast
    from ..astutil import dotted, unparse
    from .. import rules as R
    # a blob file found on disk becomes a verified object WITH a length (a row without a length is silently not inserted): C01's adoption rules
    R.share(ctx, "C01", {"C01-D6/DEP": "C18-D7/DEP", "C01-D2/GATE": "C18-D7/GATE", "C01-D2/WRITERS": "C18-D7/WRITERS"})
    # ONE set object: BlobManager.__init__ hands `completed_blob_hashes` to the DHT data store; re-binding the attribute later leaves the store with the
    # old set (it keeps reporting blobs whose files are gone).  The set is emptied / filled in place only.
    BM = "lbry.blob.blob_manager.BlobManager"
    R.writers_only(ctx, "C18-D7/WRITERS", "completed_blob_hashes", [f"{BM}.__init__", "lbry.dht.protocol.data_store.DictDataStore.__init__", "lbry.dht.node.Node.__init__",
                                                                     "lbry.dht.protocol.protocol.KademliaProtocol.__init__", "lbry.dht.protocol.protocol.KademliaRPC.__init__"],
                   "the completed set is bound once", floor=1, kinds=("assign", "augassign", "delete"))
    st = ctx.fa(f"{BM}.stop")
    cl = st.calls(dotted_name="self.completed_blob_hashes.clear")
    ctx.ob("C18-D7/DEP", bool(cl) and all(id(R.stmt_of(c)) in {id(x) for x in st.fi.node.body} for c in cl), st.site(), "stop() empties the completed set in place, unconditionally", func=st.fi.qualname,
           key=f"C18-D7/DEP|{BM}.stop|clear")
    # stream recovery re-creates blob rows as pending; every hash whose file may be present — the rebuilt sd blob and all content blobs — is re-checked
    rs = ctx.fa("lbry.stream.stream_manager.StreamManager.recover_streams.<locals>.recover_stream")
    ex = [c for c in rs.calls(name="extend") if dotted(c.func.value) == "to_check"]
    ctx.floor("C18-D7/DEP", "hashes queued for the completed-status check", len(ex), 1, site=rs.site(), func=rs.fi.qualname)
    for c in ex:
        t = unparse(c.args[0]) if c.args else ""
        ok = "sd_blob.blob_hash" in [unparse(x) for x in ast.walk(c.args[0]) if isinstance(x, ast.Attribute)] and \
            any(isinstance(x, (ast.ListComp, ast.GeneratorExp)) and unparse(x.generators[0].iter) == "descriptor.blobs[:-1]" and unparse(x.elt) == f"{unparse(x.generators[0].target)}.blob_hash"
                and not x.generators[0].ifs for x in ast.walk(c.args[0]))
        ctx.ob("C18-D7/DEP", ok, rs.site(c), "queued: the sd blob's hash and the hash of every content blob (all but the terminator), unfiltered", detail="" if ok else t, func=rs.fi.qualname,
               key="C18-D7/DEP|recover_stream|to_check")
        R.exact_gate(ctx, "C18-D7/GATE", rs, c, "descriptor", "…for every stream whose descriptor could be rebuilt", key="C18-D7/GATE|recover_stream|to_check")
    outer = ctx.fa("lbry.stream.stream_manager.StreamManager.recover_streams")
    en = outer.calls(name="ensure_completed_blobs_status")
    ok = len(en) == 1 and len(en[0].args) == 1 and dotted(en[0].args[0]) == "to_check"
    ctx.ob("C18-D7/DEP", ok, outer.site(), "the queued hashes are handed to ensure_completed_blobs_status", func=outer.fi.qualname, key="C18-D7/DEP|recover_streams|ensure")
    for c in en:
        R.exact_gate(ctx, "C18-D7/GATE", outer, c, "to_check", "…whenever there are any", key="C18-D7/GATE|recover_streams|ensure")
        rec = outer.calls(dotted_name="self.storage.recover_streams")
        ok = bool(rec) and all(outer.path(outer.cfg_nodes(c), outer.cfg_nodes(r), include_exc=False) is None for r in rec)
        ctx.ob("C18-D7/ORDER", ok, outer.site(c), "the status check runs AFTER the rows were re-created (storage.recover_streams resets them to pending)", func=outer.fi.qualname,
               key="C18-D7/ORDER|recover_streams")


def exact(ctx, prog):
    """the completeness halves: every verified file IS recorded, every completed on-disk blob IS reported, every deletion path removes
    file, cache entry and completed-set entry — each under exactly the function's own tests"""
    import ast
    from ..astutil import norm_text, dotted, is_const
    from .. import rules as R
    BM = "lbry.blob.blob_manager.BlobManager"
    iv = ctx.fa(f"{BM}.is_blob_verified")
    h, ln = iv.fi.params()[1:3]
    vv = [f"is_valid_blobhash({h})", f"os.path.isfile(os.path.join(self.blob_dir, {h}))", f"{h} in self.blobs"]
    R.refusal_table(ctx, "C18-D5/EXACT", iv, [("ValueError", f"not is_valid_blobhash({h})")], "is_blob_verified")
    R.effect_table(ctx, "C18-D5/EXACT", iv, vv, [
        ("return False", f"is_valid_blobhash({h}) and not os.path.isfile(os.path.join(self.blob_dir, {h}))", "no file: not verified"),
        (f"return self.blobs[{h}].get_is_verified()", f"os.path.isfile(os.path.join(self.blob_dir, {h})) and {h} in self.blobs", "a cached blob object answers for itself"),
        (f"return self._get_blob({h}, {ln}).get_is_verified()", f"os.path.isfile(os.path.join(self.blob_dir, {h})) and not {h} in self.blobs", "otherwise a fresh blob object checks the file"),
    ], "is_blob_verified: ")
    bc = ctx.fa(f"{BM}.blob_completed")
    b = bc.fi.params()[1]
    bv = [f"{b}.blob_hash is None", f"{b}.length", f"isinstance({b}, BlobFile)", f"{b}.blob_hash not in self.completed_blob_hashes"]
    R.refusal_table(ctx, "C18-D5/EXACT", bc, [("Blob hash is None", f"{b}.blob_hash is None"), ("Blob has a length of 0", f"not {b}.blob_hash is None and not {b}.length")], "blob_completed")
    R.effect_table(ctx, "C18-D5/EXACT", bc, bv, [
        (f"self.completed_blob_hashes.add({b}.blob_hash)", f"isinstance({b}, BlobFile) and {b}.blob_hash not in self.completed_blob_hashes", "a completed on-disk blob enters the completed set"),
        (f"return self.loop.create_task(self.storage.add_blobs(({b}.blob_hash, {b}.length, {b}.added_on, {b}.is_mine), finished=True))", f"isinstance({b}, BlobFile)",
         "…and its row is recorded finished"),
        (f"return self.loop.create_task(self.storage.add_blobs(({b}.blob_hash, {b}.length, {b}.added_on, {b}.is_mine), finished=False))", f"not isinstance({b}, BlobFile)",
         "an in-memory blob is recorded as not finished"),
    ], "blob_completed: ")
    db = ctx.fa(f"{BM}.delete_blob")
    h = db.fi.params()[1]
    dv = [f"is_valid_blobhash({h})", f"{h} not in self.blobs", "self.blob_dir", f"os.path.isfile(os.path.join(self.blob_dir, {h}))", f"{h} in self.completed_blob_hashes"]
    R.refusal_table(ctx, "C18-D5/EXACT", db, [("invalid blob hash to delete", f"not is_valid_blobhash({h})")], "delete_blob")
    R.effect_table(ctx, "C18-D5/EXACT", db, dv, [
        (f"os.remove(os.path.join(self.blob_dir, {h}))", f"{h} not in self.blobs and self.blob_dir and os.path.isfile(os.path.join(self.blob_dir, {h}))", "an uncached blob's file is removed when it exists"),
        (f"self.blobs.pop({h}).delete()", f"not {h} not in self.blobs", "a cached blob is dropped from the cache and deletes its own file"),
        (f"self.completed_blob_hashes.remove({h})", f"{h} in self.completed_blob_hashes", "…and leaves the completed set"),
    ], "delete_blob: ")
    ec = ctx.fa(f"{BM}.ensure_completed_blobs_status")
    R.effect_table(ctx, "C18-D5/EXACT", ec, ["self.is_blob_verified(blob_hash)", "len(to_add) > 500"], [
        ("blob = self.get_blob(blob_hash)", "self.is_blob_verified(blob_hash)", "every verified file gets its blob object"),
        ("to_add.append((blob.blob_hash, blob.length, blob.added_on, blob.is_mine))", "", "…whose row joins the batch"),
        ("return await self.storage.add_blobs(*to_add, finished=True)", "", "the remaining batch is recorded finished"),
    ], "re-examination: ")
    for x in ec.stmts(ast.Continue):
        R.exact_gate(ctx, "C18-D5/EXACT", ec, x, "not self.is_blob_verified(blob_hash)", "re-examination: a file is skipped exactly when it does not verify", key="C18-D5/EXACT|skip-exact")
    st = ctx.fa(f"{BM}.setup.<locals>.get_files_in_blob_dir")
    R.effect_table(ctx, "C18-D5/EXACT", st, ["self.blob_dir"], [
        ("return set()", "not self.blob_dir", "without a blob directory the scan is empty"),
        ("return {item.name for item in os.scandir(self.blob_dir) if is_valid_blobhash(item.name)}", "self.blob_dir", "otherwise it lists every entry whose name is a valid blob hash"),
    ], "scan: ")
    su = ctx.fa(f"{BM}.setup")
    ok = any(norm_text(x) == "in_blobfiles_dir = await self.loop.run_in_executor(None, get_files_in_blob_dir)" for x in su.stmts(ast.Assign))
    ctx.ob("C18-D5/EXACT", ok, su.site(), "scan: the scan result is what setup reconciles", func=su.fi.qualname)
    gb = ctx.fa(f"{BM}._get_blob")
    h = gb.fi.params()[1]
    cond = f"self.config.save_blobs or (is_valid_blobhash({h}) and os.path.isfile(os.path.join(self.blob_dir, {h})))"
    rets = gb.stmts(ast.Return)
    bf = [r for r in rets if norm_text(r.value).startswith("BlobFile(")]
    bb_ = [r for r in rets if norm_text(r.value).startswith("BlobBuffer(")]
    ifs = [x for x in gb.stmts(ast.If)]
    ok = len(bf) == 1 and len(bb_) == 1 and len(ifs) == 1 and R.same_test(ifs[0].test, cond) and bf[0] in ifs[0].body
    ctx.ob("C18-D5/EXACT", ok, gb.site(), "a blob whose file is in the blob directory is represented by a file-backed object even when new blobs are kept in memory only (save_blobs off): "
           "only a file-backed object can verify the file and be recorded finished at restart", detail="" if ok else (norm_text(ifs[0].test) if ifs else ""), func=gb.fi.qualname,
           key="C18-D5/EXACT|_get_blob")
    for r in bf + bb_:
        ok = f"{h}, " in norm_text(r.value) and "self.blob_completed, self.blob_dir" in norm_text(r.value)
        ctx.ob("C18-D5/EXACT", ok, gb.site(r), "…built for the requested hash, in the blob directory, reporting completion to this manager", func=gb.fi.qualname)
