"""C05 — transaction wire format and txid agree with the Bitcoin/LBRY encoding."""
import ast

from .. import AnalysisError
from ..astutil import dotted, call_name, unparse, norm_text, walk_local_body, kwarg, is_const
from ..consteval import Evaluator, Unknown, Struct
from .. import rules as R
from .. import seqops

EXPLANATION = (
    "Codec agreement against a declared encoding table. The operation sequences of Input/Output "
    "serialize_to / deserialize_from and Transaction._serialize / _deserialize are abstracted from the source "
    "(reads, writes, helper calls, loops, branches) and compared with each other and with the Bitcoin/LBRY layout "
    "written in the checker: tx = u32 version, varint n_in, inputs, varint n_out, outputs, u32 locktime; input = "
    "32-byte previous hash, u32 index, varstr script, u32 sequence; output = u64 amount, varstr script; segwit: "
    "flag byte after a zero input count, witness stacks (varint count of varint-length items) before locktime. "
    "BCDataStream: every read_X/write_X pair uses the same struct.Struct whose folded format has the width, "
    "signedness and little-endian order its name says; write_compact_size and read_compact_size ladders agree at "
    "the exact boundaries 253 / 0xFFFF / 0xFFFFFFFF with markers 253/254/255 (minimal encoding); varstr = varint "
    "length + bytes. txid: hash = sha256(sha256(raw_sans_segwit)), id = hex of the reversed hash, raw_sans_segwit "
    "re-serialises without witness for segwit transactions, and every mutator (add_inputs/add_outputs/sign) resets "
    "all three serialisation caches and the cached id."
)
EXACTNESS = "Second pass (DESIGN.md §10, exactness / completeness halves) — txid / hash / raw caches computed exactly when empty with the stated value, `_add` numbering and reset, `_serialize` defaults and return, `_read_struct`."
TECHNIQUE = "static analysis: reader/writer operation-sequence abstraction compared with a declared layout table, struct-format folding, exact guard dominance of the varint ladder, cache-invalidation who-may-write; exact fact-set comparison of the tests dominating each effect and refusal (effect / refusal tables), fall-through path queries"
NOT_DECIDED = "byte equality on concrete transactions (follows from the decided agreement only modulo struct/BytesIO, which are trusted)"
ASSUMPTIONS = ["struct.Struct packs as documented; BytesIO reads what was written"]

T = "lbry.wallet.transaction"
B = "lbry.wallet.bcd_data_stream.BCDataStream"


def check(ctx):
    prog = ctx.prog
    ev = Evaluator(prog)
    primitives(ctx, prog, ev)
    codecs(ctx, prog)
    txid(ctx, prog)


def primitives(ctx, prog, ev):
    cls = prog.cls(B)
    NAMES = {"int8": (1, True), "uint8": (1, False), "int16": (2, True), "uint16": (2, False), "int32": (4, True), "uint32": (4, False),
             "int64": (8, True), "uint64": (8, False)}
    for nm, (size, signed) in NAMES.items():
        try:
            st = ev.class_attr(cls, nm)
        except Unknown:
            st = None
        ok = isinstance(st, Struct) and st.size == size and st.signed == signed and (size == 1 or st.endian == "<")
        ctx.ob("C05-D2/TABLE", ok, f"lbry/wallet/bcd_data_stream.py:{cls.node.lineno}", f"BCDataStream.{nm} is a {size}-byte {'signed' if signed else 'unsigned'} little-endian struct",
               detail="" if ok else repr(st), key=f"C05-D2/TABLE|struct|{nm}")
        rf, wf = cls.methods.get(f"read_{nm}"), cls.methods.get(f"write_{nm}")
        okp = rf is not None and wf is not None and f"return self._read_struct(self.{nm})" in unparse(rf.node) and \
            f"self.write(self.{nm}.pack({wf.params()[1]}))" in unparse(wf.node)
        ctx.ob("C05-D2/TABLE", okp, rf.site() if rf else "?", f"read_{nm} / write_{nm} use that same struct", key=f"C05-D2/TABLE|pair|{nm}")
    rs = ctx.fa(f"{B}._read_struct")
    t = unparse(rs.node)
    ctx.ob("C05-D2/TABLE", "value = self.read(fmt.size)" in t and "return fmt.unpack(value)[0]" in t, rs.site(), "_read_struct reads exactly the struct's size and unpacks it",
           func=rs.fi.qualname)
    # compact size ladders
    wc = ctx.fa(f"{B}.write_compact_size")
    q = wc.fi.qualname
    sz = wc.fi.params()[1]
    ladder = [
        (f"{sz} < 253", [("uint8", sz)], "below 253: the value itself in one byte"),
        (f"not {sz} < 253 and {sz} <= 65535", [("uint8", "253"), ("uint16", sz)], "253..0xFFFF: marker 253 + u16"),
        (f"not {sz} < 253 and not {sz} <= 65535 and {sz} <= 4294967295", [("uint8", "254"), ("uint32", sz)], "0x10000..0xFFFFFFFF: marker 254 + u32"),
        (f"not {sz} < 253 and not {sz} <= 65535 and not {sz} <= 4294967295", [("uint8", "255"), ("uint64", sz)], "above: marker 255 + u64"),
    ]
    calls = [c for c in wc.calls() if call_name(c).startswith("write_uint")]
    used = set()
    for g, ops, what in ladder:
        okall = True
        detail = ""
        for kind, arg in ops:
            hit = [c for c in calls if call_name(c) == f"write_{kind}" and unparse(c.args[0]) == arg and id(c) not in used]
            found = None
            for c in hit:
                have, F = R.atomic_facts_at(wc, c)
                from .. import terms
                if set(terms.parse_guard(g)) == set(have):
                    found = c
                    break
            if found is None:
                okall = False
                detail = f"no `write_{kind}({arg})` under exactly `{g}`"
                break
            used.add(id(found))
        ctx.ob("C05-D2/LADDER", okall, wc.site(), f"varint writer, {what}", detail=detail, func=q, key=f"C05-D2/LADDER|{q}|{ops[0][1]}")
    ctx.ob("C05-D2/LADDER", len(calls) == 7, wc.site(), "the varint writer has exactly these seven writes", detail=f"{len(calls)} writes", func=q)
    rc = ctx.fa(f"{B}.read_compact_size")
    rq = rc.fi.qualname
    first = [s for s in rc.stmts(ast.Assign) if unparse(s.value) == "self.read_uint8()"]
    ctx.ob("C05-D2/LADDER", len(first) == 1, rc.site(), "varint reader starts with one byte", func=rq)
    if first:
        v = dotted(first[0].targets[0])
        want = [(f"{v} < 253", v), (f"not {v} < 253 and {v} == 253", "self.read_uint16()"), (f"not {v} < 253 and not {v} == 253 and {v} == 254", "self.read_uint32()"),
                (f"not {v} < 253 and not {v} == 253 and not {v} == 254 and {v} == 255", "self.read_uint64()")]
        rets = rc.stmts(ast.Return)
        for g, val in want:
            hit = [r for r in rets if unparse(r.value) == val]
            ok = False
            if hit:
                have, F = R.atomic_facts_at(rc, hit[0])
                from .. import terms
                ok = set(terms.parse_guard(g)) == set(have)
            ctx.ob("C05-D2/LADDER", ok, rc.site(hit[0]) if hit else rc.site(), f"varint reader: `{val}` under `{g.split(' and ')[-1]}`", func=rq,
                   key=f"C05-D2/LADDER|{rq}|{val}")
    # strings
    ws, rs_ = ctx.fa(f"{B}.write_string"), ctx.fa(f"{B}.read_string")
    s_ = ws.fi.params()[1]
    body = R.top_level_texts(ws)
    ctx.ob("C05-D2/TABLE", body == [f"self.write_compact_size(len({s_}))", f"self.write({s_})"], ws.site(), "varstr writer = varint length, then the bytes", detail=str(body),
           func=ws.fi.qualname)
    r = R.single_return_value(rs_)
    ctx.ob("C05-D2/TABLE", r is not None and unparse(r.value) == "self.read(self.read_compact_size())", rs_.site(), "varstr reader = read(varint length)", func=rs_.fi.qualname)


def codecs(ctx, prog):
    def ops(qn, stream="stream"):
        f = prog.func(qn)
        ctx.prog.consulted.add(f.module.relpath)
        return f, seqops.extract(f.node, [stream])

    # ---- Input
    f, w = ops(f"{T}.Input.serialize_to")
    kw = seqops.kinds(w)
    want_w = [("w", "raw"), ("w", "uint32"), ("if", [("if", [("w", "string")], [("w", "string")])], [("w", "string")]), ("w", "uint32")]
    ctx.ob("C05-D1/SEQ", kw == want_w, f.site(), "Input writer: 32-byte previous hash, u32 index, varstr script, u32 sequence", detail="" if kw == want_w else seqops.fmt(w),
           func=f.qualname, key=f"C05-D1/SEQ|{f.qualname}")
    args = [o[2] for o in w if o[0] == "w"] + [o[2] for o in w if o[0] == "w"]
    flat = [o for o in w if o[0] == "w"]
    ok = flat[0][2] == "self.txo_ref.tx_ref.hash" and flat[1][2] == "self.txo_ref.position" and flat[-1][2] == "self.sequence"
    ctx.ob("C05-D1/DEP", ok, f.site(), "the fields written are the spent output's tx hash and position, and this input's sequence", func=f.qualname)
    br = [o for o in w if o[0] == "if"][0] if any(o[0] == "if" for o in w) else None
    ab = seqops.branch(br, "alternate_script is not None")
    cb = seqops.branch(ab[1][0], "self.is_coinbase") if ab and ab[1] else None
    okb = ab is not None and ab[0] == [("w", "string", "alternate_script")] and cb is not None and \
        cb[0] == [("w", "string", "self.coinbase")] and cb[1] == [("w", "string", "self.script.source")]
    ctx.ob("C05-D1/DEP", okb, f.site(), "the script written is the alternate (signing) script if given, else coinbase data or the input script source", func=f.qualname)
    f, r = ops(f"{T}.Input.deserialize_from")
    kr = seqops.kinds(r)
    want_r = [("r", "raw"), ("r", "uint32"), ("r", "string"), ("r", "uint32")]
    ctx.ob("C05-D1/SEQ", kr == want_r and r[0][2] == "32", f.site(), "Input reader: 32 bytes, u32, varstr, u32 — the writer's order and widths",
           detail="" if kr == want_r else seqops.fmt(r), func=f.qualname, key=f"C05-D1/SEQ|{f.qualname}")
    t = unparse(f.node)
    ok = "tx_ref = TXRefImmutable.from_hash(stream.read(32), -1)" in t and "position = stream.read_uint32()" in t and "script = stream.read_string()" in t and \
        "sequence = stream.read_uint32()" in t and "return cls(TXORef(tx_ref, position), InputScript(script) if not tx_ref.is_null else script, sequence)" in t
    ctx.ob("C05-D1/DEP", ok, f.site(), "each value read lands in the field the writer took it from (hash→tx_ref, index→position, script, sequence)", func=f.qualname)
    # ---- Output
    f, w = ops(f"{T}.Output.serialize_to")
    ok = w == [("w", "uint64", "self.amount"), ("w", "string", "self.script.source")]
    ctx.ob("C05-D1/SEQ", ok, f.site(), "Output writer: u64 amount, varstr script", detail="" if ok else seqops.fmt(w), func=f.qualname, key=f"C05-D1/SEQ|{f.qualname}")
    f, r = ops(f"{T}.Output.deserialize_from")
    kr = seqops.kinds(r)
    ok = kr == [("r", "uint64"), ("r", "string")]
    ctx.ob("C05-D1/SEQ", ok, f.site(), "Output reader: u64, varstr", detail="" if ok else seqops.fmt(r), func=f.qualname, key=f"C05-D1/SEQ|{f.qualname}")
    t = unparse(f.node)
    ok = "amount=stream.read_uint64()" in t and "script=OutputScript(stream.read_string())" in t
    ctx.ob("C05-D1/DEP", ok, f.site(), "amount and script are read into the fields of the same name", func=f.qualname)
    # ---- Transaction
    f, w = ops(f"{T}.Transaction._serialize")
    want = [("w", "uint32", "self.version"),
            ("if", seqops.cond("with_inputs"), [("w", "compact_size", "len(self._inputs)"), ("rep", "self._inputs", [("call", "txin.serialize_to")])], []),
            ("call", "self._serialize_outputs"), ("w", "uint32", "self.locktime")]
    ctx.ob("C05-D1/SEQ", w == want, f.site(), "Transaction writer: u32 version, varint n_in, inputs in order, outputs block, u32 locktime", detail="" if w == want else seqops.fmt(w),
           func=f.qualname, key=f"C05-D1/SEQ|{f.qualname}")
    f2 = prog.func(f"{T}.Transaction._serialize_outputs")
    o = seqops.extract(f2.node, ["self._raw_outputs", "stream"])
    want_o = [("if", seqops.cond("self._raw_outputs is None"), [("w", "compact_size", "len(self._outputs)"), ("rep", "self._outputs", [("call", "txout.serialize_to")])], []),
              ("w", "raw", "self._raw_outputs.get_bytes()")]
    ctx.ob("C05-D1/SEQ", o == want_o, f2.site(), "outputs block: varint n_out, outputs in order (cached), appended to the stream", detail="" if o == want_o else seqops.fmt(o),
           func=f2.qualname, key=f"C05-D1/SEQ|{f2.qualname}")
    f, r = ops(f"{T}.Transaction._deserialize")
    _b = seqops.branch(r[0], "self._raw is not None") if r else None
    inner = _b[0] if _b else r
    want_r = [("r", "uint32", ""), ("r", "compact_size", ""),
              ("if", seqops.cond("input_count == 0"), [("r", "uint8", ""), ("r", "compact_size", "")], []),
              ("rep", "range(input_count)", [("call", "Input.deserialize_from")]),
              ("r", "compact_size", ""),
              ("rep", "range(output_count)", [("call", "Output.deserialize_from")]),
              ("if", seqops.cond("self.is_segwit_flag"), [("rep", "range(input_count)", [("r", "compact_size", ""), ("rep", "range(stream.read_compact_size())",
                                                                                                        [("r", "compact_size", ""), ("r", "raw", "stream.read_compact_size()")])])], []),
              ("r", "uint32", "")]
    ok = inner == want_r
    ctx.ob("C05-D1/SEQ", ok, f.site(), "Transaction reader: u32 version, varint n_in (0 ⇒ segwit flag byte + real count), inputs, varint n_out, outputs, witness stacks "
           "(per input: varint count of varint-length items), u32 locktime", detail="" if ok else seqops.fmt(inner), func=f.qualname, key=f"C05-D1/SEQ|{f.qualname}")
    t = unparse(f.node)
    ok = all(x in t for x in ("self.version = stream.read_uint32()", "self.is_segwit_flag = stream.read_uint8()", "self.locktime = stream.read_uint32()",
                              "self._add(self._inputs, [Input.deserialize_from(stream) for _ in range(input_count)])",
                              "self._add(self._outputs, [Output.deserialize_from(stream) for _ in range(output_count)])",
                              "stream = BCDataStream(self._raw)"))
    ctx.ob("C05-D1/DEP", ok, f.site(), "values read land in version / segwit flag / inputs / outputs / locktime, from the transaction's own raw bytes", func=f.qualname)
    # ---- what the readers (and the builders) hand to the constructors is what the writers later take from the fields
    why = "the value later serialised is the value given (0 and None are different values)"
    R.ctor_stores(ctx, "C05-D1/STORE", f"{T}.Input.__init__", {"txo_ref": "txo_ref", "sequence": "sequence"}, why, defaults={"sequence": 0xFFFFFFFF})
    R.ctor_stores(ctx, "C05-D1/STORE", f"{T}.Output.__init__", {"amount": "amount", "script": "script"}, why)
    R.ctor_stores(ctx, "C05-D1/STORE", f"{T}.InputOutput.__init__", {"tx_ref": "tx_ref", "position": "position"}, why)
    R.ctor_stores(ctx, "C05-D1/STORE", f"{T}.TXORef.__init__", {"tx_ref": "tx_ref", "position": "position"}, why)
    R.ctor_stores(ctx, "C05-D1/STORE", f"{T}.Transaction.__init__", {"version": "version", "locktime": "locktime", "_raw": "raw"}, why, defaults={"version": 1, "locktime": 0, "raw": None})
    ii = ctx.fa(f"{T}.Input.__init__")
    # coinbase data and input script share one wire field: the constructor files the `script` argument under exactly one of the two, by the outpoint being null
    for field, cond in (("coinbase", "txo_ref.is_null"), ("script", "not txo_ref.is_null")):
        ws = [a for a in ii.stmts(ast.Assign) if any(unparse(t) == f"self.{field}" for t in a.targets)]
        ok = len(ws) == 1 and isinstance(ws[0].value, ast.IfExp) and dotted(ws[0].value.body) == "script" and is_const(ws[0].value.orelse, None) and R.same_test(ws[0].value.test, cond) \
            and any(s_ is ws[0] for s_ in ii.fi.node.body)
        ctx.ob("C05-D1/STORE", ok, ii.site(ws[0]) if ws else ii.site(), f"Input.{field} is the `script` argument exactly when `{cond}`, else None", func=ii.fi.qualname,
               key=f"C05-D1/STORE|Input|{field}")
    sp = [c for c in ii.calls() if R._is_super_call(c, "__init__")]
    ok = len(sp) == 1 and [dotted(a) for a in sp[0].args] == ["tx_ref", "position"] and not sp[0].keywords
    ctx.ob("C05-D1/STORE", ok, ii.site(), "Input hands (tx_ref, position) — its own place in a transaction, not the spent outpoint — to the base constructor", func=ii.fi.qualname, key="C05-D1/STORE|Input|super")
    # the reader: which value goes to which constructor parameter (the two u32 reads — outpoint index and sequence — are told apart by position)
    rd = ctx.fa(f"{T}.Input.deserialize_from")
    cl = [c for c in rd.calls() if dotted(c.func) == "cls"]
    ok = len(cl) == 1
    if ok:
        params = [p for p in ii.fi.params() if p != "self"]
        bound = dict(zip(params, cl[0].args))
        bound.update({k.arg: k.value for k in cl[0].keywords})
        reads = [c for c in R.ordered_calls(rd) if isinstance(c.func, ast.Attribute) and c.func.attr.startswith("read") and dotted(c.func.value) == "stream"]

        def origin(e, depth=2):
            """the stream reads an argument's value comes from (through local names) — a single index, or a tuple when several"""
            got = {i for i, r in enumerate(reads) if any(x is r for x in ast.walk(e))}
            if depth:
                for nm in {x.id for x in ast.walk(e) if isinstance(x, ast.Name) and isinstance(x.ctx, ast.Load)}:
                    ds = [s for s in rd.stmts(ast.Assign) if len(s.targets) == 1 and dotted(s.targets[0]) == nm]
                    if len(ds) == 1:
                        o = origin(ds[0].value, depth - 1)
                        got |= set(o) if isinstance(o, tuple) else ({o} if o is not None else set())
            return None if not got else next(iter(got)) if len(got) == 1 else tuple(sorted(got))
        seq_i = origin(bound["sequence"]) if "sequence" in bound else None
        ok = set(bound) == {"txo_ref", "script", "sequence"} and len(reads) == 4 and seq_i == 3 and origin(bound["script"]) in (2, (0, 2))
        tr = bound.get("txo_ref")
        if isinstance(tr, ast.Name):
            ds = [s for s in rd.stmts(ast.Assign) if len(s.targets) == 1 and dotted(s.targets[0]) == tr.id]
            tr = ds[0].value if len(ds) == 1 else tr
        ok = ok and isinstance(tr, ast.Call) and call_name(tr) == "TXORef" and len(tr.args) == 2 and origin(tr.args[1]) == 1 and origin(tr.args[0]) == 0
    ctx.ob("C05-D1/STORE", ok, rd.site(), "Input reader: read #1 → outpoint hash, #2 → outpoint index, #3 → script, #4 → the `sequence` parameter; nothing else is passed", func=rd.fi.qualname,
           key="C05-D1/STORE|Input.deserialize_from|binding")


def txid(ctx, prog):
    h = ctx.fa(f"{T}.TXRefMutable.hash")
    s = [x for x in h.stmts(ast.Assign) if any(dotted(t) == "self._hash" for t in x.targets)]
    ok = len(s) == 1 and unparse(s[0].value) == "sha256(sha256(self.tx.raw_sans_segwit))" and h.guarded(s[0], "self._hash is None")[0]
    ctx.ob("C05-D3/DEP", ok, h.site(), "tx hash = SHA-256(SHA-256(serialisation without witness data))", detail="" if ok else unparse(s[0].value) if s else "", func=h.fi.qualname,
           key="C05-D3/DEP|hash")
    i = ctx.fa(f"{T}.TXRefMutable.id")
    s = [x for x in i.stmts(ast.Assign) if any(dotted(t) == "self._id" for t in x.targets)]
    ok = len(s) == 1 and unparse(s[0].value) == "hexlify(self.hash[::-1]).decode()"
    ctx.ob("C05-D3/DEP", ok, i.site(), "txid = hex of the byte-reversed hash", func=i.fi.qualname, key="C05-D3/DEP|id")
    tgt = prog.resolve_name(h.fi.module, "sha256")
    okh = getattr(tgt, "qualname", "") == "lbry.crypto.hash.sha256"
    if okh:
        fa = ctx.eng.fa_of(tgt)
        r = R.single_return_value(fa)
        okh = r is not None and unparse(r.value) == f"hashlib.sha256({tgt.params()[0]}).digest()"
    ctx.ob("C05-D3/CONST", okh, h.site(), "sha256(x) is hashlib.sha256(x).digest()", func=h.fi.qualname)
    rs = ctx.fa(f"{T}.Transaction.raw_sans_segwit")
    t = unparse(rs.node)
    rets = [unparse(r.value) for r in rs.stmts(ast.Return)]
    s = [x for x in rs.stmts(ast.Assign) if any(dotted(tg) == "self._raw_sans_segwit" for tg in x.targets)]
    ok = rets == ["self._raw_sans_segwit", "self.raw"] and len(s) == 1 and unparse(s[0].value) == "self._serialize(sans_segwit=True)" and \
        rs.guarded(s[0], "self.is_segwit_flag and self._raw_sans_segwit is None")[0]
    ctx.ob("C05-D3/DEP", ok, rs.site(), "for segwit transactions the id is taken over a re-serialisation (which never writes witness data), else over raw", func=rs.fi.qualname)
    se = ctx.fa(f"{T}.Transaction._serialize")
    wit = [n for n in walk_local_body(se.node) if isinstance(n, ast.Attribute) and n.attr in ("witnesses", "is_segwit_flag")]
    ctx.ob("C05-D3/DEP", not wit, se.site(), "_serialize never emits the segwit marker or witnesses", func=se.fi.qualname)
    # cache invalidation
    rst = ctx.fa(f"{T}.Transaction._reset")
    body = sorted(R.top_level_texts(rst))
    want = sorted(["self._raw = None", "self._raw_sans_segwit = None", "self._raw_outputs = None", "self.ref.reset()"])
    ctx.ob("C05-D3/CACHE", set(want) <= set(body), rst.site(), "_reset clears the three serialisation caches and the cached hash/id", detail="" if body == want else str(body),
           func=rst.fi.qualname, key="C05-D3/CACHE|reset-all")
    R.lazy_cache(ctx, "C05-D3/LAZY", ctx.fa(f"{T}.TXRefMutable.id"), "_id", "txid", lambda v: norm_text(v) == "hexlify(self.hash[::-1]).decode()")
    R.lazy_cache(ctx, "C05-D3/LAZY", ctx.fa(f"{T}.TXRefMutable.hash"), "_hash", "tx hash", lambda v: norm_text(v) == "sha256(sha256(self.tx.raw_sans_segwit))")
    R.lazy_cache(ctx, "C05-D3/LAZY", ctx.fa(f"{T}.Transaction.raw"), "_raw", "raw bytes", lambda v: norm_text(v) == "self._serialize()")
    rss = ctx.fa(f"{T}.Transaction.raw_sans_segwit")
    R.lazy_cache(ctx, "C05-D3/LAZY", rss, "_raw_sans_segwit", "witness-free bytes", lambda v: norm_text(v) == "self._serialize(sans_segwit=True)", extra_ok=["self.is_segwit_flag"])
    for r_ in rss.stmts(ast.Return):
        if dotted(r_.value) == "self.raw":
            R.exact_gate(ctx, "C05-D3/LAZY", rss, r_, "not self.is_segwit_flag", "a transaction without witness data is hashed over its raw bytes", key="C05-D3/LAZY|sans|legacy")
    se_ = ctx.fa(f"{T}.Transaction._serialize")
    dflt = {a.arg: d for a, d in zip(reversed(se_.node.args.args), reversed(se_.node.args.defaults))}
    ok = is_const(dflt.get("with_inputs"), True) and is_const(dflt.get("sans_segwit"), False)
    ctx.ob("C05-D1/DEP", ok, se_.site(), "_serialize() by default writes the inputs", func=se_.fi.qualname, key="C05-D1/DEP|serialize-defaults")
    r_ = R.single_return_value(se_)
    ok = r_ is not None and norm_text(r_.value) == "stream.get_bytes()" and [norm_text(x.value) for x in se_.stmts(ast.Assign) if any(dotted(tg) == "stream" for tg in x.targets)] == ["BCDataStream()"]
    ctx.ob("C05-D1/DEP", ok, se_.site(), "what is returned is the bytes of that very stream (a fresh BCDataStream)", func=se_.fi.qualname, key="C05-D1/DEP|serialize-returns")
    ad_ = ctx.fa(f"{T}.Transaction._add")
    ex, new = ad_.fi.params()[1:3]
    loops = ad_.stmts(ast.For)
    ok = len(loops) == 1 and dotted(loops[0].iter) == new and not R.atomic_facts_at(ad_, loops[0].body[0])[0]
    if ok:
        v = dotted(loops[0].target)
        bt = [norm_text(x) for x in loops[0].body]
        want = [f"{v}.tx_ref = self.ref", f"{v}.position = len({ex})", f"{ex}.append({v})"]
        ok = [x for x in bt if x in want] == want
    ctx.ob("C05-D1/DEP", ok, ad_.site(), "every added input/output gets this transaction's ref and the next position, then joins the list (position before append: positions are 0-based)",
           func=ad_.fi.qualname, key="C05-D1/DEP|add")
    for c in ad_.calls(dotted_name="self._reset"):
        R.exact_gate(ctx, "C05-D3/CACHE", ad_, c, ad_.fi.params()[3], "…and the caches are reset whenever asked", key="C05-D3/CACHE|add-reset-exact")
    rs_f = ctx.fa(f"{B}._read_struct")
    for r_ in rs_f.stmts(ast.Return):
        R.exact_gate(ctx, "C05-D2/TABLE", rs_f, r_, "value", "a value is unpacked whenever bytes were read", key="C05-D2/TABLE|read-struct-exact")
    rr = ctx.fa(f"{T}.TXRefMutable.reset")
    body = sorted(R.top_level_texts(rr))
    ctx.ob("C05-D3/CACHE", {"self._hash = None", "self._id = None"} <= set(body), rr.site(), "ref.reset clears hash and id", func=rr.fi.qualname)
    for attr in ("_raw_outputs", "_raw_sans_segwit"):
        R.writers_only(ctx, "C05-D3/CACHE", attr, [f"{T}.Transaction.__init__", f"{T}.Transaction._reset", f"{T}.Transaction._serialize_outputs",
                                                   f"{T}.Transaction.raw_sans_segwit"], f"cache `{attr}`", floor=2,
                       recv_filter=lambda m, recv, f: m.name == T)
    ad = ctx.fa(f"{T}.Transaction._add")
    ok = any(ad.guarded(c, ad.fi.params()[3])[0] for c in ad.calls(dotted_name="self._reset"))
    ctx.ob("C05-D3/CACHE", ok, ad.site(), "_add resets when asked", func=ad.fi.qualname)
    for nm, lst in (("add_inputs", "self._inputs"), ("add_outputs", "self._outputs")):
        fa = ctx.fa(f"{T}.Transaction.{nm}")
        r = R.single_return_value(fa)
        ok = r is not None and unparse(r.value) == f"self._add({lst}, {fa.fi.params()[1]}, True)"
        ctx.ob("C05-D3/CACHE", ok, fa.site(), f"{nm} appends and resets the caches", func=fa.fi.qualname, key=f"C05-D3/CACHE|{nm}")
    sg = ctx.fa(f"{T}.Transaction.sign")
    rs_ = sg.calls(dotted_name="self._reset")
    ser = sg.calls(dotted_name="self._serialize_for_signature")
    ok = len(rs_) >= 2 and bool(ser) and sg.must_precede(ser[0], lambda n: n in rs_) is None
    ctx.ob("C05-D3/CACHE", ok, sg.site(), "sign() resets the caches before it serialises anything (an output script regenerated after create() is picked up)",
           func=sg.fi.qualname, key="C05-D3/CACHE|sign-first")
    p = sg.path([x for c in ser for x in sg.cfg_nodes(c)], [sg.cfg.exit], avoid=lambda n: sg.evaluates(n, lambda s: s in rs_), include_exc=False) if ser else None
    ctx.ob("C05-D3/CACHE", p is None and bool(ser), sg.site(), "and again after the input scripts changed (the id covers the signatures)", func=sg.fi.qualname,
           key="C05-D3/CACHE|sign-last")
