"""C19 — disk cleanup deletes only when over a limit and never the user's own blobs."""
import ast
import re

from ..astutil import dotted, call_name, kwarg, is_const, unparse, norm_text, walk_local
from .. import AnalysisError

EXPLANATION = (
    "Path-complete gate analysis of DiskSpaceManager._clean, specialised per literal value of "
    "is_network_blob (every call site passes a literal): every statement that selects a blob for deletion "
    "and the delete_blobs call are reachable only under `available < 0` (usage above the limit) and, for "
    "content storage, `storage_limit_mb != 0`; the only candidate listing passes the literal is_mine=False and "
    "every SQL statement of get_stored_blobs binds blob.is_mine to that parameter; the selection loop stops "
    "as soon as usage is within the limit and delete_blobs receives exactly the selected list. Decides the "
    "'only when over the limit / never own blobs / nothing when unlimited / stop when within the limit' "
    "clauses for all limits, usages and blob mixes; does NOT decide the megabyte-rounding bound on freed space."
)
EXACTNESS = ("Second pass (DESIGN.md §10, exactness / completeness halves) — selection and deletion exactly under the shortage tests per storage class, skip test "
             "terms, MB conversion identical on both sides of the comparison (usage and per-blob credit), rows deleted from the database, listing selected by class; "
             "both passes unconditional, blob rows inserted with `insert or ignore` and never replaced, is_mine of an existing row changed by update_blob_ownership only.")
TECHNIQUE = ("static analysis: path-complete guard dominance per literal specialisation, SQL site lexer, def-use dependence; exact fact-set comparison of the tests dominating "
             "each effect and refusal, unit (conversion expression) agreement")
ASSUMPTIONS = [
    "sqlite evaluates `blob.is_mine=?` as written",
]

CLEAN = "lbry.blob.disk_space_manager.DiskSpaceManager._clean"
STORAGE = "lbry.extras.daemon.storage.SQLiteStorage.get_stored_blobs"


def check(ctx):
    prog = ctx.prog
    fa = ctx.fa(CLEAN)
    fi = fa.fi
    params = fi.params()
    if "is_network_blob" not in params:
        raise AnalysisError("C19: _clean no longer has the parameter is_network_blob")

    # ---- call sites of _clean pass literals -> specialise
    literals = set()
    sites = [(m, c) for m, c in prog.calls_named("_clean")
             if isinstance(c.func, ast.Attribute) and m.name.startswith("lbry.blob")]
    ctx.floor("C19-D1/SPEC", "call sites of DiskSpaceManager._clean", len(sites), 2)
    all_literal = True
    for m, c in sites:
        arg = c.args[0] if c.args else kwarg(c, "is_network_blob")
        if arg is None:
            literals.add(False)          # default value
        elif isinstance(arg, ast.Constant) and isinstance(arg.value, bool):
            literals.add(arg.value)
        else:
            all_literal = False
        ctx.ob("C19-D1/SPEC", True, f"{m.relpath}:{c.lineno}", f"call {unparse(c)} specialises is_network_blob",
               func=getattr(prog.function_of(c), "qualname", None))
    cases = []
    if False in literals or not all_literal:
        cases.append(("content", ("not is_network_blob",)))
    if True in literals or not all_literal:
        cases.append(("network", ("is_network_blob",)))
    if not all_literal:
        cases.append(("unspecialised", ()))

    # ---- sinks
    appends = [c for c in fa.calls(name="append")]
    deletes = fa.calls(name="delete_blobs")
    ctx.floor("C19-D1/GATE", "delete_blobs call in _clean", len(deletes), 1)
    del_arg_names = set()
    for d in deletes:
        if d.args:
            nm = dotted(d.args[0])
            if nm:
                del_arg_names.add(nm)
    sel = [c for c in appends if dotted(c.func.value) in del_arg_names]
    ctx.floor("C19-D1/GATE", "selection statements feeding delete_blobs", len(sel), 1)

    for label, assume in cases:
        need = "available < 0" if label != "content" else "available < 0 and storage_limit_mb != 0"
        for c in sel:
            ok, missing, wit = fa.guarded(c, need, assume)
            ctx.ob("C19-D1/GATE", ok, fa.site(c),
                   f"selection `{unparse(c)}` only under `{need}` [{label}]",
                   detail="" if ok else f"missing guard(s) {fmt(missing)}; {wit}", func=fi.qualname,
                   key=f"C19-D1/GATE|{fi.qualname}|select|{label}")
        for d in deletes:
            # deletion is reachable only with a non-empty selection
            argn = dotted(d.args[0]) if d.args else None
            ok, missing, wit = fa.guarded(d, argn or "False", assume)
            ctx.ob("C19-D1/GATE", ok, fa.site(d), f"`{call_name(d)}` only when something was selected [{label}]",
                   detail="" if ok else f"missing guard(s) {fmt(missing)}; {wit}", func=fi.qualname,
                   key=f"C19-D1/GATE|{fi.qualname}|delete|{label}")

    # the deleted list is exactly the selected list: its only writers are `x = []` and the gated appends
    for nm in del_arg_names:
        writers = []
        for n in fa.local_nodes():
            if isinstance(n, (ast.Assign, ast.AugAssign, ast.AnnAssign)):
                tg = n.targets if isinstance(n, ast.Assign) else [n.target]
                for t in tg:
                    for s in ast.walk(t):
                        if isinstance(s, ast.Name) and s.id == nm:
                            writers.append(n)
            elif isinstance(n, ast.Call) and isinstance(n.func, ast.Attribute) and dotted(n.func.value) == nm \
                    and n not in sel and n.func.attr not in ("copy", "index", "count"):
                writers.append(n)
        bad = [w for w in writers if not (isinstance(w, ast.Assign) and isinstance(w.value, ast.List) and not w.value.elts)]
        ctx.ob("C19-D3/DEP", not bad, fa.site(bad[0] if bad else sel[0]),
               f"`{nm}` is only initialised empty and filled by the gated selection",
               detail="; ".join(f"L{w.lineno}: {norm_text(w)}" for w in bad), func=fi.qualname)
        for d in deletes:
            kw = kwarg(d, "delete_from_db")
            ctx.ob("C19-D3/DEP", d.args and dotted(d.args[0]) == nm, fa.site(d),
                   "delete_blobs receives exactly the selected list", func=fi.qualname)

    # ---- D3: stop as soon as within the limit: after each selection, `available += ...` then `if available >= 0: break`
    for c in sel:
        loop = fa.lexically_inside(c, lambda a: isinstance(a, (ast.For, ast.AsyncFor, ast.While)))
        ok = False
        detail = "selection is not inside a loop"
        if loop is not None:
            body = loop.body
            aug = [s for s in body if isinstance(s, ast.AugAssign) and dotted(s.target) == "available"
                   and isinstance(s.op, ast.Add)]
            brk = [s for s in body if isinstance(s, ast.If) and any(isinstance(b, ast.Break) for b in s.body)]
            stop_ok = False
            for b in brk:
                from .. import terms
                if terms.conj(b.test) == terms.parse_guard("available >= 0"):
                    stop_ok = True
            idx = {id(s): i for i, s in enumerate(body)}
            sel_stmt = c
            while getattr(sel_stmt, "_parent", None) is not loop:
                sel_stmt = sel_stmt._parent
            order_ok = bool(aug) and bool(brk) and idx[id(sel_stmt)] < idx[id(aug[0])] < max(idx[id(b)] for b in brk)
            ok = stop_ok and order_ok
            detail = "" if ok else f"stop test present={stop_ok}, select<account<stop order={order_ok}"
        ctx.ob("C19-D3/ORDER", ok, fa.site(c), "after each selection usage is re-accounted and the loop stops at "
               "`available >= 0`", detail=detail, func=fi.qualname)

    # ---- D2: candidate listing never includes the user's blobs
    listing = fa.calls(name="get_stored_blobs")
    ctx.floor("C19-D2/CONST", "get_stored_blobs call in _clean", len(listing), 1)
    for c in listing:
        v = kwarg(c, "is_mine")
        if v is None and c.args:
            v = c.args[0]
        ok = v is not None and is_const(v, False)
        ctx.ob("C19-D2/CONST", ok, fa.site(c), "candidate listing passes the literal is_mine=False",
               detail="" if ok else f"is_mine argument is `{unparse(v) if v is not None else '<missing>'}`",
               func=fi.qualname)
        nb = kwarg(c, "is_network_blob")
        ok = nb is not None and dotted(nb) == "is_network_blob"
        ctx.ob("C19-D2/DEP", ok, fa.site(c), "listing is restricted to the storage class being cleaned",
               detail="" if ok else "is_network_blob not forwarded", func=fi.qualname)
    # the iteration source of the selection loop is that listing
    for c in sel:
        loop = fa.lexically_inside(c, lambda a: isinstance(a, (ast.For, ast.AsyncFor)))
        ok = loop is not None and any(isinstance(s, ast.Call) and call_name(s) == "get_stored_blobs"
                                      for s in ast.walk(fa.expand(loop.iter)))
        ctx.ob("C19-D2/DEP", ok, fa.site(c), "selected hashes come from the get_stored_blobs listing",
               func=fi.qualname)
        # and the selected element is the first column (blob_hash) of the row
        if loop is not None and isinstance(loop.target, ast.Tuple) and c.args:
            first = loop.target.elts[0]
            ok = isinstance(first, ast.Name) and dotted(c.args[0]) == first.id
            ctx.ob("C19-D2/DEP", ok, fa.site(c), "the selected value is the blob_hash column of the row",
                   func=fi.qualname)

    sfa = ctx.fa(STORAGE)
    sqls = []
    for c in sfa.calls():
        if call_name(c) in ("execute_fetchall", "execute", "execute_fetchone", "run_and_return_list") and c.args \
                and isinstance(c.args[0], ast.Constant) and isinstance(c.args[0].value, str):
            sqls.append(c)
    ctx.floor("C19-D2/SQL", "SQL statements in get_stored_blobs", len(sqls), 3)
    # is_mine parameter is normalised to 0/1 and bound to every statement
    for c in sqls:
        sql = " ".join(c.args[0].value.lower().split())
        binds = c.args[1] if len(c.args) > 1 else None
        bound = binds is not None and any(isinstance(s, ast.Name) and s.id == "is_mine" for s in ast.walk(binds))
        has = "blob.is_mine=?" in sql.replace(" ", "") and sql.count("?") == 1
        ctx.ob("C19-D2/SQL", has and bound, sfa.site(c),
               "listing statement filters `blob.is_mine=?` bound to the is_mine parameter",
               detail="" if has and bound else f"filter present={has}, bound={bound}", func=sfa.fi.qualname)
        if "stream_blob.stream_hash is null" not in sql:
            fin = "blob.status='finished'" in sql.replace(" ", "") or "join stream on blob.blob_hash=stream.sd_hash" in sql
            ctx.ob("C19-D2/SQL", fin, sfa.site(c), "content listing only returns finished blobs / sd blobs",
                   func=sfa.fi.qualname)
    # the 0/1 normalisation keeps falsy -> 0
    norm = [s for s in sfa.stmts(ast.Assign) if any(dotted(t) == "is_mine" for t in s.targets)]
    for s in norm:
        v = s.value
        ok = isinstance(v, ast.IfExp) and dotted(v.test) == "is_mine" and is_const(v.body, 1) and is_const(v.orelse, 0)
        ctx.ob("C19-D2/CONST", ok, sfa.site(s), "is_mine is normalised as `1 if is_mine else 0`",
               detail="" if ok else norm_text(s), func=sfa.fi.qualname)

    # ---- usage accounting: private storage is counted for content but never listed (D2), network separately
    for label, assume, key in (("content", ("not is_network_blob",), "content_storage"),
                               ("network", ("is_network_blob",), "network_storage")):
        F = fa.facts(assume)
        subs = [n for n in fa.local_nodes(ast.Subscript)
                if isinstance(n.slice, ast.Constant) and n.slice.value == key]
        reach = [n for n in subs if any(F.reachable(c) for c in fa.cfg_nodes(n))]
        ctx.ob("C19-D1/DEP", bool(reach), fa.site(reach[0] if reach else fa.node),
               f"usage of the {label} class is read from `{key}` [{label}]", func=fi.qualname)
        other = "network_storage" if key == "content_storage" else "content_storage"
        wrong = [n for n in fa.local_nodes(ast.Subscript)
                 if isinstance(n.slice, ast.Constant) and n.slice.value == other
                 and any(F.reachable(c) for c in fa.cfg_nodes(n))]
        ctx.ob("C19-D1/DEP", not wrong, fa.site(wrong[0] if wrong else fa.node),
               f"usage of the other class (`{other}`) is not used when cleaning {label}", func=fi.qualname)
    # `available` is limit - usage
    avail = [s for s in fa.stmts(ast.Assign) if any(dotted(t) == "available" for t in s.targets)]
    ctx.floor("C19-D1/DEP", "definition of `available`", len(avail), 1)
    for s in avail:
        v = s.value
        ok = isinstance(v, ast.BinOp) and isinstance(v.op, ast.Sub) and dotted(v.left) == "storage_limit_mb" \
            and dotted(v.right) == "space_used_mb"
        ctx.ob("C19-D1/DEP", ok, fa.site(s), "`available` = storage_limit_mb - space_used_mb",
               detail="" if ok else norm_text(s), func=fi.qualname)
    lim = [s for s in fa.stmts(ast.Assign) if any(dotted(t) == "storage_limit_mb" for t in s.targets)]
    for s in lim:
        v = s.value
        ok = isinstance(v, ast.IfExp) and dotted(v.test) == "is_network_blob" \
            and (dotted(v.body) or "").endswith("network_storage_limit") \
            and (dotted(v.orelse) or "").endswith("blob_storage_limit")
        ctx.ob("C19-D1/DEP", ok, fa.site(s), "limit is network_storage_limit for network blobs else blob_storage_limit",
               detail="" if ok else norm_text(s), func=fi.qualname)


def fmt(missing):
    return ", ".join(("" if p else "not ") + t for t, p in missing)


# --------------------------------------------------------------------------- usage accounting (added rules)
import re as _re

USED_MB = "lbry.blob.disk_space_manager.DiskSpaceManager.get_space_used_mb"
USED_BYTES = "lbry.blob.disk_space_manager.DiskSpaceManager.get_space_used_bytes"
USAGE_SQL = "lbry.extras.daemon.storage.SQLiteStorage.get_stored_blob_disk_usage"
CLEAN_ALL = "lbry.blob.disk_space_manager.DiskSpaceManager.clean"

_base_check = check


def periphery(ctx, prog):
    """inputs of a pass that live outside the disk space manager: the limit it reads, the is_mine mark of what the user published, one file row per stream"""
    from .. import rules as R
    # ---- the limit: `blob_storage_limit = 0` (unlimited) must override a non-zero value from a lower-priority source; a setter that treats "equals the
    # default" as "unset" deletes the override instead and the old limit stays in force
    st = ctx.fa("lbry.conf.Setting.__set__")
    val = st.fi.params()[2]
    dels = st.stmts(ast.Delete)
    stores = [s for s in st.stmts(ast.Assign) if any(isinstance(t, ast.Subscript) and unparse(t.slice) == "self.name" for t in s.targets)]
    ctx.floor("C19-D6/CONF", "Setting.__set__ stores / clears the value", min(len(dels), len(stores)), 1, site=st.site(), func=st.fi.qualname)
    for d in dels:
        R.only_terms(ctx, "C19-D6/CONF", st, d, [f"{val} == NOT_SET", "self.name in location"], "a setting is cleared only for the NOT_SET sentinel — never because the value equals the default",
                     key="C19-D6/CONF|Setting.__set__|clear")
        R.gate(ctx, "C19-D6/CONF", st, d, f"{val} == NOT_SET", "…and only then", key="C19-D6/CONF|Setting.__set__|clear-gate")
    for a in stores:
        R.exact_gate(ctx, "C19-D6/CONF", st, a, f"not {val} == NOT_SET", "every other value — including one equal to the default — is stored", key="C19-D6/CONF|Setting.__set__|store")
        ctx.ob("C19-D6/CONF", dotted(a.value) == val, st.site(a), "what is stored is the value given", func=st.fi.qualname, key="C19-D6/CONF|Setting.__set__|value")
    gt = ctx.fa("lbry.conf.Setting.__get__")
    rets = [r for r in gt.stmts(ast.Return) if unparse(r.value) == "location[self.name]"]
    ok = len(rets) == 1 and gt.guarded(rets[0], "self.name in location")[0] and any(unparse(f.iter) == "obj.search_order" for f in gt.stmts(ast.For))
    ctx.ob("C19-D6/CONF", ok, gt.site(), "a setting reads as the first location of the search order that has it", func=gt.fi.qualname, key="C19-D6/CONF|Setting.__get__")
    # ---- what the user published is marked is_mine when its rows are first written (later writes are INSERT OR IGNORE and cannot correct it)
    cr = ctx.fa("lbry.stream.stream_manager.StreamManager.create")
    gb = [c for c in cr.calls(name="get_blob") if c.args and unparse(c.args[0]) == "descriptor.sd_hash"]
    ctx.floor("C19-D6/MINE", "the published stream's sd blob is looked up in StreamManager.create", len(gb), 1, site=cr.site(), func=cr.fi.qualname)
    for c in gb:
        ok = is_const(kwarg(c, "is_mine"), True) or (len(c.args) >= 3 and is_const(c.args[2], True))
        ctx.ob("C19-D6/MINE", ok, cr.site(c), "the descriptor blob of a published stream is created with is_mine=True (descriptor blobs are offered for deletion last, not never)",
               func=cr.fi.qualname, key="C19-D6/MINE|create|sd-blob")
    cs = [c for c in cr.calls(name="create_stream")]
    ok = len(cs) == 1 and unparse(kwarg(cs[0], "blob_completed_callback")) == "self.blob_manager.blob_completed"
    ctx.ob("C19-D6/MINE", ok, cr.site(), "the data blobs of a published stream are reported through the manager's completion callback", func=cr.fi.qualname, key="C19-D6/MINE|create|callback")
    # ---- one file row per stream: get_stored_blobs joins through `file`, a second row makes every blob of the stream count twice and the pass stops early
    ms = ctx.fa("lbry.stream.managed_stream.ManagedStream.start")
    fe = ms.calls(name="file_exists")
    ctx.floor("C19-D6/ROWS", "ManagedStream.start asks whether the stream already has a file row", len(fe), 1, site=ms.site(), func=ms.fi.qualname)
    for c in fe:
        ok = len(c.args) == 1 and unparse(c.args[0]) == "self.sd_hash"
        ctx.ob("C19-D6/ROWS", ok, ms.site(c), "the lookup is by the stream's sd hash (the key file_exists queries on)", func=ms.fi.qualname, key="C19-D6/ROWS|start|key")
    sv = [c for c in ms.calls() if call_name(c) in ("save_downloaded_file", "save_published_file")]
    ctx.floor("C19-D6/ROWS", "file row insertion in ManagedStream.start", len(sv), 1, site=ms.site(), func=ms.fi.qualname)
    for c in sv:
        R.gate(ctx, "C19-D6/ROWS", ms, c, "not await self.blob_manager.storage.file_exists(self.sd_hash)", "a file row is inserted only when the stream has none", key="C19-D6/ROWS|start|guard")
    fx = ctx.fa("lbry.extras.daemon.storage.SQLiteStorage.file_exists")
    sql = " ".join(x.value for x in ast.walk(fx.fi.node) if isinstance(x, ast.Constant) and isinstance(x.value, str))
    ok = re.search(r"s\.sd_hash\s*=\s*\?", sql) is not None and fx.fi.params()[1] == "sd_hash" and re.search(r"from\s+file\s+f\b", sql) is not None
    ctx.ob("C19-D6/ROWS", ok, fx.site(), "file_exists looks for a `file` row whose stream has the given sd hash", func=fx.fi.qualname, key="C19-D6/ROWS|file_exists|sql")


def check(ctx):            # noqa: F811  (extends the rules above)
    _base_check(ctx)
    periphery(ctx, ctx.prog)
    prog = ctx.prog
    fa = ctx.fa(CLEAN)
    fi = fa.fi
    complete(ctx, prog, fa)

    # ---- both storage classes are cleaned by a pass
    ca = ctx.fa(CLEAN_ALL)
    lits = set()
    for c in ca.calls(name="_clean"):
        a = c.args[0] if c.args else kwarg(c, "is_network_blob")
        if a is None:
            lits.add(False)
        elif isinstance(a, ast.Constant):
            lits.add(a.value)
    ctx.ob("C19-D1/SPEC", lits == {False, True}, ca.site(), "a cleanup pass cleans the content class and the network class",
           detail="" if lits == {False, True} else f"_clean is called with {sorted(map(str, lits))}", func=ca.fi.qualname)

    # ---- the limit test uses fresh usage figures: _clean reads usage with the literal cached=False ...
    used = fa.calls(name="get_space_used_mb")
    ctx.floor("C19-D1/FRESH", "usage read in _clean", len(used), 1)
    for c in used:
        v = kwarg(c, "cached")
        if v is None and c.args:
            v = c.args[0]
        ok = v is not None and is_const(v, False)
        ctx.ob("C19-D1/FRESH", ok, fa.site(c), "the limit test reads usage with cached=False (fresh figures every pass)",
               detail="" if ok else f"cached argument is `{unparse(v) if v is not None else '<default True>'}`",
               func=fi.qualname)
    # `available` really depends on that read
    avail = [s for s in fa.stmts(ast.Assign) if any(dotted(t) == "available" for t in s.targets)]
    for s in avail:
        src = fa.sources(s.value)
        ok = any(c.endswith("get_space_used_mb") for c in src["calls"])
        ctx.ob("C19-D1/FRESH", ok, fa.site(s), "`available` is computed from the get_space_used_mb result", func=fi.qualname)
    # ... and get_space_used_mb with cached=False takes the database read
    ua = ctx.fa(USED_MB)
    rets = ua.stmts(ast.Return)
    ctx.floor("C19-D1/FRESH", "return of get_space_used_mb", len(rets), 1)
    for r in rets:
        ex = ua.expand(r.value)
        fresh_ok = False
        for n in ast.walk(ex):
            if isinstance(n, ast.IfExp):
                test = n.test
                first = test.values[0] if isinstance(test, ast.BoolOp) and isinstance(test.op, ast.And) else test
                fresh = any(isinstance(c, ast.Call) and call_name(c) == "get_space_used_bytes" for c in ast.walk(n.orelse))
                stale = any(isinstance(c, ast.Call) and call_name(c) == "get_space_used_bytes" for c in ast.walk(n.body))
                if dotted(first) == "cached" and fresh and not stale:
                    fresh_ok = True
        ctx.ob("C19-D1/FRESH", fresh_ok, ua.site(r), "with cached=False the figures come from get_space_used_bytes()",
               detail="" if fresh_ok else f"return value expands to `{unparse(ex)[:160]}`", func=ua.fi.qualname)
    ub = ctx.fa(USED_BYTES)
    for r in ub.stmts(ast.Return):
        src = ub.sources(r.value)
        ok = any(c.endswith("get_stored_blob_disk_usage") for c in src["calls"]) or "self._used_space_bytes" in src["chains"]
        writes = [s for s in ub.stmts(ast.Assign) if any(dotted(t) == "self._used_space_bytes" for t in s.targets)]
        ok = ok and all(any(isinstance(c, ast.Call) and call_name(c) == "get_stored_blob_disk_usage"
                            for c in ast.walk(w.value)) for w in writes) and bool(writes)
        ctx.ob("C19-D1/FRESH", ok, ub.site(r), "get_space_used_bytes queries the database (get_stored_blob_disk_usage)",
               func=ub.fi.qualname)

    # ---- the per-class accounting query
    qa = ctx.fa(USAGE_SQL)
    sqls = [c for c in qa.calls() if c.args and isinstance(c.args[0], ast.Constant) and isinstance(c.args[0].value, str)
            and "select" in c.args[0].value.lower()]
    ctx.floor("C19-D1/SQL", "accounting statement in get_stored_blob_disk_usage", len(sqls), 1)
    for c in sqls:
        sql = " ".join(c.args[0].value.lower().replace('"', "'").split())
        cases = _re.findall(r"case when (.*?) then (\w+) else 0 end\s*\)\s*,\s*0\s*\)\s*as (\w+)", sql)
        table = {alias: ({a.strip().replace(" ", "") if "=" in a else " ".join(a.split()) for a in cond.split(" and ")}, col)
                 for cond, col, alias in cases}
        for alias in ("network_storage", "content_storage", "private_storage"):
            if alias not in table:
                ctx.ob("C19-D1/SQL", False, qa.site(c), f"accounting query has a `{alias}` class", func=qa.fi.qualname)
        joined = _re.search(r"from blob left join stream_blob using \(blob_hash\)", sql) is not None
        ctx.ob("C19-D1/SQL", joined, qa.site(c), "accounting query is `blob left join stream_blob using (blob_hash)`",
               func=qa.fi.qualname)

        def nulltest(atoms, neg):
            pat = r"stream_blob\.\w+ is not null" if neg else r"stream_blob\.\w+ is null"
            return any(_re.fullmatch(pat, a) for a in atoms)
        if "network_storage" in table:
            atoms, col = table["network_storage"]
            ok = len(atoms) == 1 and nulltest(atoms, False) and col == "blob_length"
            ctx.ob("C19-D1/SQL", ok, qa.site(c), "network class = blobs with no stream_blob row (null test on a stream_blob column)",
                   detail="" if ok else f"condition atoms {sorted(atoms)}", func=qa.fi.qualname)
        if "content_storage" in table:
            atoms, col = table["content_storage"]
            ok = nulltest(atoms, True) and any(a in ("is_mine=0", "blob.is_mine=0") for a in atoms) and len(atoms) == 2 \
                and col == "blob_length"
            ctx.ob("C19-D1/SQL", ok, qa.site(c), "content class = blobs with a stream_blob row (not-null test on a stream_blob "
                   "column, the outer-joined side) that are not the user's", detail="" if ok else f"condition atoms {sorted(atoms)}",
                   func=qa.fi.qualname)
        if "private_storage" in table:
            atoms, col = table["private_storage"]
            ok = atoms <= {"is_mine=1", "blob.is_mine=1"} and len(atoms) == 1 and col == "blob_length"
            ctx.ob("C19-D1/SQL", ok, qa.site(c), "private class = the user's blobs", detail="" if ok else f"atoms {sorted(atoms)}",
                   func=qa.fi.qualname)
        fin = "blob.status='finished'" in sql.replace(" ", "") or "status='finished'" in sql.replace(" ", "")
        ctx.ob("C19-D1/SQL", fin, qa.site(c), "only finished blobs are counted", func=qa.fi.qualname)
        # alias order == unpack order == dict keys
        aliases = _re.findall(r"\bas (\w+)", sql)
        assign = qa.lexically_inside(c, lambda a: isinstance(a, ast.Assign))
        if assign is not None and isinstance(assign.targets[0], ast.Tuple):
            names = [dotted(e) for e in assign.targets[0].elts]
            ret = next((r for r in qa.stmts(ast.Return) if isinstance(r.value, ast.Dict)), None)
            ok = ret is not None and len(names) == len(aliases)
            detail = ""
            if ok:
                mapping = {const.value: dotted(v) for const, v in zip(ret.value.keys, ret.value.values)
                           if isinstance(const, ast.Constant)}
                for alias, nm in zip(aliases, names):
                    if mapping.get(alias) != nm:
                        ok = False
                        detail = f"column `{alias}` is unpacked into `{nm}` but the result maps '{alias}' to `{mapping.get(alias)}`"
            ctx.ob("C19-D1/TABLE", ok, qa.site(assign), "select aliases, unpacked variables and result keys agree position by position",
                   detail=detail, func=qa.fi.qualname)


def complete(ctx, prog, fa):
    """the liveness half (after a pass usage is within the limit whenever enough removable blobs existed) and the accounting units:
    exactness of the skip test, of the selection and deletion conditions, MB conversion identical on both sides"""
    from .. import rules as R
    q = fa.fi.qualname
    sel = [c for c in fa.calls(dotted_name="delete.append")]
    dels = fa.calls(name="delete_blobs")
    for label, assume, want in (("content", ("not is_network_blob",), "not available >= 0 and not storage_limit_mb == 0"),
                                ("network", ("is_network_blob",), "not available >= 0")):
        ign = ["is_network_blob", "not is_network_blob"]
        for c in sel:
            R.exact_gate(ctx, "C19-D4/GATE", fa, c, want, f"[{label}] every listed blob is selected while usage is over the limit — under no further condition "
                         f"({'a zero limit means unlimited' if label == 'content' else 'a zero network limit means: keep nothing'})", assume=assume, ignore=ign,
                         key=f"C19-D4/GATE|{q}|select-exact|{label}")
        for d in dels:
            R.exact_gate(ctx, "C19-D4/GATE", fa, d, "delete", f"[{label}] whatever was selected is deleted", assume=assume,
                         ignore=ign + ["not available >= 0", "available >= 0", "not storage_limit_mb == 0"], key=f"C19-D4/GATE|{q}|delete-exact|{label}")
        early = [r for r in fa.stmts(ast.Return) if is_const(r.value, 0)]
        for r in early:
            R.only_terms(ctx, "C19-D4/GATE", fa, r, ["available >= 0", "storage_limit_mb == 0", "is_network_blob"],
                         f"[{label}] a pass is skipped only for `available >= 0` or an unlimited content class", assume=assume, key=f"C19-D4/GATE|{q}|skip-terms|{label}")
    for d in dels:
        ok = is_const(kwarg(d, "delete_from_db"), True) and isinstance(d._parent, ast.Await)
        ctx.ob("C19-D4/DEP", ok, fa.site(d), "deleted blobs are also removed from the database (usage is accounted from the database: a blob left there would be counted, "
               "and deleted for, again)", func=q, key=f"C19-D4/DEP|{q}|from-db")
    # usage expression per class
    us = [x for x in fa.stmts(ast.Assign) if any(dotted(t) == "space_used_mb" for t in x.targets) and isinstance(x.value, (ast.BinOp, ast.Subscript))]
    vals = sorted(norm_text(x.value) for x in us)
    ok = vals == ["space_used_mb['content_storage'] + space_used_mb['private_storage']", "space_used_mb['network_storage']"]
    ctx.ob("C19-D4/DEP", ok, fa.site(), "content usage = content_storage + private_storage; network usage = network_storage", detail="" if ok else str(vals), func=q,
           key=f"C19-D4/DEP|{q}|usage-expr")
    # units: both sides of the comparison are whole megabytes by the same conversion
    aug = [x for x in fa.stmts(ast.AugAssign) if dotted(x.target) == "available"]
    gm = ctx.fa("lbry.blob.disk_space_manager.DiskSpaceManager.get_space_used_mb")
    r = R.single_return_value(gm)
    conv = None
    if r is not None and isinstance(r.value, ast.DictComp):
        conv = norm_text(r.value.value).replace(dotted(r.value.generators[0].target.elts[1]) if isinstance(r.value.generators[0].target, ast.Tuple) else "value", "$")
    ok = conv == "int($ / 1024.0 / 1024.0)"
    ctx.ob("C19-D4/UNIT", ok, gm.site(), "usage is reported in whole MiB: int(bytes / 1024.0 / 1024.0) per class", detail="" if ok else str(conv), func=gm.fi.qualname,
           key="C19-D4/UNIT|usage-mb")
    for x in aug:
        loop = fa.lexically_inside(x, lambda a: isinstance(a, (ast.For, ast.AsyncFor)))
        sz = None
        if loop is not None and isinstance(loop.target, ast.Tuple) and len(loop.target.elts) >= 2:
            sz = dotted(loop.target.elts[1])
        ok = sz is not None and isinstance(x.op, ast.Add) and norm_text(x.value).replace(sz, "$") == (conv or "?")
        ctx.ob("C19-D4/UNIT", ok, fa.site(x), "each selected blob is credited with its length (2nd column of the listing) by the very same conversion", func=q,
               key=f"C19-D4/UNIT|{q}|credit-mb")
    ok = r is not None and isinstance(r.value, ast.DictComp) and norm_text(r.value.generators[0].iter) == "space_used_bytes.items()" and \
        [norm_text(x.value) for x in gm.stmts(ast.Assign) if any(dotted(t) == "space_used_bytes" for t in x.targets)] == \
        ["self._used_space_bytes if cached else await self.get_space_used_bytes()"] and \
        [norm_text(x.value) for x in gm.stmts(ast.Assign) if any(dotted(t) == "cached" for t in x.targets)] == ["cached and self._used_space_bytes is not None"]
    ctx.ob("C19-D4/DEP", ok, gm.site(), "the cached figures are used only when asked for and present", func=gm.fi.qualname)
    # the listing: class selected by is_network_blob alone
    gs = ctx.fa("lbry.extras.daemon.storage.SQLiteStorage.get_stored_blobs")
    gq = gs.fi.qualname
    for rr in gs.stmts(ast.Return):
        txt = gs.expanded_text(rr.value)
        net = "stream_blob.stream_hash is null" in txt
        R.exact_gate(ctx, "C19-D4/GATE", gs, rr, "is_network_blob" if net else "not is_network_blob",
                     f"the {'network (no stream_blob row)' if net else 'content'} listing is returned exactly for is_network_blob={net}", key=f"C19-D4/GATE|{gq}|class|{net}")
        if not net:
            ok = norm_text(rr.value) in ("content_blobs + sd_blobs", "sd_blobs + content_blobs")
            ctx.ob("C19-D4/DEP", ok, gs.site(rr), "the content listing is content blobs and sd blobs together", func=gq)
    ctx.floor("C19-D4/GATE", "returns of get_stored_blobs", len(gs.stmts(ast.Return)), 2, site=gs.site(), func=gq)
    ca_ = ctx.fa("lbry.blob.disk_space_manager.DiskSpaceManager.clean")
    cl = ca_.calls(name="_clean")
    ok = len(cl) == 2 and all(isinstance(c._parent, ast.Await) and isinstance(c._parent._parent, (ast.Expr, ast.Assign, ast.Return)) and c._parent._parent in ca_.node.body
                               and not R.atomic_facts_at(ca_, c)[0] for c in cl) and sorted(norm_text(c.args[0]) if c.args else "False" for c in cl) == ["False", "True"]
    ctx.ob("C19-D4/GATE", ok, ca_.site(), "a cleanup pass runs the content pass and the network pass as two unconditional statements (the second must not depend on what the first deleted)",
           func=ca_.fi.qualname, key="C19-D4/GATE|both-passes")
    # `is_mine` is what protects published blobs: it is written when a row is first inserted and by update_blob_ownership only — rows are never replaced
    st = prog.module("lbry.extras.daemon.storage")
    sq = [x for x in ast.walk(st.tree) if isinstance(x, (ast.Constant, ast.JoinedStr))]
    texts = []
    for x in sq:
        t_ = x.value if isinstance(x, ast.Constant) and isinstance(x.value, str) else ast.unparse(x) if isinstance(x, ast.JoinedStr) else None
        if t_:
            texts.append((x, " ".join(t_.split()).lower()))
    bad = [(x, t_) for x, t_ in texts if _re.search(r"replace.{0,12}into blob\b", t_) or (_re.search(r"insert or \{", t_) and "into blob" in t_)]
    ctx.ob("C19-D2/SQL", not bad, f"lbry/extras/daemon/storage.py:{bad[0][0].lineno}" if bad else "lbry/extras/daemon/storage.py:1", "blob rows are inserted with `insert or ignore`, never replaced "
           "(a replace would overwrite is_mine of a published blob with the caller's default)", detail=bad[0][1][:80] if bad else "", key="C19-D2/SQL|no-replace")
    own = [(x, t_) for x, t_ in texts if _re.search(r"update blob set [^;]*is_mine", t_)]
    fns = sorted({getattr(prog.function_of(x), "qualname", "?").split(".<locals>")[0] for x, _t in own})
    ctx.ob("C19-D2/SQL", fns == ["lbry.extras.daemon.storage.SQLiteStorage.update_blob_ownership"], "lbry/extras/daemon/storage.py:1", "is_mine of an existing row is changed only by update_blob_ownership",
           detail=str(fns), key="C19-D2/SQL|is_mine-writers")
    ins = [(x, t_) for x, t_ in texts if "into blob values" in t_]
    ctx.ob("C19-D2/SQL", len(ins) >= 2 and all(t_.startswith("insert or ignore into blob values") for _x, t_ in ins), "lbry/extras/daemon/storage.py:1", "every insertion into blob is `insert or ignore`",
           detail=str([t_[:40] for _x, t_ in ins]), key="C19-D2/SQL|insert-ignore")
