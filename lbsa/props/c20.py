"""C20 — LBC amounts convert to and from integer dewies exactly."""
import ast
import re

from .. import AnalysisError
from ..astutil import dotted, call_name, unparse, norm_text, walk_local_body, kwarg
from ..consteval import Evaluator, Unknown
from .. import rules as R
from .. import regexast as rx

EXPLANATION = (
    "Numeric-domain and grammar analysis of satoshis_to_coins / coins_to_satoshis: (1) no float-producing "
    "operation (true division, float(), round(), f/e/g/% format specs) lies on the path from the amount to the "
    "string, the magnitude is split with integer divmod/`//`/`%` by COIN == 10**8, the fractional part is zero "
    "padded to exactly 8 digits and the sign is emitted as a separate '-' prefix chosen by `amount < 0` over "
    "abs(amount) (so -0.x keeps its sign); (2) the accepted grammar, read from the regex AST, is exactly "
    "ASCII-digit{1,10} '.' ASCII-digit{1,8} matched against the whole string, the value is "
    "int(whole + fractional padded right with '0' to 8), non-strings and non-matches raise ValueError; "
    "(3) dewies_to_lbc / lbc_to_dewies delegate unchanged. Decides exactness and the rejection grammar for all "
    "integers and all strings; trusts int()/str()/divmod."
)
EXACTNESS = "Second pass (DESIGN.md §10, exactness / completeness halves) — trailing-zero rule, no fall-through, refusals exact, a failed conversion is never swallowed."
TECHNIQUE = "static analysis: numeric-domain lint on the def-use chain, regex-AST grammar check, guard dominance of returns; exact fact-set comparison of the tests dominating each effect and refusal (effect / refusal tables), fall-through path queries"
NOT_DECIDED = "nothing beyond the behaviour of int, str, divmod and the re module"
ASSUMPTIONS = ["amounts passed to satoshis_to_coins are Python ints (all call sites pass integer dewies)"]

UTIL = "lbry.wallet.util"
S2C = "lbry.wallet.util.satoshis_to_coins"
C2S = "lbry.wallet.util.coins_to_satoshis"

FLOAT_SPEC = re.compile(r"[feEgGn%]\s*$")


def check(ctx):
    prog = ctx.prog
    ev = Evaluator(prog)
    mod = prog.module(UTIL)

    # ---- CONST
    try:
        coin = ev.name(mod, "COIN")
    except Unknown as e:
        raise AnalysisError(f"C20: COIN does not fold: {e}")
    ctx.ob("C20-D1/CONST", coin == 10 ** 8, f"{mod.relpath}:1", "COIN folds to 10**8", detail=f"COIN == {coin}")
    digits = len(str(coin)) - 1 if str(coin).strip("0") == "1" else None

    # ---- D1 NUMDOM: satoshis_to_coins
    fa = ctx.fa(S2C)
    fi = fa.fi
    param = fi.params()[0]
    bad = []
    for n in walk_local_body(fi.node):
        if isinstance(n, ast.BinOp) and isinstance(n.op, ast.Div):
            if not any(isinstance(s, ast.Call) and call_name(s) == "Decimal" for s in ast.walk(n)):
                bad.append((n, "true division `/` produces a float"))
        elif isinstance(n, ast.AugAssign) and isinstance(n.op, ast.Div):
            bad.append((n, "`/=` produces a float"))
        elif isinstance(n, ast.Call) and call_name(n) in ("float", "round", "fsum", "pow") and dotted(n.func) in (
                "float", "round", "math.fsum", "math.pow"):
            bad.append((n, f"{call_name(n)}() on the formatting path"))
        elif isinstance(n, ast.FormattedValue) and n.format_spec is not None:
            spec = "".join(v.value for v in n.format_spec.values if isinstance(v, ast.Constant))
            if FLOAT_SPEC.search(spec):
                bad.append((n, f"float format spec '{spec}'"))
        elif isinstance(n, ast.Call) and call_name(n) == "format" and isinstance(n.func, ast.Attribute) \
                and isinstance(n.func.value, ast.Constant) and isinstance(n.func.value.value, str):
            for spec in re.findall(r"\{[^{}:]*:([^{}]*)\}", n.func.value.value):
                if FLOAT_SPEC.search(spec):
                    bad.append((n, f"float format spec '{spec}'"))
        elif isinstance(n, ast.BinOp) and isinstance(n.op, ast.Mod) and isinstance(n.left, ast.Constant) \
                and isinstance(n.left.value, str) and re.search(r"%[-+ #0-9.]*[feEgG]", n.left.value):
            bad.append((n, "%-format with a float conversion"))
        elif isinstance(n, ast.Constant) and isinstance(n.value, float):
            bad.append((n, f"float literal {n.value}"))
    ctx.ob("C20-D1/NUMDOM", not bad, fa.site(bad[0][0]) if bad else fa.site(),
           "no float-producing operation on the amount -> string path",
           detail="; ".join(f"L{n.lineno}: {why}: `{unparse(n)[:60]}`" for n, why in bad), func=fi.qualname,
           key=f"C20-D1/NUMDOM|{fi.qualname}|float")

    rets = fa.stmts(ast.Return)
    ctx.floor("C20-D1/DEP", "returns of satoshis_to_coins", len(rets), 1)
    all_src_nodes = []
    for r in rets:
        src = fa.sources(r.value)
        all_src_nodes.extend(src["nodes"])
        ctx.ob("C20-D1/DEP", param in src["params"], fa.site(r), "returned string depends on the amount", func=fi.qualname)
    # trailing zeros: stripped, but one digit after the point always remains (the parser's grammar needs it)
    for r in rets:
        v = norm_text(r.value)
        dot = fa.guarded(r, "coins.endswith('.')")[0]
        nodot = fa.guarded(r, "not coins.endswith('.')")[0]
        ok = (dot and v in ("coins + '0'",)) or (nodot and v == "coins")
        ctx.ob("C20-D1/PAD", ok, fa.site(r), "a value that ends in '.' after stripping zeros gets one '0' back; any other is returned as is", func=fi.qualname,
               key=f"C20-D1/PAD|{fi.qualname}|{'dot' if dot else 'nodot' if nodot else '?'}")
        R.only_terms(ctx, "C20-D1/PAD", fa, r, ["coins.endswith('.')"], "…decided by that test alone", key=f"C20-D1/PAD|{fi.qualname}|only|{v}")
    p = fa.path([fa.cfg.entry], [fa.cfg.exit], avoid=lambda n: n.kind == "return", include_exc=False)
    ctx.ob("C20-D1/EXIT", p is None, fa.site(), "every path returns a string (none falls off the end returning None)", detail="" if p is None else fa.fmt_path(p), func=fi.qualname)
    # integer split by COIN
    split = [n for n in all_src_nodes if (isinstance(n, ast.Call) and call_name(n) == "divmod")
             or (isinstance(n, ast.BinOp) and isinstance(n.op, (ast.FloorDiv, ast.Mod)))]
    split_ok = False
    for n in split:
        divisor = n.args[1] if isinstance(n, ast.Call) and len(n.args) == 2 else getattr(n, "right", None)
        try:
            if divisor is not None and ev.eval_in_module(mod, divisor) == 10 ** 8:
                split_ok = True
        except Unknown:
            pass
    ctx.ob("C20-D1/NUMDOM", split_ok, fa.site(), "whole and fractional parts come from integer divmod / // / % by COIN",
           func=fi.qualname)
    # magnitude: the dividend is abs(amount); nothing on the path negates a value
    abs_ok = any(isinstance(n, ast.Call) and call_name(n) == "abs" and n.args and dotted(n.args[0]) == param
                 for n in all_src_nodes)
    neg = [n for n in walk_local_body(fi.node) if isinstance(n, ast.UnaryOp) and isinstance(n.op, ast.USub)
           and not isinstance(n.operand, ast.Constant)]
    sign_sel = False
    for n in walk_local_body(fi.node):
        tests = []
        if isinstance(n, ast.IfExp):
            tests.append((n.test, [n.body, n.orelse]))
        elif isinstance(n, ast.If):
            tests.append((n.test, n.body + n.orelse))
        for t, arms in tests:
            from .. import terms
            if terms.conj(t) in (terms.parse_guard(f"{param} < 0"), terms.parse_guard(f"{param} >= 0")):
                if any(isinstance(c, ast.Constant) and c.value == "-" for a in arms for c in ast.walk(a)):
                    sign_sel = True
    ctx.ob("C20-D1/SIGN", abs_ok and not neg and sign_sel, fa.site(),
           "sign is a separate '-' prefix chosen by `amount < 0`; digits come from abs(amount); no value is negated "
           "(a sign carried on the integer part is lost for -1 LBC < amount < 0)",
           detail="" if abs_ok and not neg and sign_sel else
           f"abs(amount) used={abs_ok}; negations={[unparse(n) for n in neg]}; '-' selected by amount<0={sign_sel}",
           func=fi.qualname)
    # fractional padded to `digits` with zeros
    pad_ok, pad_seen = False, []
    for n in all_src_nodes:
        if isinstance(n, ast.FormattedValue) and n.format_spec is not None:
            spec = "".join(v.value for v in n.format_spec.values if isinstance(v, ast.Constant))
            pad_seen.append(spec)
            if re.fullmatch(rf"0{digits}d?", spec) or re.fullmatch(rf"0>{digits}d?", spec):
                pad_ok = True
        elif isinstance(n, ast.Call) and call_name(n) in ("zfill",) and n.args and isinstance(n.args[0], ast.Constant):
            pad_seen.append(f"zfill({n.args[0].value})")
            pad_ok = pad_ok or n.args[0].value == digits
        elif isinstance(n, ast.Call) and call_name(n) == "rjust" and len(n.args) == 2 and \
                all(isinstance(a, ast.Constant) for a in n.args):
            pad_seen.append(f"rjust({n.args[0].value},{n.args[1].value!r})")
            pad_ok = pad_ok or (n.args[0].value == digits and n.args[1].value == "0")
    ctx.ob("C20-D1/PAD", pad_ok, fa.site(), f"fractional part is zero padded to exactly {digits} digits",
           detail="" if pad_ok else f"padding idioms seen: {pad_seen}", func=fi.qualname)

    # ---- D2 REGEX: coins_to_satoshis
    ca = ctx.fa(C2S)
    cfi = ca.fi
    cparam = cfi.params()[0]
    matches = []
    for c in ca.calls():
        nm = call_name(c)
        if nm in ("match", "search", "fullmatch", "findall", "finditer") and isinstance(c.func, ast.Attribute):
            recv = dotted(c.func.value)
            pat, flags, api = None, 0, nm
            try:
                if recv == "re" and c.args:
                    pat = ev.eval_in_module(mod, c.args[0])
                    flag_exprs = c.args[2:] + [k.value for k in c.keywords if k.arg == "flags"]
                else:
                    val = ev.eval_in_module(mod, c.func.value)
                    if isinstance(val, tuple) and val and val[0] == "re":
                        pat = val[1]
                        flag_exprs = [ast.parse(x.split("=")[-1], mode="eval").body for x in val[2]]
                    else:
                        continue
            except Unknown:
                continue
            for fe in flag_exprs:
                txt = unparse(fe)
                if "ASCII" in txt or re.search(r"\bre\.A\b", txt):
                    flags |= re.ASCII
            matches.append((c, pat, flags, api))
    ctx.floor("C20-D2/REGEX", "regex match call in coins_to_satoshis", len(matches), 1)
    for c, pat, flags, api in matches:
        p = rx.parse(pat, flags)
        whole = api == "fullmatch"
        if not whole:
            end_ok, why = rx.ends_anchored_whole_string(p)
            start_ok = api == "match" or rx.starts_anchored(p)
            whole = end_ok and start_ok
            detail = f"API re.{api}; end anchor: {why}; start anchored: {start_ok}"
        else:
            detail = ""
        ctx.ob("C20-D2/REGEX", whole, ca.site(c), "pattern is matched against the whole string (fullmatch, or ^…\\Z)",
               detail=detail, func=cfi.qualname, key=f"C20-D2/REGEX|{cfi.qualname}|anchor")
        body = rx.strip_anchors(p)
        shape_ok, why = _grammar(body, flags, digits)
        ctx.ob("C20-D2/REGEX", shape_ok, ca.site(c),
               f"grammar is exactly ASCII-digit{{1,10}} '.' ASCII-digit{{1,{digits}}}", detail=why, func=cfi.qualname,
               key=f"C20-D2/REGEX|{cfi.qualname}|grammar")
        # the matched subject is the parameter
        subj = c.args[1] if dotted(c.func.value) == "re" and len(c.args) > 1 else (c.args[0] if c.args else None)
        ctx.ob("C20-D2/DEP", subj is not None and dotted(subj) == cparam, ca.site(c), "the pattern is applied to the argument itself",
               func=cfi.qualname)
        ok, missing, wit = ca.guarded(c, f"isinstance({cparam}, str)")
        ctx.ob("C20-D2/GATE", ok, ca.site(c), "only strings reach the grammar", detail=wit if not ok else "", func=cfi.qualname)

    # value construction
    crets = ca.stmts(ast.Return)
    ctx.floor("C20-D2/DEP", "return of coins_to_satoshis", len(crets), 1)
    for r in crets:
        ex = ca.expand(r.value)
        ok, why = _value_shape(ex, r, ca, digits, lambda e: _fold(ev, mod, e))
        ctx.ob("C20-D2/DEP", ok, ca.site(r), f"value is int(group1 + group2 right-padded with '0' to {digits})",
               detail=why, func=cfi.qualname)
        src = ca.sources(r.value)
        has_match = any(cn.endswith(("fullmatch", "match", "search")) for cn in src["calls"])
        ctx.ob("C20-D2/DEP", has_match, ca.site(r), "returned value derives from the regex match groups", func=cfi.qualname)
        # reachable only when the match succeeded
        mnames = set()
        for st in ca.stmts(ast.Assign):
            if any(st.value is c or any(x is c for x in ast.walk(st.value)) for c, _, _, _ in matches):
                mnames |= {t.id for t in st.targets if isinstance(t, ast.Name)}
        for n in ca.local_nodes(ast.NamedExpr):
            if any(x is c for c, _, _, _ in matches for x in ast.walk(n.value)):
                mnames.add(n.target.id)
        guard_ok = any(ca.guarded(r, g)[0] for nm in mnames for g in (f"{nm} is not None", nm))
        ctx.ob("C20-D2/GATE", guard_ok, ca.site(r), "a value is returned only when the pattern matched",
               detail="" if guard_ok else f"match result names {sorted(mnames)} are not tested on every path to the return",
               func=cfi.qualname)
    # every other way out raises ValueError
    raises = ca.stmts(ast.Raise)
    kinds = {dotted(x.exc.func) if isinstance(x.exc, ast.Call) else dotted(x.exc) for x in raises if x.exc is not None}
    ctx.ob("C20-D2/EXIT", kinds == {"ValueError"} and len(raises) >= 2, ca.site(), "non-strings and non-matching strings raise ValueError",
           detail=f"raise kinds {sorted(map(str, kinds))}, {len(raises)} raise statements", func=cfi.qualname)
    # no fall-through exit returning None
    p = ca.path([ca.cfg.entry], [ca.cfg.exit],
                avoid=lambda n: n.kind == "return", include_exc=False)
    ctx.ob("C20-D2/EXIT", p is None, ca.site(), "no path falls off the end returning None",
           detail="" if p is None else ca.fmt_path(p), func=cfi.qualname)
    # refusals are exact: every string of the grammar converts
    for x in raises:
        in_first = ca.guarded(x, f"not isinstance({cparam}, str)")[0]
        if in_first:
            R.exact_gate(ctx, "C20-D2/GATE", ca, x, f"not isinstance({cparam}, str)", "the type refusal fires for non-strings only", key=f"C20-D2/GATE|{cfi.qualname}|type-exact")
        else:
            R.only_terms(ctx, "C20-D2/GATE", ca, x, [f"isinstance({cparam}, str)"] + [f"{nm} is None" for nm in sorted(mnames)] + sorted(mnames),
                         "the format refusal depends on nothing but the match result", key=f"C20-D2/GATE|{cfi.qualname}|format-exact")
    for r in crets:
        R.only_terms(ctx, "C20-D2/GATE", ca, r, [f"isinstance({cparam}, str)"] + [f"{nm} is None" for nm in sorted(mnames)] + sorted(mnames),
                     "every matching string is converted (no further condition)", key=f"C20-D2/GATE|{cfi.qualname}|accept-exact")
    # no float / Decimal / eval parsing
    badc = [c for c in ca.calls() if call_name(c) in ("float", "Decimal", "eval", "round")]
    ctx.ob("C20-D2/NUMDOM", not badc, ca.site(badc[0]) if badc else ca.site(), "parsing does not go through float/Decimal/round",
           func=cfi.qualname)

    # ---- D3 delegation
    for q, target in (("lbry.wallet.dewies.dewies_to_lbc", "satoshis_to_coins"),
                      ("lbry.wallet.dewies.lbc_to_dewies", "coins_to_satoshis")):
        da = ctx.fa(q)
        prm = da.fi.params()[0]
        rets = da.stmts(ast.Return)
        ok = bool(rets) and all(isinstance(r.value, ast.Call) and call_name(r.value) == target and len(r.value.args) == 1
                                and dotted(r.value.args[0]) == prm and not r.value.keywords for r in rets)
        tgt = prog.resolve_name(da.fi.module, target)
        ok = ok and getattr(tgt, "qualname", None) == f"{UTIL}.{target}"
        # "its argument" is the caller's value: the parameter is never rebound on the way to the call
        ok = ok and not any(isinstance(n, ast.Name) and n.id == prm and isinstance(n.ctx, (ast.Store, ast.Del)) for n in ast.walk(da.fi.node))
        ctx.ob("C20-D3/DEP", ok, da.site(), f"{da.fi.name} returns {target}(<its argument>) unchanged", func=da.fi.qualname)
        for x in da.stmts(ast.Raise):
            k = dotted(x.exc.func) if isinstance(x.exc, ast.Call) else dotted(x.exc) if x.exc else None
            ctx.ob("C20-D3/EXIT", k in ("ValueError", None), da.site(x), "conversion failures stay ValueError", func=da.fi.qualname)
        for h in [h for t in da.stmts(ast.Try) for h in t.handlers]:
            # a handler that swallows the failure would make the function return None for an invalid amount
            starts = [n for st in h.body[:1] for n in da.cfg_nodes(st)]
            pth = da.path(starts, [da.cfg.exit], include_exc=False, allow_trivial=True) if starts else [None]
            ctx.ob("C20-D3/EXIT", pth is None, da.site(h), "a failed conversion is never swallowed: the handler always raises", func=da.fi.qualname,
                   key=f"C20-D3/EXIT|{da.fi.qualname}|handler-raises")


def _grammar(body, flags, digits):
    """body: top-level items without anchors.  exactly (d{1,10}) '.' (d{1,digits})"""
    def digits_group(item, lo, hi):
        g = rx.group_of(item)
        inner = g[1] if g else [item]
        if len(inner) != 1:
            return False, "group is not a single repeated class"
        rep = rx.repeat_of(inner[0])
        if rep is None:
            return False, "not a bounded repetition"
        rlo, rhi, sub = rep
        if (rlo, rhi) != (lo, hi):
            return False, f"repetition bounds {{{rlo},{rhi if rhi != rx.MAXREPEAT else 'inf'}}} instead of {{{lo},{hi}}}"
        if len(sub) != 1 or not rx.is_ascii_digit_class(sub[0], flags):
            return False, "repeated element is not an ASCII digit class ([0-9], or \\d with re.ASCII)"
        return True, ""
    if len(body) != 3:
        return False, f"{len(body)} top-level elements instead of 3 (digits, '.', digits)"
    ok, why = digits_group(body[0], 1, 10)
    if not ok:
        return False, "integer part: " + why
    if rx.literal_of(body[1]) != ".":
        return False, "separator is not a literal '.'"
    ok, why = digits_group(body[2], 1, digits)
    if not ok:
        return False, "fractional part: " + why
    return True, ""


def _fold(ev, mod, e):
    try:
        return ev.eval_in_module(mod, e)
    except Exception:
        return None


def _value_shape(ex, ret, ca, digits, fold=lambda e: e.value if isinstance(e, ast.Constant) else None):
    """int(<whole> + <fractional>.ljust(digits, '0')) where (whole, fractional) are groups 1, 2 in this order"""
    if not (isinstance(ex, ast.Call) and call_name(ex) == "int" and len(ex.args) == 1 and not ex.keywords):
        return False, f"not int(<one argument>): `{unparse(ex)[:80]}`"
    a = ex.args[0]
    if not (isinstance(a, ast.BinOp) and isinstance(a.op, ast.Add)):
        return False, "argument of int() is not a concatenation"
    left, right = a.left, a.right
    if not (isinstance(right, ast.Call) and call_name(right) == "ljust" and len(right.args) == 2
            and fold(right.args[0]) == digits and fold(right.args[1]) == "0"):
        return False, f"fractional digits are not right-padded with '0' to {digits}: `{unparse(right)[:60]}`"
    frac = right.func.value
    which = {}
    for role, e in (("whole", left), ("fractional", frac)):
        idx = _group_index(e, ret, ca)
        if idx is None:
            return False, f"cannot tell which match group `{unparse(e)}` is"
        which[role] = idx
    if which != {"whole": 1, "fractional": 2}:
        return False, f"groups used: {which}"
    return True, ""


def _group_index(e, ret, ca):
    """1-based regex group index a (possibly local) expression denotes"""
    if isinstance(e, ast.Name):
        node = ca.cfg_nodes(ret)[0]
        ds = ca.rd.reaching(e.id, node)
        if len(ds) == 1 and ds[0].kind.startswith("unpack:") and ds[0].src is not None:
            src = ca.rd.expand(ds[0].src, ds[0].node)
            if isinstance(src, ast.Call) and call_name(src) == "groups" and not src.args:
                return int(ds[0].kind.split(":")[1]) + 1
        if len(ds) == 1 and ds[0].value is not None:
            return _group_index(ds[0].value, ret, ca)
        return None
    if isinstance(e, ast.Call) and call_name(e) == "group" and len(e.args) == 1 and isinstance(e.args[0], ast.Constant):
        return e.args[0].value
    if isinstance(e, ast.Subscript) and isinstance(e.slice, ast.Constant):
        v = e.value
        if isinstance(v, ast.Call) and call_name(v) == "groups":
            return e.slice.value + 1
        if isinstance(e.slice.value, int):
            return e.slice.value
    return None
