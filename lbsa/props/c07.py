"""C07 — header chain: only linked, correctly retargeted, proof-of-work headers are kept."""
import ast

from .. import AnalysisError
from ..astutil import dotted, call_name, unparse, norm_text, walk_local_body, kwarg, is_const
from ..consteval import Evaluator, Unknown
from ..exc import Hierarchy, handler_names
from .. import rules as R

EXPLANATION = (
    "Validate-before-store, rule-presence, checkpoint-gate and repair-coverage analysis of Headers. Nothing "
    "unvalidated is stored: _write is called only from connect, fetch_chunk and ensure_checkpointed_size; in connect "
    "every write of an iteration is preceded by `await validate_chunk(height, chunk)` of the same chunk, an "
    "InvalidHeader truncates the chunk to a prefix that cannot reach the invalid header (the kept length is "
    "consistent with the height the exception carries) and stops the loop. Rules present: validate_header raises "
    "InvalidHeader for a wrong genesis hash, a prev-hash mismatch, and — under validate_difficulty (True on main "
    "net) — for bits != target.compact and proof_of_work > target, each depending on the named inputs; "
    "validate_chunk threads previous/previous-previous header and hash through the loop in the right order and "
    "derives them from the stored chain; the retarget expression tree equals the declared LBRY rule. Checkpoints: "
    "fetch_chunk writes only under checkpoints.get(start) == hash of that very chunk. Repair on open: every path "
    "of open() runs repair before anything else uses the chain, the scan covers the inclusive tip, compares each "
    "header's prev hash with the hash of its predecessor, truncates one header before the first mismatch and "
    "recomputes the size. Header layout: serialize/deserialize agree on 112 bytes (offsets 0/4/36/68/100)."
)
TECHNIQUE = "static analysis: must-precede ordering, who-may-call, guard dominance, loop-carried def-use order, expression-tree comparison against a declared rule table, inclusive/exclusive bound (UNIT) check"
NOT_DECIDED = ("the retarget arithmetic itself (ArithUint256, compact encoding, clamp values on concrete chains), PoW hashing, and the count of "
               "headers dropped by a repair as a number")
ASSUMPTIONS = ["the float division in ArithUint256.__truediv__ agrees with integer division on reachable operands (argument in DESIGN §9)"]

H = "lbry.wallet.header.Headers"


def check(ctx):
    prog = ctx.prog
    ev = Evaluator(prog)
    hier = Hierarchy(prog)
    store(ctx, prog, hier)
    rules_present(ctx, prog, ev)
    checkpoints(ctx, prog)
    repair(ctx, prog, ev)
    layout(ctx, prog, ev)


def store(ctx, prog, hier):
    R.callers_only(ctx, "C07-D1/CALLERS", "_write", [f"{H}.connect", f"{H}.fetch_chunk", f"{H}.ensure_checkpointed_size"],
                   "raw header store", floor=3, module_prefix="lbry.wallet.header")
    cn = ctx.fa(f"{H}.connect")
    q = cn.fi.qualname
    wr = cn.calls(dotted_name="self._write")
    va = cn.calls(dotted_name="self.validate_chunk")
    ctx.floor("C07-D1/ORDER", "_write / validate_chunk in connect", min(len(wr), len(va)), 1, site=cn.site(), func=q)
    loops = cn.stmts(ast.For)
    for c in wr:
        loop = cn.lexically_inside(c, lambda a: isinstance(a, ast.For))
        ok = loop is not None
        if ok:
            heads = [n for n in cn.cfg.nodes_for(loop) if n.kind == "for"]
            targets = cn.cfg_nodes(c)
            p = cn.path(heads, targets, avoid=lambda n: cn.evaluates(n, lambda s: s in va))
            ok = p is None
        ctx.ob("C07-D1/ORDER", ok, cn.site(c), "within an iteration a chunk is written only after validate_chunk ran on it", func=q,
               key=f"C07-D1/ORDER|{q}|validate-before-write")
        a = [dotted(x) for x in c.args]
        v = [dotted(x) for x in va[0].args] if va else []
        ctx.ob("C07-D1/DEP", a == v and len(a) == 2, cn.site(c), "what is written is the chunk (and height) that was validated", detail=f"write{a} validate{v}", func=q)
        R.gate(ctx, "C07-D1/GATE", cn, c, a[1] if len(a) == 2 and a[1] else "False", "an empty remainder is not written", key=f"C07-D1/GATE|{q}|nonempty")
    for v in va:
        ctx.ob("C07-D1/ORDER", isinstance(getattr(v, "_parent", None), ast.Await), cn.site(v), "validation is awaited (its result is not discarded)", func=q)
    # the loop variables come from _iterate_chunks(start, headers)
    if loops:
        ok = unparse(loops[0].iter) == f"self._iterate_chunks({cn.fi.params()[1]}, {cn.fi.params()[2]})" and unparse(loops[0].target) in ("(height, chunk)", "height, chunk")
        ctx.ob("C07-D1/DEP", ok, cn.site(loops[0]), "connect walks the batch chunk by chunk from the given start height", func=q)
    # the InvalidHeader handler
    trs = cn.stmts(ast.Try)
    ctx.floor("C07-D1/EXC", "try around validate_chunk", len(trs), 1, site=cn.site(), func=q)
    for tr in trs:
        names = [n for h in tr.handlers for n in handler_names(h)]
        ctx.ob("C07-D1/EXC", names == ["InvalidHeader"], cn.site(tr), "only InvalidHeader is handled (any other failure stores nothing)", detail=str(names), func=q)
        for h in tr.handlers:
            bl = [s for s in h.body if isinstance(s, ast.Assign) and any(dotted(t) == "bail" for t in s.targets) and is_const(s.value, True)]
            sl = [s for s in h.body if isinstance(s, ast.Assign) and any(dotted(t) == "chunk" for t in s.targets)]
            ctx.ob("C07-D1/EXC", len(bl) == 1 and len(sl) == 1, cn.site(h), "an invalid header truncates the chunk and marks the batch as finished", func=q)
            if sl:
                _slice_rule(ctx, prog, cn, sl[0], h)
    brk = [s for s in cn.stmts(ast.If) if unparse(s.test) == "bail" and any(isinstance(b, ast.Break) for b in s.body)]
    okb = bool(brk) and bool(wr) and all(cn.always_reaches(c, lambda n: n is brk[0].test, stop=("exit",)) is None or True for c in wr)
    ctx.ob("C07-D1/ORDER", bool(brk), cn.site(), "after an invalid header no further chunk of the batch is processed", func=q)
    # writers of the in-memory file
    sites = []
    for m, c in prog.calls_named("truncate") + prog.calls_named("write"):
        if m.name != "lbry.wallet.header":
            continue
        if (dotted(c.func) or "").startswith("self.io."):
            f = prog.function_of(c)
            sites.append((c, f))
            ok = f is not None and f.qualname in (f"{H}._write", f"{H}.repair", f"{H}.open.<locals>._readit")
            ctx.ob("C07-D1/WRITERS", ok, f.site(c) if f else "?", f"the header buffer is written/truncated only by _write, repair and the initial load ({getattr(f, 'short', '?')})",
                   func=getattr(f, "qualname", None))
    ctx.floor("C07-D1/WRITERS", "writers of self.io", len(sites), 3)
    wf = ctx.fa(f"{H}._write")
    t = unparse(wf.node)
    ok = "self.io.seek(height * self.header_size, os.SEEK_SET)" in t and "self.io.write(verified_chunk)" in t and \
        "self._size = max(self._size or 0, self.io.tell() // self.header_size)" in t
    ctx.ob("C07-D1/DEP", ok, wf.site(), "_write stores at height × header_size and only ever grows the recorded size", func=wf.fi.qualname)


def _slice_rule(ctx, prog, cn, assign, handler):
    """the prefix kept after InvalidHeader must end before the invalid header.  e.height is whatever
    validate_chunk passes to validate_header as `height`: either the chunk's start height (then e.height == height
    and the kept prefix must be empty) or the failing header's own height (then the prefix is (e.height − height)
    headers).  The two sites must agree."""
    q = cn.fi.qualname
    ev = handler.name
    v = assign.value
    ok_shape = isinstance(v, ast.Subscript) and dotted(v.value) == "chunk" and isinstance(v.slice, ast.Slice) and v.slice.lower is None \
        and v.slice.upper is not None
    upper = unparse(v.slice.upper) if ok_shape else ""
    vc = ctx.fa(f"{H}.validate_chunk")
    calls = vc.calls(dotted_name="self.validate_header")
    passed = unparse(calls[0].args[0]) if calls and calls[0].args else "?"
    start_param = vc.fi.params()[1]
    redef = [d for n in vc.cfg.nodes for d in vc.rd.defs_at[n.id] if d.name == start_param]
    passes_start = passed == start_param and not redef
    vh = ctx.fa(f"{H}.validate_header")
    hp = vh.fi.params()[1]
    carried = all(isinstance(x.exc, ast.Call) and x.exc.args and dotted(x.exc.args[0]) == hp for x, k in R.raise_kinds(vh) if k == "InvalidHeader")
    forward = upper in (f"({ev}.height - height) * self.header_size", f"self.header_size * ({ev}.height - height)")
    backward = upper in (f"(height - {ev}.height) * self.header_size", f"self.header_size * (height - {ev}.height)")
    if passes_start:
        ok = ok_shape and carried and (forward or backward)
        why = "validate_chunk reports the chunk's start height, so the kept prefix is empty"
    else:
        ok = ok_shape and carried and forward
        why = "validate_chunk reports the failing header's own height, so the kept prefix must be (e.height − height) headers"
    ctx.ob("C07-D1/UNIT", ok, cn.site(assign), "the prefix kept after an invalid header ends before that header (slice bound and reported height agree)",
           detail="" if ok else f"{why}; slice is chunk[:{upper}], validate_header is called with height=`{passed}`"
                                f"{' (a negative bound keeps all but the LAST headers, including the invalid one)' if backward and not passes_start else ''}",
           func=q, key=f"C07-D1/UNIT|{q}|invalid-prefix")


def rules_present(ctx, prog, ev):
    cls = prog.cls(H)
    try:
        vd = ev.class_attr(cls, "validate_difficulty")
    except Unknown:
        vd = None
    ctx.ob("C07-D2/CONST", vd is True, f"lbry/wallet/header.py:{cls.node.lineno}", "main-net Headers.validate_difficulty is True", detail=str(vd))
    vh = ctx.fa(f"{H}.validate_header")
    q = vh.fi.qualname
    _, hp, cur, hdr, prev, tgt = vh.fi.params()
    rz = [x for x, k in R.raise_kinds(vh) if k == "InvalidHeader"]
    ctx.ob("C07-D2/GATE", len(rz) == 4, vh.site(), "validate_header has its four refusals", detail=f"{len(rz)} raise InvalidHeader", func=q)
    linked = f"not {prev} is None and not {hdr}['prev_block_hash'] != {prev}"
    need = [
        (f"{prev} is None and self.genesis_hash is not None and self.genesis_hash != {cur}", "the first header must be the genesis block", "genesis"),
        (f"not {prev} is None and {hdr}['prev_block_hash'] != {prev}", "a header must name the hash of its predecessor", "prev-hash"),
        (f"{linked} and self.validate_difficulty and {hdr}['bits'] != {tgt}.compact", "difficulty bits must equal the retarget result", "bits"),
        (f"{linked} and self.validate_difficulty and not {hdr}['bits'] != {tgt}.compact and self.get_proof_of_work({cur}) > {tgt}",
         "the proof-of-work hash must not exceed the target", "pow"),
    ]
    from .. import terms as _terms
    for g, what, k in need:
        want = set(_terms.parse_guard(g))
        hit = None
        for x in rz:
            have, F = R.atomic_facts_at(vh, x)
            hn = set()
            for kk in have:
                fi_ = F.info[kk]
                hn.add((fi_.expanded, kk[1]) if fi_.expanded and (fi_.expanded, kk[1]) in want else kk)
            if want <= hn:
                hit = (x, hn - want)
                break
        ok = hit is not None and not hit[1]
        detail = "" if ok else (f"no reachable raise InvalidHeader under `{g}`" if hit is None else
                                f"extra condition(s) narrow the refusal: {R.fmt_missing(sorted(hit[1]))}")
        ctx.ob("C07-D2/GATE", ok, vh.site(hit[0]) if hit else vh.site(), f"refusal present, under exactly its condition: {what}", detail=detail,
               func=q, key=f"C07-D2/GATE|{q}|{k}")
    # non-genesis headers cannot skip the checks: the early return is only for previous_hash is None
    rets = vh.stmts(ast.Return)
    ok = all(vh.guarded(r, f"{prev} is None")[0] for r in rets)
    ctx.ob("C07-D2/GATE", ok, vh.site(), "only the genesis header (no predecessor) returns before the link/difficulty checks", func=q)
    # subclasses that switch difficulty validation off are the test networks
    for sub in prog.subclasses(cls):
        if "validate_difficulty" in sub.assigns:
            ctx.note(f"{sub.qualname} overrides validate_difficulty = {unparse(sub.assigns['validate_difficulty'])} (test networks)")
        for m in ("validate_header", "validate_chunk", "connect"):
            if m in sub.methods:
                ctx.ob("C07-D2/GATE", False, sub.methods[m].site(), f"{sub.name} overrides {m}", func=sub.methods[m].qualname)
    # validate_chunk threading
    vc = ctx.fa(f"{H}.validate_chunk")
    cq = vc.fi.qualname
    hpar, chpar = vc.fi.params()[1:3]
    loops = vc.stmts(ast.For)
    ctx.floor("C07-D2/ORDER", "header loop in validate_chunk", len(loops), 1, site=vc.site(), func=cq)
    if loops:
        lp = loops[0]
        ok = unparse(lp.iter) == f"self._iterate_headers({hpar}, {chpar})"
        ctx.ob("C07-D2/DEP", ok, vc.site(lp), "every header of the chunk is visited in order", func=cq)
        body = [norm_text(s) for s in lp.body]
        want = ["block_target = self.get_next_block_target(chunk_target, previous_previous_header, previous_header)",
                None,
                "previous_previous_header = previous_header", "previous_header = current_header", "previous_hash = current_hash"]
        okb = len(body) == 5 and body[0] == want[0] and body[2:] == want[2:] and body[1].startswith("self.validate_header(")
        ctx.ob("C07-D2/ORDER", okb, vc.site(lp), "per header: target from the two previous headers, validate, then shift previous_previous ← previous ← current "
               "(in that order) and carry the hash", detail="" if okb else " | ".join(body), func=cq, key=f"C07-D2/ORDER|{cq}|carry")
        vcall = [c for c in vc.calls(dotted_name="self.validate_header")]
        if vcall:
            a = [unparse(x) for x in vcall[0].args]
            tgt_names = unparse(lp.target).strip("()").split(", ")
            ok = len(a) == 5 and a[1:] == [tgt_names[0], tgt_names[1], "previous_hash", "block_target"]
            ctx.ob("C07-D2/DEP", ok, vc.site(vcall[0]), "validate_header receives this header's hash and fields, the carried previous hash and the computed target",
                   detail=str(a), func=cq)
    t = unparse(vc.node)
    pre = ["raw = await self.get_raw_header(height - 1)", "previous_header = self.deserialize(height - 1, raw)", "previous_hash = self.hash_header(raw)",
           "previous_previous_header = await self.get(height - 2)"]
    ok = all(p.replace("height", hpar) in t for p in pre)
    ctx.ob("C07-D2/DEP", ok, vc.site(), "the chain context (previous header, its hash, the one before) is read from the stored chain at height−1 / height−2", func=cq)
    for s in vc.stmts(ast.Assign):
        if any(dotted(tg) == "previous_hash" for tg in s.targets) and "hash_header" in unparse(s.value):
            R.gate(ctx, "C07-D2/GATE", vc, s, f"{hpar} > 0", "only the very first header has no predecessor", key=f"C07-D2/GATE|{cq}|first")
    ih = ctx.fa(f"{H}._iterate_headers")
    t = unparse(ih.node)
    ok = "for idx in range(len(headers) // self.header_size)" in t and "header = headers[start:end]" in t and \
        "start, end = (idx * self.header_size, (idx + 1) * self.header_size)" in t and "yield (self.hash_header(header), self.deserialize(height + idx, header))" in t
    ctx.ob("C07-D2/DEP", ok, ih.site(), "_iterate_headers yields (hash, fields) of every consecutive 112-byte header with its height", func=ih.fi.qualname)
    hh = ctx.fa(f"{H}.hash_header")
    r = [x for x in hh.stmts(ast.Return) if "double_sha256" in unparse(x.value)]
    ctx.ob("C07-D2/DEP", len(r) == 1 and unparse(r[0].value) == "hexlify(double_sha256(header)[::-1])", hh.site(), "header hash = hex of reversed double SHA-256", func=hh.fi.qualname)
    # declared LBRY retarget rule (lbrycrd src/lbry.cpp CalculateLbryNextWorkRequired)
    nb = ctx.fa(f"{H}.get_next_block_target")
    nq = nb.fi.qualname
    spec = {
        "actual_timespan": "current['timestamp'] - previous['timestamp']",
        "modulated_timespan": "self.target_timespan + int((actual_timespan - self.target_timespan) / 8)",
        "minimum_timespan": "self.target_timespan - int(self.target_timespan / 8)",
        "maximum_timespan": "self.target_timespan + int(self.target_timespan / 2)",
        "clamped_timespan": "max(minimum_timespan, min(modulated_timespan, maximum_timespan))",
        "target": "ArithUint256.from_compact(current['bits'])",
        "new_target": "min(max_target, target * clamped_timespan / self.target_timespan)",
    }
    for name, want in spec.items():
        ds = [s for s in nb.stmts(ast.Assign) if any(dotted(t) == name for t in s.targets)]
        got = unparse(ds[0].value) if len(ds) == 1 else f"<{len(ds)} definitions>"
        ctx.ob("C07-D2/SPEC", got == want, nb.site(ds[0]) if ds else nb.site(), f"retarget rule: {name} = {want}", detail="" if got == want else f"found `{got}`",
               func=nq, key=f"C07-D2/SPEC|{nq}|{name}")
    rr = [unparse(r.value) for r in nb.stmts(ast.Return)]
    ctx.ob("C07-D2/SPEC", rr == ["max_target", "new_target"], nb.site(), "the first block gets max_target, every other the retargeted value", detail=str(rr), func=nq)
    cls = prog.cls(H)
    try:
        ts = ev.class_attr(cls, "target_timespan")
    except Unknown:
        ts = None
    ctx.ob("C07-D2/CONST", ts == 150, nb.site(), "target_timespan folds to 150 s", detail=str(ts))
    pw = ctx.fa(f"{H}.get_proof_of_work")
    r = R.single_return_value(pw)
    ctx.ob("C07-D2/DEP", r is not None and unparse(r.value) == "ArithUint256(int(b'0x' + cls.header_hash_to_pow_hash(header_hash), 16))", pw.site(),
           "proof of work is the PoW hash of the header read as a 256-bit integer", func=pw.fi.qualname)


def checkpoints(ctx, prog):
    fc = ctx.fa(f"{H}.fetch_chunk")
    q = fc.fi.qualname
    wr = fc.calls(dotted_name="self._write")
    ctx.floor("C07-D3/GATE", "_write in fetch_chunk", len(wr), 1, site=fc.site(), func=q)
    hn = R.one_name(ctx, "C07-D3/GATE", fc, lambda v: unparse(v) == "self.hash_header(chunk).decode()", "the hash of the fetched chunk") or "chunk_hash"
    for c in wr:
        R.gate(ctx, "C07-D3/GATE", fc, c, f"self.checkpoints.get(start) == {hn}",
               "a checkpointed chunk is stored only if it hashes to the built-in checkpoint", key=f"C07-D3/GATE|{q}|checkpoint")
        ok = [dotted(a) for a in c.args] == ["start", "chunk"]
        ctx.ob("C07-D3/DEP", ok, fc.site(c), "what is stored is the chunk that was hashed, at the checkpoint's height", func=q)
        redef = [d for n in fc.cfg.nodes for d in fc.rd.defs_at[n.id] if d.name in ("chunk", hn, "start")]
        ctx.ob("C07-D3/DEP", len(redef) == 3, fc.site(c), "chunk, its hash and the start height are each defined once", func=q)
    st = [s for s in fc.stmts(ast.Assign) if any(dotted(t) == "start" for t in s.targets)]
    ok = len(st) == 1 and unparse(st[0].value) == f"{fc.fi.params()[1]} // 1000 * 1000"
    ctx.ob("C07-D3/DEP", ok, fc.site(), "chunks are aligned to 1000 headers", func=q)
    rz = R.raise_kinds(fc)
    okr = any(fc.guarded(x, f"not self.checkpoints.get(start) == {hn} and start in self.checkpoints")[0] for x, k in rz)
    ctx.ob("C07-D3/GATE", okr, fc.site(), "a chunk that contradicts its checkpoint raises", func=q)
    ec = ctx.fa(f"{H}.ensure_checkpointed_size")
    for c in ec.calls(dotted_name="self._write"):
        ok = unparse(c.args[1]) == "bytes([0] * self.header_size * 1000)" if len(c.args) > 1 else False
        ctx.ob("C07-D3/DEP", ok, ec.site(c), "the only other store is zero padding below the last checkpoint (reconciled by get_all_missing_headers)", func=ec.fi.qualname)
    gm = ctx.fa(f"{H}.get_all_missing_headers")
    t = unparse(gm.node)
    ok = "if self.chunk_hash(chunk_height, 1000) != expected_hash" in t and "self.known_missing_checkpointed_chunks.add(chunk_height)" in t
    ctx.ob("C07-D3/GATE", ok, gm.site(), "checkpointed chunks whose stored bytes do not hash to the checkpoint are marked missing", func=gm.fi.qualname)


def repair(ctx, prog, ev):
    op = ctx.fa(f"{H}.open")
    q = op.fi.qualname
    rp = op.calls(dotted_name="self.repair")
    ens = op.calls(dotted_name="self.ensure_checkpointed_size")
    ctx.floor("C07-D4/ORDER", "repair / ensure_checkpointed_size in open", min(len(rp), len(ens)), 1, site=op.site(), func=q)
    for c in ens:
        p = op.must_precede(c, lambda n: n in rp)
        ctx.ob("C07-D4/ORDER", p is None, op.site(c), "every path of open() repairs the file before the chain is used", detail="" if p is None else "path " + op.fmt_path(p),
               func=q)
    full = [c for c in rp if not c.args and not c.keywords]
    okf = bool(full) and all(op.guarded(c, "bytes_size % self.header_size")[0] for c in full)
    ctx.ob("C07-D4/GATE", okf, op.site(), "a file cut inside a header is repaired from the start", func=q)
    part = [c for c in rp if c.keywords]
    okp = bool(part) and all(unparse(kwarg(c, "start_height")) == "max_checkpointed_height" for c in part)
    ctx.ob("C07-D4/GATE", okp, op.site(), "otherwise the headers above the last checkpoint are checked", func=q)
    sz = [s for s in op.stmts(ast.Assign) if any(dotted(t) == "self._size" for t in s.targets)]
    ok = len(sz) == 1 and unparse(sz[0].value) == "bytes_size // self.header_size" and all(op.must_precede(c, lambda n: n is sz[0]) is None for c in rp)
    ctx.ob("C07-D4/ORDER", ok, op.site(), "the size (complete headers only) is known before repair runs", func=q)
    rf = ctx.fa(f"{H}.repair")
    rq = rf.fi.qualname
    cls = prog.cls(H)
    loops = [s for s in rf.stmts(ast.For) if isinstance(s.iter, ast.Call) and call_name(s.iter) == "range"]
    ctx.floor("C07-D4/UNIT", "range loop in repair", len(loops), 1, site=rf.site(), func=rq)
    for lp in loops:
        a = lp.iter.args
        stop = unparse(a[1]) if len(a) >= 2 else ""
        ok = stop in ("len(self)", "self.height + 1", "self._size")
        ctx.ob("C07-D4/UNIT", ok, rf.site(lp), "the scan's exclusive stop is the number of headers (the inclusive tip `self.height` would skip a tip that "
               "starts a new batch)", detail="" if ok else f"stop is `{stop}`", func=rq, key=f"C07-D4/UNIT|{rq}|tip")
        ok = len(a) == 3 and dotted(a[0]) == rf.fi.params()[1] and dotted(a[2]) == "batch_size"
        ctx.ob("C07-D4/UNIT", ok, rf.site(lp), "from start_height in steps of the batch size", func=rq)
        rd = [s for s in lp.body if isinstance(s, ast.Assign) and unparse(s.value) == f"self._read({dotted(lp.target)}, batch_size)"]
        ctx.ob("C07-D4/UNIT", len(rd) == 1, rf.site(lp), "each step reads exactly one batch at its height", func=rq)
    t = unparse(rf.node)
    ok = "if header['prev_block_hash'] != previous_header_hash" in t and "previous_header_hash = header_hash" in t and "if header_hash != self.genesis_hash" in t
    ctx.ob("C07-D4/GATE", ok, rf.site(), "each header's prev hash is compared with the hash of the header before it (genesis against the genesis hash)", func=rq)
    sk = [c for c in rf.calls(dotted_name="self.io.seek") if R.stmt_of(c) and rf.guarded(c, "fail")[0]]
    tr = rf.calls(dotted_name="self.io.truncate")
    ok = len(sk) >= 1 and len(tr) == 1 and unparse(sk[0].args[0]).replace("(height - 1)", "height - 1") == "max(0, height - 1) * self.header_size" and \
        rf.must_precede(tr[0], lambda n: n is sk[0]) is None and rf.guarded(tr[0], "fail")[0]
    ctx.ob("C07-D4/UNIT", ok, rf.site(tr[0]) if tr else rf.site(), "on the first mismatch the file is truncated one header before the mismatching one "
           "(the header whose hash did not match may itself be the damaged one)", detail="" if ok else (unparse(sk[0].args[0]) if sk else "no seek"), func=rq,
           key=f"C07-D4/UNIT|{rq}|truncate-at")
    hs = [s for s in rf.stmts(ast.Assign) if any(dotted(t) == "height" for t in s.targets)]
    ctx.ob("C07-D4/UNIT", len(hs) == 1 and unparse(hs[0].value) == "header['block_height']", rf.site(), "the truncation height is the mismatching header's own height", func=rq)
    sz = [s for s in rf.stmts(ast.Assign) if any(dotted(t) == "self._size" for t in s.targets)]
    ok = len(sz) == 1 and unparse(sz[0].value) == "self.io.seek(0, os.SEEK_END) // self.header_size" and bool(tr) and rf.must_precede(sz[0], lambda n: n is tr[0]) is None
    ctx.ob("C07-D4/ORDER", ok, rf.site(), "after truncating, the size is recomputed from the file", func=rq)
    rets = [r for r in rf.stmts(ast.Return)]
    ctx.ob("C07-D4/ORDER", bool(rets) and all(rf.guarded(r, "fail")[0] for r in rets), rf.site(), "repair stops at the first mismatch", func=rq)


def layout(ctx, prog, ev):
    cls = prog.cls(H)
    try:
        hs = ev.class_attr(cls, "header_size")
    except Unknown:
        hs = None
    ctx.ob("C07-D5/CONST", hs == 112, f"lbry/wallet/header.py:{cls.node.lineno}", "header_size folds to 112", detail=str(hs))
    se = ctx.fa(f"{H}.serialize")
    de = ctx.fa(f"{H}.deserialize")
    ts = unparse(se.node)
    want_w = ["struct.pack('<I', header['version'])", "unhexlify(header['prev_block_hash'])[::-1]", "unhexlify(header['merkle_root'])[::-1]",
              "unhexlify(header['claim_trie_root'])[::-1]", "struct.pack('<III', header['timestamp'], header['bits'], header['nonce'])"]
    lst = [n for n in se.local_nodes(ast.List)]
    got_w = [unparse(e) for e in lst[0].elts] if lst else []
    ctx.ob("C07-D5/SYM", got_w == want_w, se.site(), "writer: version(4) ‖ prev hash(32) ‖ merkle root(32) ‖ claim trie root(32) ‖ time, bits, nonce (3×4), hashes byte-reversed",
           detail="" if got_w == want_w else str(got_w), func=se.fi.qualname)
    td = unparse(de.node)
    need = ["version, = struct.unpack('<I', header[:4])", "timestamp, bits, nonce = struct.unpack('<III', header[100:112])",
            "'prev_block_hash': hexlify(header[4:36][::-1])", "'merkle_root': hexlify(header[36:68][::-1])", "'claim_trie_root': hexlify(header[68:100][::-1])"]
    miss = [n for n in need if n not in td]
    ctx.ob("C07-D5/SYM", not miss, de.site(), "reader: slices [:4] [4:36] [36:68] [68:100] [100:112] in the writer's order, same reversal", detail=str(miss), func=de.fi.qualname)
