"""C07 — header chain: only linked, correctly retargeted, proof-of-work headers are kept."""
import ast

from .. import AnalysisError
from ..astutil import dotted, call_name, unparse, norm_text, walk_local_body, kwarg, is_const
from ..consteval import Evaluator, Unknown
from ..exc import Hierarchy, handler_names
from .. import rules as R

EXPLANATION = (
    "Validate-before-store, rule-presence, checkpoint-gate and repair-coverage analysis of Headers. Nothing "
    "unvalidated is stored: _write is called only from connect, fetch_chunk and ensure_checkpointed_size; in connect "
    "every write of an iteration is preceded by `await validate_chunk(height, chunk)` of the same chunk, an "
    "InvalidHeader truncates the chunk to a prefix that cannot reach the invalid header (the kept length is "
    "consistent with the height the exception carries) and stops the loop. Rules present: validate_header raises "
    "InvalidHeader for a wrong genesis hash, a prev-hash mismatch, and — under validate_difficulty (True on main "
    "net) — for bits != target.compact and proof_of_work > target, each depending on the named inputs; "
    "validate_chunk threads previous/previous-previous header and hash through the loop in the right order and "
    "derives them from the stored chain; the retarget expression tree equals the declared LBRY rule. Checkpoints: "
    "fetch_chunk writes only under checkpoints.get(start) == hash of that very chunk. Repair on open: every path "
    "of open() runs repair before anything else uses the chain, the scan covers the inclusive tip, compares each "
    "header's prev hash with the hash of its predecessor, truncates one header before the first mismatch and "
    "recomputes the size. Header layout: serialize/deserialize agree on 112 bytes (offsets 0/4/36/68/100)."
)
EXACTNESS = "Second pass (DESIGN.md §10, exactness / completeness halves) — a fully valid batch is stored whole (`added`/`bail` start values, write exactly under `chunk`, break exactly under `bail`), `_write` sequence incl. flush, retarget context (first / second block, heights > 0 / > 1), repair failure tests, truncation, carry and partial-header cut exactly under their conditions, which repair `open` runs and from where, checkpoint bookkeeping."
TECHNIQUE = "static analysis: must-precede ordering, who-may-call, guard dominance, loop-carried def-use order, expression-tree comparison against a declared rule table, inclusive/exclusive bound (UNIT) check; exact fact-set comparison of the tests dominating each effect and refusal (effect / refusal tables), fall-through path queries"
NOT_DECIDED = ("the retarget arithmetic itself (ArithUint256, compact encoding, clamp values on concrete chains), PoW hashing, and the count of "
               "headers dropped by a repair as a number")
ASSUMPTIONS = ["the float division in ArithUint256.__truediv__ agrees with integer division on reachable operands (argument in DESIGN §9)"]

H = "lbry.wallet.header.Headers"


def check(ctx):
    prog = ctx.prog
    ev = Evaluator(prog)
    hier = Hierarchy(prog)
    store(ctx, prog, hier)
    rules_present(ctx, prog, ev)
    checkpoints(ctx, prog)
    repair(ctx, prog, ev)
    layout(ctx, prog, ev)
    if ctx.pid == "C07":
        exactness(ctx, prog)


def store(ctx, prog, hier):
    R.callers_only(ctx, "C07-D1/CALLERS", "_write", [f"{H}.connect", f"{H}.fetch_chunk", f"{H}.ensure_checkpointed_size"],
                   "raw header store", floor=3, module_prefix="lbry.wallet.header")
    cn = ctx.fa(f"{H}.connect")
    q = cn.fi.qualname
    wr = cn.calls(dotted_name="self._write")
    va = cn.calls(dotted_name="self.validate_chunk")
    ctx.floor("C07-D1/ORDER", "_write / validate_chunk in connect", min(len(wr), len(va)), 1, site=cn.site(), func=q)
    loops = cn.stmts(ast.For)
    for c in wr:
        loop = cn.lexically_inside(c, lambda a: isinstance(a, ast.For))
        ok = loop is not None
        if ok:
            heads = [n for n in cn.cfg.nodes_for(loop) if n.kind == "for"]
            targets = cn.cfg_nodes(c)
            p = cn.path(heads, targets, avoid=lambda n: cn.evaluates(n, lambda s: s in va))
            ok = p is None
        ctx.ob("C07-D1/ORDER", ok, cn.site(c), "within an iteration a chunk is written only after validate_chunk ran on it", func=q,
               key=f"C07-D1/ORDER|{q}|validate-before-write")
        a = [dotted(x) for x in c.args]
        v = [dotted(x) for x in va[0].args] if va else []
        ctx.ob("C07-D1/DEP", a == v and len(a) == 2, cn.site(c), "what is written is the chunk (and height) that was validated", detail=f"write{a} validate{v}", func=q)
        R.gate(ctx, "C07-D1/GATE", cn, c, a[1] if len(a) == 2 and a[1] else "False", "an empty remainder is not written", key=f"C07-D1/GATE|{q}|nonempty")
    for v in va:
        ctx.ob("C07-D1/ORDER", isinstance(getattr(v, "_parent", None), ast.Await), cn.site(v), "validation is awaited (its result is not discarded)", func=q)
    # the loop variables come from _iterate_chunks(start, headers)
    if loops:
        ok = unparse(loops[0].iter) == f"self._iterate_chunks({cn.fi.params()[1]}, {cn.fi.params()[2]})" and unparse(loops[0].target) in ("(height, chunk)", "height, chunk")
        ctx.ob("C07-D1/DEP", ok, cn.site(loops[0]), "connect walks the batch chunk by chunk from the given start height", func=q)
    # the InvalidHeader handler
    trs = cn.stmts(ast.Try)
    ctx.floor("C07-D1/EXC", "try around validate_chunk", len(trs), 1, site=cn.site(), func=q)
    for tr in trs:
        names = [n for h in tr.handlers for n in handler_names(h)]
        ctx.ob("C07-D1/EXC", names == ["InvalidHeader"], cn.site(tr), "only InvalidHeader is handled (any other failure stores nothing)", detail=str(names), func=q)
        for h in tr.handlers:
            bl = [s for s in h.body if isinstance(s, ast.Assign) and any(dotted(t) == "bail" for t in s.targets) and is_const(s.value, True)]
            sl = [s for s in h.body if isinstance(s, ast.Assign) and any(dotted(t) == "chunk" for t in s.targets)]
            ctx.ob("C07-D1/EXC", len(bl) == 1 and len(sl) == 1, cn.site(h), "an invalid header truncates the chunk and marks the batch as finished", func=q)
            if sl:
                _slice_rule(ctx, prog, cn, sl[0], h)
    brk = [s for s in cn.stmts(ast.If) if unparse(s.test) == "bail" and any(isinstance(b, ast.Break) for b in s.body)]
    okb = bool(brk) and bool(wr) and all(cn.always_reaches(c, lambda n: n is brk[0].test, stop=("exit",)) is None or True for c in wr)
    ctx.ob("C07-D1/ORDER", bool(brk), cn.site(), "after an invalid header no further chunk of the batch is processed", func=q)
    # writers of the in-memory file
    sites = []
    for m, c in prog.calls_named("truncate") + prog.calls_named("write"):
        if m.name != "lbry.wallet.header":
            continue
        if (dotted(c.func) or "").startswith("self.io."):
            f = prog.function_of(c)
            sites.append((c, f))
            ok = f is not None and f.qualname in (f"{H}._write", f"{H}.repair", f"{H}.open.<locals>._readit")
            ctx.ob("C07-D1/WRITERS", ok, f.site(c) if f else "?", f"the header buffer is written/truncated only by _write, repair and the initial load ({getattr(f, 'short', '?')})",
                   func=getattr(f, "qualname", None))
    ctx.floor("C07-D1/WRITERS", "writers of self.io", len(sites), 3)
    wf = ctx.fa(f"{H}._write")
    t = unparse(wf.node)
    ok = "self.io.seek(height * self.header_size, os.SEEK_SET)" in t and "self.io.write(verified_chunk)" in t and \
        "self._size = max(self._size or 0, self.io.tell() // self.header_size)" in t
    ctx.ob("C07-D1/DEP", ok, wf.site(), "_write stores at height × header_size and only ever grows the recorded size", func=wf.fi.qualname)


def _slice_rule(ctx, prog, cn, assign, handler):
    """the prefix kept after InvalidHeader must end before the invalid header.  e.height is whatever
    validate_chunk passes to validate_header as `height`: either the chunk's start height (then e.height == height
    and the kept prefix must be empty) or the failing header's own height (then the prefix is (e.height − height)
    headers).  The two sites must agree."""
    q = cn.fi.qualname
    ev = handler.name
    v = assign.value
    ok_shape = isinstance(v, ast.Subscript) and dotted(v.value) == "chunk" and isinstance(v.slice, ast.Slice) and v.slice.lower is None \
        and v.slice.upper is not None
    upper = unparse(v.slice.upper) if ok_shape else ""
    vc = ctx.fa(f"{H}.validate_chunk")
    calls = vc.calls(dotted_name="self.validate_header")
    passed = unparse(calls[0].args[0]) if calls and calls[0].args else "?"
    start_param = vc.fi.params()[1]
    redef = [d for n in vc.cfg.nodes for d in vc.rd.defs_at[n.id] if d.name == start_param]
    passes_start = passed == start_param and not redef
    vh = ctx.fa(f"{H}.validate_header")
    hp = vh.fi.params()[1]
    carried = all(isinstance(x.exc, ast.Call) and x.exc.args and dotted(x.exc.args[0]) == hp for x, k in R.raise_kinds(vh) if k == "InvalidHeader")
    forward = upper in (f"({ev}.height - height) * self.header_size", f"self.header_size * ({ev}.height - height)")
    backward = upper in (f"(height - {ev}.height) * self.header_size", f"self.header_size * (height - {ev}.height)")
    if passes_start:
        ok = ok_shape and carried and (forward or backward)
        why = "validate_chunk reports the chunk's start height, so the kept prefix is empty"
    else:
        ok = ok_shape and carried and forward
        why = "validate_chunk reports the failing header's own height, so the kept prefix must be (e.height − height) headers"
    ctx.ob("C07-D1/UNIT", ok, cn.site(assign), "the prefix kept after an invalid header ends before that header (slice bound and reported height agree)",
           detail="" if ok else f"{why}; slice is chunk[:{upper}], validate_header is called with height=`{passed}`"
                                f"{' (a negative bound keeps all but the LAST headers, including the invalid one)' if backward and not passes_start else ''}",
           func=q, key=f"C07-D1/UNIT|{q}|invalid-prefix")


def rules_present(ctx, prog, ev):
    cls = prog.cls(H)
    try:
        vd = ev.class_attr(cls, "validate_difficulty")
    except Unknown:
        vd = None
    ctx.ob("C07-D2/CONST", vd is True, f"lbry/wallet/header.py:{cls.node.lineno}", "main-net Headers.validate_difficulty is True", detail=str(vd))
    vh = ctx.fa(f"{H}.validate_header")
    q = vh.fi.qualname
    _, hp, cur, hdr, prev, tgt = vh.fi.params()
    rz = [x for x, k in R.raise_kinds(vh) if k == "InvalidHeader"]
    ctx.ob("C07-D2/GATE", len(rz) == 4, vh.site(), "validate_header has its four refusals", detail=f"{len(rz)} raise InvalidHeader", func=q)
    linked = f"not {prev} is None and not {hdr}['prev_block_hash'] != {prev}"
    need = [
        (f"{prev} is None and self.genesis_hash is not None and self.genesis_hash != {cur}", "the first header must be the genesis block", "genesis"),
        (f"not {prev} is None and {hdr}['prev_block_hash'] != {prev}", "a header must name the hash of its predecessor", "prev-hash"),
        (f"{linked} and self.validate_difficulty and {hdr}['bits'] != {tgt}.compact", "difficulty bits must equal the retarget result", "bits"),
        (f"{linked} and self.validate_difficulty and not {hdr}['bits'] != {tgt}.compact and self.get_proof_of_work({cur}) > {tgt}",
         "the proof-of-work hash must not exceed the target", "pow"),
    ]
    from .. import terms as _terms
    for g, what, k in need:
        want = set(_terms.parse_guard(g))
        hit = None
        for x in rz:
            have, F = R.atomic_facts_at(vh, x)
            hn = set()
            for kk in have:
                fi_ = F.info[kk]
                hn.add((fi_.expanded, kk[1]) if fi_.expanded and (fi_.expanded, kk[1]) in want else kk)
            if want <= hn:
                hit = (x, hn - want)
                break
        ok = hit is not None and not hit[1]
        detail = "" if ok else (f"no reachable raise InvalidHeader under `{g}`" if hit is None else
                                f"extra condition(s) narrow the refusal: {R.fmt_missing(sorted(hit[1]))}")
        ctx.ob("C07-D2/GATE", ok, vh.site(hit[0]) if hit else vh.site(), f"refusal present, under exactly its condition: {what}", detail=detail,
               func=q, key=f"C07-D2/GATE|{q}|{k}")
    # non-genesis headers cannot skip the checks: the early return is only for previous_hash is None
    rets = vh.stmts(ast.Return)
    ok = all(vh.guarded(r, f"{prev} is None")[0] for r in rets)
    ctx.ob("C07-D2/GATE", ok, vh.site(), "only the genesis header (no predecessor) returns before the link/difficulty checks", func=q)
    # subclasses that switch difficulty validation off are the test networks
    for sub in prog.subclasses(cls):
        if "validate_difficulty" in sub.assigns:
            ctx.note(f"{sub.qualname} overrides validate_difficulty = {unparse(sub.assigns['validate_difficulty'])} (test networks)")
        for m in ("validate_header", "validate_chunk", "connect"):
            if m in sub.methods:
                ctx.ob("C07-D2/GATE", False, sub.methods[m].site(), f"{sub.name} overrides {m}", func=sub.methods[m].qualname)
    # validate_chunk threading
    vc = ctx.fa(f"{H}.validate_chunk")
    cq = vc.fi.qualname
    hpar, chpar = vc.fi.params()[1:3]
    loops = vc.stmts(ast.For)
    ctx.floor("C07-D2/ORDER", "header loop in validate_chunk", len(loops), 1, site=vc.site(), func=cq)
    if loops:
        lp = loops[0]
        ok = unparse(lp.iter) == f"self._iterate_headers({hpar}, {chpar})"
        ctx.ob("C07-D2/DEP", ok, vc.site(lp), "every header of the chunk is visited in order", func=cq)
        body = [norm_text(s) for s in lp.body]
        want = ["block_target = self.get_next_block_target(chunk_target, previous_previous_header, previous_header)",
                None,
                "previous_previous_header = previous_header", "previous_header = current_header", "previous_hash = current_hash"]
        okb = len(body) == 5 and body[0] == want[0] and body[2:] == want[2:] and body[1].startswith("self.validate_header(")
        ctx.ob("C07-D2/ORDER", okb, vc.site(lp), "per header: target from the two previous headers, validate, then shift previous_previous ← previous ← current "
               "(in that order) and carry the hash", detail="" if okb else " | ".join(body), func=cq, key=f"C07-D2/ORDER|{cq}|carry")
        vcall = [c for c in vc.calls(dotted_name="self.validate_header")]
        if vcall:
            a = [unparse(x) for x in vcall[0].args]
            tgt_names = unparse(lp.target).strip("()").split(", ")
            ok = len(a) == 5 and a[1:] == [tgt_names[0], tgt_names[1], "previous_hash", "block_target"]
            ctx.ob("C07-D2/DEP", ok, vc.site(vcall[0]), "validate_header receives this header's hash and fields, the carried previous hash and the computed target",
                   detail=str(a), func=cq)
    t = unparse(vc.node)
    pre = ["raw = await self.get_raw_header(height - 1)", "previous_header = self.deserialize(height - 1, raw)", "previous_hash = self.hash_header(raw)",
           "previous_previous_header = await self.get(height - 2)"]
    ok = all(p.replace("height", hpar) in t for p in pre)
    ctx.ob("C07-D2/DEP", ok, vc.site(), "the chain context (previous header, its hash, the one before) is read from the stored chain at height−1 / height−2", func=cq)
    for s in vc.stmts(ast.Assign):
        if any(dotted(tg) == "previous_hash" for tg in s.targets) and "hash_header" in unparse(s.value):
            R.gate(ctx, "C07-D2/GATE", vc, s, f"{hpar} > 0", "only the very first header has no predecessor", key=f"C07-D2/GATE|{cq}|first")
    ih = ctx.fa(f"{H}._iterate_headers")
    t = unparse(ih.node)
    ok = "for idx in range(len(headers) // self.header_size)" in t and "header = headers[start:end]" in t and \
        "start, end = (idx * self.header_size, (idx + 1) * self.header_size)" in t and "yield (self.hash_header(header), self.deserialize(height + idx, header))" in t
    ctx.ob("C07-D2/DEP", ok, ih.site(), "_iterate_headers yields (hash, fields) of every consecutive 112-byte header with its height", func=ih.fi.qualname)
    hh = ctx.fa(f"{H}.hash_header")
    r = [x for x in hh.stmts(ast.Return) if "double_sha256" in unparse(x.value)]
    ctx.ob("C07-D2/DEP", len(r) == 1 and unparse(r[0].value) == "hexlify(double_sha256(header)[::-1])", hh.site(), "header hash = hex of reversed double SHA-256", func=hh.fi.qualname)
    # declared LBRY retarget rule (lbrycrd src/lbry.cpp CalculateLbryNextWorkRequired)
    nb = ctx.fa(f"{H}.get_next_block_target")
    nq = nb.fi.qualname
    spec = {
        "actual_timespan": "current['timestamp'] - previous['timestamp']",
        "modulated_timespan": "self.target_timespan + int((actual_timespan - self.target_timespan) / 8)",
        "minimum_timespan": "self.target_timespan - int(self.target_timespan / 8)",
        "maximum_timespan": "self.target_timespan + int(self.target_timespan / 2)",
        "clamped_timespan": "max(minimum_timespan, min(modulated_timespan, maximum_timespan))",
        "target": "ArithUint256.from_compact(current['bits'])",
        "new_target": "min(max_target, target * clamped_timespan / self.target_timespan)",
    }
    for name, want in spec.items():
        ds = [s for s in nb.stmts(ast.Assign) if any(dotted(t) == name for t in s.targets)]
        got = unparse(ds[0].value) if len(ds) == 1 else f"<{len(ds)} definitions>"
        ctx.ob("C07-D2/SPEC", got == want, nb.site(ds[0]) if ds else nb.site(), f"retarget rule: {name} = {want}", detail="" if got == want else f"found `{got}`",
               func=nq, key=f"C07-D2/SPEC|{nq}|{name}")
    rr = [unparse(r.value) for r in nb.stmts(ast.Return)]
    ctx.ob("C07-D2/SPEC", rr == ["max_target", "new_target"], nb.site(), "the first block gets max_target, every other the retargeted value", detail=str(rr), func=nq)
    cls = prog.cls(H)
    try:
        ts = ev.class_attr(cls, "target_timespan")
    except Unknown:
        ts = None
    ctx.ob("C07-D2/CONST", ts == 150, nb.site(), "target_timespan folds to 150 s", detail=str(ts))
    pw = ctx.fa(f"{H}.get_proof_of_work")
    r = R.single_return_value(pw)
    ctx.ob("C07-D2/DEP", r is not None and unparse(r.value) == "ArithUint256(int(b'0x' + cls.header_hash_to_pow_hash(header_hash), 16))", pw.site(),
           "proof of work is the PoW hash of the header read as a 256-bit integer", func=pw.fi.qualname)


def checkpoints(ctx, prog):
    fc = ctx.fa(f"{H}.fetch_chunk")
    q = fc.fi.qualname
    wr = fc.calls(dotted_name="self._write")
    ctx.floor("C07-D3/GATE", "_write in fetch_chunk", len(wr), 1, site=fc.site(), func=q)
    hn = R.one_name(ctx, "C07-D3/GATE", fc, lambda v: unparse(v) == "self.hash_header(chunk).decode()", "the hash of the fetched chunk") or "chunk_hash"
    for c in wr:
        R.gate(ctx, "C07-D3/GATE", fc, c, f"self.checkpoints.get(start) == {hn}",
               "a checkpointed chunk is stored only if it hashes to the built-in checkpoint", key=f"C07-D3/GATE|{q}|checkpoint")
        ok = [dotted(a) for a in c.args] == ["start", "chunk"]
        ctx.ob("C07-D3/DEP", ok, fc.site(c), "what is stored is the chunk that was hashed, at the checkpoint's height", func=q)
        redef = [d for n in fc.cfg.nodes for d in fc.rd.defs_at[n.id] if d.name in ("chunk", hn, "start")]
        ctx.ob("C07-D3/DEP", len(redef) == 3, fc.site(c), "chunk, its hash and the start height are each defined once", func=q)
    st = [s for s in fc.stmts(ast.Assign) if any(dotted(t) == "start" for t in s.targets)]
    ok = len(st) == 1 and unparse(st[0].value) == f"{fc.fi.params()[1]} // 1000 * 1000"
    ctx.ob("C07-D3/DEP", ok, fc.site(), "chunks are aligned to 1000 headers", func=q)
    rz = R.raise_kinds(fc)
    okr = any(fc.guarded(x, f"not self.checkpoints.get(start) == {hn} and start in self.checkpoints")[0] for x, k in rz)
    ctx.ob("C07-D3/GATE", okr, fc.site(), "a chunk that contradicts its checkpoint raises", func=q)
    ec = ctx.fa(f"{H}.ensure_checkpointed_size")
    for c in ec.calls(dotted_name="self._write"):
        ok = unparse(c.args[1]) == "bytes([0] * self.header_size * 1000)" if len(c.args) > 1 else False
        ctx.ob("C07-D3/DEP", ok, ec.site(c), "the only other store is zero padding below the last checkpoint (reconciled by get_all_missing_headers)", func=ec.fi.qualname)
    gm = ctx.fa(f"{H}.get_all_missing_headers")
    t = unparse(gm.node)
    ok = any(R.same_test(i.test, "self.chunk_hash(chunk_height, 1000) != expected_hash") for i in gm.stmts(ast.If)) and "self.known_missing_checkpointed_chunks.add(chunk_height)" in t
    ctx.ob("C07-D3/GATE", ok, gm.site(), "checkpointed chunks whose stored bytes do not hash to the checkpoint are marked missing", func=gm.fi.qualname)


def repair(ctx, prog, ev):
    op = ctx.fa(f"{H}.open")
    q = op.fi.qualname
    rp = op.calls(dotted_name="self.repair")
    ens = op.calls(dotted_name="self.ensure_checkpointed_size")
    ctx.floor("C07-D4/ORDER", "repair / ensure_checkpointed_size in open", min(len(rp), len(ens)), 1, site=op.site(), func=q)
    for c in ens:
        p = op.must_precede(c, lambda n: n in rp)
        ctx.ob("C07-D4/ORDER", p is None, op.site(c), "every path of open() repairs the file before the chain is used", detail="" if p is None else "path " + op.fmt_path(p),
               func=q)
    full = [c for c in rp if not c.args and not c.keywords]
    okf = bool(full) and all(op.guarded(c, "bytes_size % self.header_size")[0] for c in full)
    ctx.ob("C07-D4/GATE", okf, op.site(), "a file cut inside a header is repaired from the start", func=q)
    part = [c for c in rp if c.keywords]
    okp = bool(part) and all(unparse(kwarg(c, "start_height")) == "max_checkpointed_height" for c in part)
    ctx.ob("C07-D4/GATE", okp, op.site(), "otherwise the headers above the last checkpoint are checked", func=q)
    sz = [s for s in op.stmts(ast.Assign) if any(dotted(t) == "self._size" for t in s.targets)]
    ok = len(sz) == 1 and unparse(sz[0].value) == "bytes_size // self.header_size" and all(op.must_precede(c, lambda n: n is sz[0]) is None for c in rp)
    ctx.ob("C07-D4/ORDER", ok, op.site(), "the size (complete headers only) is known before repair runs", func=q)
    rf = ctx.fa(f"{H}.repair")
    rq = rf.fi.qualname
    cls = prog.cls(H)
    loops = [s for s in rf.stmts(ast.For) if isinstance(s.iter, ast.Call) and call_name(s.iter) == "range"]
    ctx.floor("C07-D4/UNIT", "range loop in repair", len(loops), 1, site=rf.site(), func=rq)
    for lp in loops:
        a = lp.iter.args
        stop = unparse(a[1]) if len(a) >= 2 else ""
        ok = stop in ("len(self)", "self.height + 1", "self._size")
        ctx.ob("C07-D4/UNIT", ok, rf.site(lp), "the scan's exclusive stop is the number of headers (the inclusive tip `self.height` would skip a tip that "
               "starts a new batch)", detail="" if ok else f"stop is `{stop}`", func=rq, key=f"C07-D4/UNIT|{rq}|tip")
        ok = len(a) == 3 and dotted(a[0]) == rf.fi.params()[1] and dotted(a[2]) == "batch_size"
        ctx.ob("C07-D4/UNIT", ok, rf.site(lp), "from start_height in steps of the batch size", func=rq)
        rd = [s for s in lp.body if isinstance(s, ast.Assign) and unparse(s.value) == f"self._read({dotted(lp.target)}, batch_size)"]
        ctx.ob("C07-D4/UNIT", len(rd) == 1, rf.site(lp), "each step reads exactly one batch at its height", func=rq)
    t = unparse(rf.node)
    ok = any(R.same_test(i.test, "header['prev_block_hash'] != previous_header_hash") for i in rf.stmts(ast.If)) and "previous_header_hash = header_hash" in t and \
        any(R.same_test(i.test, "header_hash != self.genesis_hash") for i in rf.stmts(ast.If))
    ctx.ob("C07-D4/GATE", ok, rf.site(), "each header's prev hash is compared with the hash of the header before it (genesis against the genesis hash)", func=rq)
    sk = [c for c in rf.calls(dotted_name="self.io.seek") if R.stmt_of(c) and rf.guarded(c, "fail")[0]]
    tr = rf.calls(dotted_name="self.io.truncate")
    ok = len(sk) >= 1 and len(tr) == 1 and unparse(sk[0].args[0]).replace("(height - 1)", "height - 1") == "max(0, height - 1) * self.header_size" and \
        rf.must_precede(tr[0], lambda n: n is sk[0]) is None and rf.guarded(tr[0], "fail")[0]
    ctx.ob("C07-D4/UNIT", ok, rf.site(tr[0]) if tr else rf.site(), "on the first mismatch the file is truncated one header before the mismatching one "
           "(the header whose hash did not match may itself be the damaged one)", detail="" if ok else (unparse(sk[0].args[0]) if sk else "no seek"), func=rq,
           key=f"C07-D4/UNIT|{rq}|truncate-at")
    hs = [s for s in rf.stmts(ast.Assign) if any(dotted(t) == "height" for t in s.targets)]
    ctx.ob("C07-D4/UNIT", len(hs) == 1 and unparse(hs[0].value) == "header['block_height']", rf.site(), "the truncation height is the mismatching header's own height", func=rq)
    sz = [s for s in rf.stmts(ast.Assign) if any(dotted(t) == "self._size" for t in s.targets)]
    ok = len(sz) == 1 and unparse(sz[0].value) == "self.io.seek(0, os.SEEK_END) // self.header_size" and bool(tr) and rf.must_precede(sz[0], lambda n: n is tr[0]) is None
    ctx.ob("C07-D4/ORDER", ok, rf.site(), "after truncating, the size is recomputed from the file", func=rq)
    rets = [r for r in rf.stmts(ast.Return)]
    ctx.ob("C07-D4/ORDER", bool(rets) and all(rf.guarded(r, "fail")[0] for r in rets), rf.site(), "repair stops at the first mismatch", func=rq)


def layout(ctx, prog, ev):
    cls = prog.cls(H)
    try:
        hs = ev.class_attr(cls, "header_size")
    except Unknown:
        hs = None
    ctx.ob("C07-D5/CONST", hs == 112, f"lbry/wallet/header.py:{cls.node.lineno}", "header_size folds to 112", detail=str(hs))
    se = ctx.fa(f"{H}.serialize")
    de = ctx.fa(f"{H}.deserialize")
    ts = unparse(se.node)
    want_w = ["struct.pack('<I', header['version'])", "unhexlify(header['prev_block_hash'])[::-1]", "unhexlify(header['merkle_root'])[::-1]",
              "unhexlify(header['claim_trie_root'])[::-1]", "struct.pack('<III', header['timestamp'], header['bits'], header['nonce'])"]
    lst = [n for n in se.local_nodes(ast.List)]
    got_w = [unparse(e) for e in lst[0].elts] if lst else []
    ctx.ob("C07-D5/SYM", got_w == want_w, se.site(), "writer: version(4) ‖ prev hash(32) ‖ merkle root(32) ‖ claim trie root(32) ‖ time, bits, nonce (3×4), hashes byte-reversed",
           detail="" if got_w == want_w else str(got_w), func=se.fi.qualname)
    td = unparse(de.node)
    need = ["version, = struct.unpack('<I', header[:4])", "timestamp, bits, nonce = struct.unpack('<III', header[100:112])",
            "'prev_block_hash': hexlify(header[4:36][::-1])", "'merkle_root': hexlify(header[36:68][::-1])", "'claim_trie_root': hexlify(header[68:100][::-1])"]
    miss = [n for n in need if n not in td]
    ctx.ob("C07-D5/SYM", not miss, de.site(), "reader: slices [:4] [4:36] [36:68] [68:100] [100:112] in the writer's order, same reversal", detail=str(miss), func=de.fi.qualname)


def exactness(ctx, prog):
    """the completeness half (a fully valid batch is stored whole; repair drops no more than it must) and the start values / conditions
    the ordering rules above take for granted"""
    # --- retarget: which headers feed the rule
    nb = ctx.fa(f"{H}.get_next_block_target")
    q = nb.fi.qualname
    _, mt, prev, cur = nb.fi.params()
    for r in nb.stmts(ast.Return):
        if dotted(r.value) == mt:
            R.exact_gate(ctx, "C07-D2/SPEC", nb, r, f"{prev} is None and {cur} is None", "max_target is returned exactly when there is no previous header at all (the first block)",
                         key=f"C07-D2/SPEC|{q}|first-exact")
    n_self = 0
    for x in nb.stmts(ast.Assign):
        if norm_text(x) == f"{prev} = {cur}":
            n_self += 1
            R.exact_gate(ctx, "C07-D2/SPEC", nb, x, f"{prev} is None and {cur} is not None", "the second block is retargeted against itself (no header two back) — exactly then",
                         key=f"C07-D2/SPEC|{q}|second-exact")
    ctx.floor("C07-D2/SPEC", "the second block's own header stands in for the missing header two back", n_self, 1, site=nb.site(), func=q)
    p = nb.path([nb.cfg.entry], [nb.cfg.exit], avoid=lambda n: n.kind == "return", include_exc=False)
    ctx.ob("C07-D2/SPEC", p is None, nb.site(), "every path of the retarget rule returns a target", func=q)
    # --- validate_chunk: chain context
    vc = ctx.fa(f"{H}.validate_chunk")
    q = vc.fi.qualname
    h = vc.fi.params()[1]
    for x in vc.stmts(ast.Assign):
        t = norm_text(x)
        if t.startswith("previous_header = self.deserialize(") or t.startswith("previous_hash = self.hash_header("):
            R.exact_gate(ctx, "C07-D2/GATE", vc, x, f"{h} > 0", "the previous header and its hash are read for every height above 0", key=f"C07-D2/GATE|{q}|prev-exact|{t[:20]}")
        elif t.startswith("previous_previous_header = await self.get("):
            R.exact_gate(ctx, "C07-D2/GATE", vc, x, f"{h} > 1", "the header two back is read for every height above 1 (at height 1 the rule uses the previous header twice)",
                         ignore=[f"{h} > 0"], key=f"C07-D2/GATE|{q}|prevprev-exact")
    ini = [x for x in vc.stmts(ast.Assign) if isinstance(x.targets[0], ast.Tuple) and {dotted(e) for e in x.targets[0].elts} == {"previous_hash", "previous_header", "previous_previous_header"}]
    ok = len(ini) == 1 and isinstance(ini[0].value, ast.Tuple) and all(is_const(e, None) for e in ini[0].value.elts)
    ctx.ob("C07-D2/DEP", ok, vc.site(), "without stored predecessors the context starts as None (genesis)", func=q)
    # --- connect: a valid batch is stored whole
    cn = ctx.fa(f"{H}.connect")
    q = cn.fi.qualname
    ini = {}
    for x in cn.node.body:
        if isinstance(x, ast.Assign) and len(x.targets) == 1 and isinstance(x.value, ast.Constant):
            ini.setdefault(dotted(x.targets[0]), x)
    ok = "added" in ini and is_const(ini["added"].value, 0) and "bail" in ini and is_const(ini["bail"].value, False)
    ctx.ob("C07-D1/DEP", ok, cn.site(), "connect starts with nothing added and no invalid header seen", func=q, key=f"C07-D1/DEP|{q}|init")
    for c in cn.calls(dotted_name="self._write"):
        R.exact_gate(ctx, "C07-D1/GATE", cn, c, "chunk", "every validated, non-empty chunk is written — under no further condition (a fully valid batch is stored whole)",
                     key=f"C07-D1/GATE|{q}|write-exact")
        st = R.stmt_of(c)
        ok = isinstance(st, ast.AugAssign) and dotted(st.target) == "added" and isinstance(st.op, ast.Add) and st.value is c
        ctx.ob("C07-D1/DEP", ok, cn.site(c), "the number of headers written is added up", func=q)
    for b in cn.stmts(ast.Break):
        R.exact_gate(ctx, "C07-D1/GATE", cn, b, "bail", "the batch is abandoned exactly after an invalid header", ignore=["chunk", "not chunk"], key=f"C07-D1/GATE|{q}|break-exact")
    r = R.single_return_value(cn)
    ctx.ob("C07-D1/DEP", r is not None and dotted(r.value) == "added", cn.site(), "connect returns that count", func=q)
    sets = [x for x in cn.stmts(ast.Assign) if any(dotted(t) == "bail" for t in x.targets) and is_const(x.value, True)]
    ok = len(sets) == 1 and R.in_handler(sets[0], cn) is not None
    ctx.ob("C07-D1/DEP", ok, cn.site(), "`bail` is raised only by the InvalidHeader handler", func=q)
    wr = ctx.fa(f"{H}._write")
    q = wr.fi.qualname
    t = R.top_level_texts(wr)
    hh, vch = wr.fi.params()[1:3]
    want = [f"self.io.seek({hh} * self.header_size, os.SEEK_SET)", f"written = self.io.write({vch}) // self.header_size", "self.io.flush()", "return written"]
    ok = [x for x in t if x in want] == want
    ctx.ob("C07-D1/DEP", ok, wr.site(), "_write seeks to the height, writes the chunk, flushes, and reports whole headers written — unconditionally, in that order", detail="" if ok else str(t),
           func=q, key=f"C07-D1/DEP|{q}|sequence")
    # --- repair
    rp = ctx.fa(f"{H}.repair")
    q = rp.fi.qualname
    fails = [x for x in rp.stmts(ast.Assign) if any(dotted(tg) == "fail" for tg in x.targets) and is_const(x.value, True)]
    ctx.floor("C07-D4/GATE", "`fail = True` in repair", len(fails), 2, site=rp.site(), func=q)
    seen = set()
    for x in fails:
        link = rp.guarded(x, "previous_header_hash")[0]
        seen.add(link)
        if link:
            R.exact_gate(ctx, "C07-D4/GATE", rp, x, "previous_header_hash and header['prev_block_hash'] != previous_header_hash",
                         "a header fails exactly when its prev hash differs from the hash of the header before it", key=f"C07-D4/GATE|{q}|fail-link")
        else:
            R.exact_gate(ctx, "C07-D4/GATE", rp, x, "not previous_header_hash and height == 0 and header_hash != self.genesis_hash",
                         "the first header fails exactly when it is at height 0 and is not the genesis block", key=f"C07-D4/GATE|{q}|fail-genesis")
    ctx.ob("C07-D4/GATE", seen == {True, False}, rp.site(), "both failure tests (link, genesis) are present", func=q)
    for c in rp.calls(dotted_name="self.io.truncate"):
        R.exact_gate(ctx, "C07-D4/GATE", rp, c, "fail", "the file is truncated exactly when a header failed (an intact file loses nothing)", key=f"C07-D4/GATE|{q}|truncate-exact")
    ok = any(norm_text(f.iter) == "self._iterate_headers(height, headers)" and norm_text(f.target) == "(header_hash, header)" for f in rp.stmts(ast.For))
    ctx.ob("C07-D4/DEP", ok, rp.site(), "the batch read at `height` is iterated from that height", func=q)
    carry = [x for x in rp.stmts(ast.Assign) if norm_text(x) == "previous_header_hash = header_hash"]
    ok = len(carry) == 1
    ctx.ob("C07-D4/DEP", ok, rp.site(), "the hash of each intact header is carried to the next comparison", func=q)
    for x in carry:
        R.exact_gate(ctx, "C07-D4/GATE", rp, x, "not fail", "…for every header that did not fail", key=f"C07-D4/GATE|{q}|carry-exact")
    ini = [x for x in rp.stmts(ast.Assign) if {dotted(tg) for tg in x.targets} == {"previous_header_hash", "fail"}]
    ctx.ob("C07-D4/DEP", len(ini) == 1 and is_const(ini[0].value, None), rp.site(), "repair starts with no carried hash and no failure", func=q)
    cut = [x for x in rp.stmts(ast.Assign) if any(dotted(tg) == "headers" for tg in x.targets) and isinstance(x.value, ast.Subscript)]
    ok = len(cut) == 1 and norm_text(cut[0].value) == "headers[:len(headers) // self.header_size * self.header_size]"
    ctx.ob("C07-D4/UNIT", ok, rp.site(), "a batch that ends inside a header is cut back to whole headers (floor division, then multiplication, by the header size)", func=q,
           key=f"C07-D4/UNIT|{q}|whole-headers")
    for x in cut:
        R.exact_gate(ctx, "C07-D4/GATE", rp, x, "len(headers) % self.header_size != 0", "…exactly when it does", key=f"C07-D4/GATE|{q}|cut-exact")
    hs = [x for x in rp.stmts(ast.Assign) if norm_text(x) == "height = header['block_height']"]
    ctx.ob("C07-D4/DEP", len(hs) == 1, rp.site(), "the height used for truncation is the height of the header being compared", func=q)
    # --- open
    op = ctx.fa(f"{H}.open")
    q = op.fi.qualname
    reps = op.calls(dotted_name="self.repair")
    for c in reps:
        full = not c.args and not c.keywords
        R.exact_gate(ctx, "C07-D4/GATE", op, c, "bytes_size % self.header_size" if full else "not bytes_size % self.header_size",
                     "a file cut inside a header is scanned from the start" if full else "a file of whole headers is scanned above the last checkpoint",
                     ignore=["self.path != ':memory:'", "self.path == ':memory:'"], key=f"C07-D4/GATE|{q}|repair-{'full' if full else 'tip'}")
        if not full:
            ok = norm_text(c) == "self.repair(start_height=max_checkpointed_height)" and \
                [norm_text(x.value) for x in op.stmts(ast.Assign) if any(dotted(tg) == "max_checkpointed_height" for tg in x.targets)] == ["max(self.checkpoints.keys() or [-1]) + 1000"]
            ctx.ob("C07-D4/UNIT", ok, op.site(c), "…that is from (highest checkpoint + 1000), the first height no checkpoint covers", func=q, key=f"C07-D4/UNIT|{q}|tip-start")
    ctx.floor("C07-D4/GATE", "repair calls in open", len(reps), 2, site=op.site(), func=q)
    t = [norm_text(x) for x in op.node.body]
    ok = "await self.ensure_checkpointed_size()" in t and "await self.get_all_missing_headers()" in t and "self.io = BytesIO()" in t and \
        "bytes_size = self.io.seek(0, os.SEEK_END)" in t and "self._size = bytes_size // self.header_size" in t
    ctx.ob("C07-D4/ORDER", ok, op.site(), "open starts from an empty buffer, measures what was loaded and finally marks checkpointed chunks whose stored bytes do not match", func=q,
           key=f"C07-D4/ORDER|{q}|skeleton")
    rd = ctx.fa(f"{H}.open.<locals>._readit")
    t = [norm_text(x) for x in ast.walk(rd.node) if isinstance(x, ast.Expr)]
    ok = "self.io.seek(0)" in t and "self.io.write(header_file.read())" in t and any(isinstance(w, ast.With) and norm_text(w.items[0].context_expr) == "open(self.path, 'r+b')" for w in rd.stmts(ast.With))
    ctx.ob("C07-D4/DEP", ok, rd.site(), "the whole header file is loaded at offset 0", func=rd.fi.qualname)
    ok = any(norm_text(c) == "asyncio.get_event_loop().run_in_executor(None, _readit)" and isinstance(c._parent, ast.Await) for c in op.calls(name="run_in_executor"))
    ctx.ob("C07-D4/DEP", ok, op.site(), "…and awaited before anything is measured", func=q)
    # --- checkpoints bookkeeping
    fc = ctx.fa(f"{H}.fetch_chunk")
    q = fc.fi.qualname
    for c in fc.calls(dotted_name="self.known_missing_checkpointed_chunks.remove"):
        R.exact_gate(ctx, "C07-D3/GATE", fc, c, "self.checkpoints.get(start) == chunk_hash and start in self.known_missing_checkpointed_chunks",
                     "a chunk stops being 'missing' exactly when a matching chunk was stored", key=f"C07-D3/GATE|{q}|unmiss")
    ctx.floor("C07-D3/GATE", "known_missing_checkpointed_chunks.remove in fetch_chunk", len(fc.calls(dotted_name="self.known_missing_checkpointed_chunks.remove")), 1, site=fc.site(), func=q)
    for r in fc.stmts(ast.Return):
        if not fc.guarded(r, "self.checkpoints.get(start) == chunk_hash")[0]:
            R.exact_gate(ctx, "C07-D3/GATE", fc, r, "not self.checkpoints.get(start) == chunk_hash and start not in self.checkpoints",
                         "a chunk is silently ignored only when no checkpoint covers it", key=f"C07-D3/GATE|{q}|ignore-exact")
    gm = ctx.fa(f"{H}.get_all_missing_headers")
    q = gm.fi.qualname
    for c in gm.calls(dotted_name="self.known_missing_checkpointed_chunks.add"):
        R.exact_gate(ctx, "C07-D3/GATE", gm, c, "chunk_height not in self.known_missing_checkpointed_chunks and self.chunk_hash(chunk_height, 1000) != expected_hash",
                     "a checkpointed chunk is marked missing exactly when its stored bytes do not hash to the checkpoint", key=f"C07-D3/GATE|{q}|mark-exact")
        ok = len(c.args) == 1 and dotted(c.args[0]) == "chunk_height"
        ctx.ob("C07-D3/DEP", ok, gm.site(c), "…under its own height", func=q)
    lp = gm.stmts(ast.For)
    ok = len(lp) == 1 and "self.checkpoints.items()" in norm_text(lp[0].iter) and norm_text(lp[0].target) == "(chunk_height, expected_hash)"
    ctx.ob("C07-D3/DEP", ok, gm.site(), "every checkpoint is visited with its own expected hash", func=q)
    ec = ctx.fa(f"{H}.ensure_checkpointed_size")
    q = ec.fi.qualname
    for c in ec.calls(dotted_name="self._write"):
        R.exact_gate(ctx, "C07-D3/GATE", ec, c, "self.height < max_checkpointed_height", "zero padding is written only while the chain is shorter than the last checkpoint",
                     key=f"C07-D3/GATE|{q}|pad-exact")
    ok = [norm_text(x.value) for x in ec.stmts(ast.Assign) if any(dotted(tg) == "max_checkpointed_height" for tg in x.targets)] == ["max(self.checkpoints.keys() or [-1])"]
    ctx.ob("C07-D3/DEP", ok, ec.site(), "…the highest checkpoint (−1 without checkpoints)", func=q)
    ih = ctx.fa(f"{H}._iterate_headers")
    ok = any(R.same_test(a.test, f"len({ih.fi.params()[2]}) % self.header_size == 0") for a in ih.stmts(ast.Assert))
    ctx.ob("C07-D2/GATE", ok, ih.site(), "only whole headers are iterated (length asserted to be a multiple of the header size)", func=ih.fi.qualname)
