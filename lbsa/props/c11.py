"""C11 — DHT routing table stays a well-formed Kademlia tree; closest-K is exact."""
import ast

from .. import AnalysisError
from ..astutil import dotted, call_name, unparse, norm_text, walk_local_body, kwarg, is_const
from ..consteval import Evaluator, Unknown
from ..exc import Hierarchy, handler_names
from .. import rules as R

EXPLANATION = (
    "Structural obligations of the routing-table invariants (the inductive step, not the induction). Partition "
    "contiguity: bucket boundaries are written only by KBucket.__init__, _split_bucket and _join_buckets, and "
    "every boundary write has one of three contiguity-preserving forms — split (new bucket [E, old.max) built "
    "before old.max = E), absorb (neighbour takes the removed bucket's outer boundary) or two-sided join with the "
    "same boundary expression on both sides; the initial bucket is [0, 2**384); membership is the half-open test "
    "range_min <= d < range_max and placement goes through _kbucket_index only. Ownership: nothing outside "
    "routing_table.py mutates buckets, peers or ranges; a contact is appended only below capacity or as a "
    "replacement after removing an entry. Eviction discipline: inside add_peer a contact is removed only for the "
    "same endpoint with another id, or in the handler of a failed probe of that very contact. Closest-K: "
    "candidates are all contacts, the node itself and the requester are filtered out before sorting by "
    "Distance(key) and slicing to K; Distance is XOR of big-endian ints. Admission: _should_split compares the "
    "newcomer with the K-th contact of the list sorted by distance to the own id, and add_peer splits and "
    "retries when it says so."
)
EXACTNESS = "Second pass (DESIGN.md §10, exactness / completeness halves) — bucket lookup start / step / return, neighbour index tests and absorb assignments exactly under their conditions, meeting / split points inside the bucket, every covered contact moves, bucket insert and table insert effects and results, admission rule (K-th contact, sort key, strict comparison); bucket index looked up after the last change of the bucket list."
TECHNIQUE = "static analysis: who-may-write, normalised boundary-expression forms, guard dominance, must-precede ordering, handler/try pairing; exact fact-set comparison of the tests dominating each effect and refusal (effect / refusal tables), fall-through path queries"
NOT_DECIDED = ("that the invariants hold after an arbitrary add/remove history (induction over runtime state is not mechanised); "
               "behaviour that needs a history to show, e.g. a contiguous join with the wrong neighbour")
ASSUMPTIONS = ["protocol.py serialises all routing-table mutations in one task (routing_table_task under _split_lock)"]

RT = "lbry.dht.protocol.routing_table"
KB = f"{RT}.KBucket"
TR = f"{RT}.TreeRoutingTable"


def check(ctx):
    prog = ctx.prog
    ev = Evaluator(prog)
    hier = Hierarchy(prog)
    mod = prog.module(RT)
    consts = prog.module("lbry.dht.constants")
    try:
        K = ev.name(consts, "K")
        HB = ev.name(consts, "HASH_BITS")
    except Unknown as e:
        raise AnalysisError(f"C11: constant does not fold: {e}")
    ctx.ob("C11-D1/CONST", HB == 384, "lbry/dht/constants.py:6", "HASH_BITS folds to 384", detail=str(HB))
    ctx.ob("C11-D2/CONST", K == 8, "lbry/dht/constants.py:8", "K folds to 8", detail=str(K))

    # ------------------------------------------------------------------ D1 contiguity
    for attr in ("range_min", "range_max"):
        R.writers_only(ctx, "C11-D1/WRITERS", attr, [f"{KB}.__init__", f"{TR}._split_bucket", f"{TR}._join_buckets"],
                       "bucket boundary", floor=2, kinds=("assign", "augassign", "delete"))
    # initial bucket
    ti = ctx.fa(f"{TR}.__init__")
    kc = ti.calls(name="KBucket")
    ok = len(kc) == 1 and is_const(kwarg(kc[0], "range_min"), 0) and unparse(kwarg(kc[0], "range_max") or ast.Constant(0)) == "2 ** constants.HASH_BITS"
    ctx.ob("C11-D1/FORM", ok, ti.site(), "the table starts with one bucket covering [0, 2**HASH_BITS)", func=ti.fi.qualname)
    ki = ctx.fa(f"{KB}.__init__")
    for a in ("range_min", "range_max"):
        s = [x for x in ki.stmts(ast.Assign) if any(dotted(t) == f"self.{a}" for t in x.targets)]
        ctx.ob("C11-D1/FORM", len(s) == 1 and dotted(s[0].value) == a, ki.site(), f"KBucket stores {a} as given", func=ki.fi.qualname)
    # half-open membership
    kr = ctx.fa(f"{KB}.key_in_range")
    r = R.single_return_value(kr)
    ok = False
    if r is not None and isinstance(r.value, ast.Compare) and len(r.value.ops) == 2:
        c = r.value
        ok = isinstance(c.ops[0], ast.LtE) and isinstance(c.ops[1], ast.Lt) and unparse(c.left) == "self.range_min" \
            and unparse(c.comparators[1]) == "self.range_max" and unparse(c.comparators[0]) == f"self._distance_to_self({kr.fi.params()[1]})"
    ctx.ob("C11-D1/FORM", ok, kr.site(), "bucket membership is the half-open test range_min <= distance < range_max (adjacent buckets "
           "share a boundary value, so exactly one of them owns it)", detail="" if ok else unparse(r.value) if r is not None else "",
           func=kr.fi.qualname)
    ds = [s for s in ki.stmts(ast.Assign) if any(dotted(t) == "self._distance_to_self" for t in s.targets)]
    ctx.ob("C11-D1/FORM", len(ds) == 1 and unparse(ds[0].value) == "Distance(node_id)", ki.site(), "distances are measured from the own node id",
           func=ki.fi.qualname)
    # split
    sp = ctx.fa(f"{TR}._split_bucket")
    news = sp.calls(name="KBucket")
    ctx.floor("C11-D1/FORM", "new bucket in _split_bucket", len(news), 1, site=sp.site(), func=sp.fi.qualname)
    wr = [s for s in sp.stmts(ast.Assign) for t in s.targets if isinstance(t, ast.Attribute) and t.attr in ("range_min", "range_max")]
    ok = False
    detail = ""
    if len(news) == 1 and len(wr) == 1:
        n, w = news[0], wr[0]
        t = w.targets[0]
        old = dotted(t.value)
        lo = n.args[1] if len(n.args) > 1 else kwarg(n, "range_min")
        hi = n.args[2] if len(n.args) > 2 else kwarg(n, "range_max")
        same_e = lo is not None and sp.expanded_text(lo) == sp.expanded_text(w.value)
        hi_ok = hi is not None and unparse(hi) == f"{old}.range_max"
        order = sp.must_precede(w, lambda x: x is n) is None
        ok = t.attr == "range_max" and same_e and hi_ok and order
        detail = f"new=[{unparse(lo) if lo is not None else '?'}, {unparse(hi) if hi is not None else '?'}) old.range_max={unparse(w.value)} " \
                 f"same split point={same_e} upper kept={hi_ok} built before shrinking={order}"
        e = sp.expand(w.value)
        srcs = {d for d in (dotted(x) for x in ast.walk(e) if isinstance(x, ast.Attribute)) if d}
        inside = srcs <= {f"self.buckets", f"{old}.range_max", f"{old}.range_min"} or all(s.endswith((".range_max", ".range_min", ".buckets")) for s in srcs)
        ctx.ob("C11-D1/FORM", inside, sp.site(w), "the split point is computed from the old bucket's own boundaries", func=sp.fi.qualname)
    ctx.ob("C11-D1/FORM", ok, sp.site(), "split: new bucket [E, old.range_max) is built, then old.range_max = E (same E)", detail=detail,
           func=sp.fi.qualname, key=f"C11-D1/FORM|{sp.fi.qualname}|split")
    ins = sp.calls(dotted_name="self.buckets.insert")
    ok = len(ins) == 1 and len(news) == 1 and unparse(ins[0].args[0]) == f"{sp.fi.params()[1]} + 1" and \
        dotted(ins[0].args[1]) in R.names_defined_by(sp, lambda v: v is news[0])
    ctx.ob("C11-D1/FORM", ok, sp.site(), "the new bucket is inserted right after the old one (buckets stay ordered by range)", func=sp.fi.qualname)
    # members are moved by membership test
    mv = [c for c in sp.calls(name="add_peer")]
    okm = bool(mv) and all(sp.guarded(c, f"{dotted(c.func.value)}.key_in_range({dotted(c.args[0])}.node_id)")[0] for c in mv)
    ctx.ob("C11-D1/FORM", okm, sp.site(), "contacts move to the new bucket exactly when it covers them", func=sp.fi.qualname)
    rm = sp.calls(name="remove_peer")
    okr = len(rm) == 1 and isinstance(sp.lexically_inside(rm[0], lambda a: isinstance(a, ast.For)), ast.For) and \
        unparse(sp.lexically_inside(rm[0], lambda a: isinstance(a, ast.For)).iter).endswith(".peers")
    ctx.ob("C11-D1/FORM", okr, sp.site(), "and are removed from the old bucket", func=sp.fi.qualname)

    # join
    jn = ctx.fa(f"{TR}._join_buckets")
    jq = jn.fi.qualname
    writes = [(s, t) for s in jn.stmts(ast.Assign) for t in s.targets if isinstance(t, ast.Attribute) and t.attr in ("range_min", "range_max")]
    ctx.floor("C11-D1/FORM", "boundary writes in _join_buckets", len(writes), 3, site=jn.site(), func=jq)
    rem = jn.calls(dotted_name="self.buckets.remove")
    removed = dotted(rem[0].args[0]) if len(rem) == 1 and rem[0].args else None
    ctx.ob("C11-D1/FORM", removed is not None, jn.site(), "exactly one bucket is removed per join step", func=jq)
    ridx = None
    if removed:
        d = [s for s in jn.stmts(ast.Assign) if any(dotted(t) == removed for t in s.targets)]
        if len(d) == 1 and isinstance(d[0].value, ast.Subscript) and dotted(d[0].value.value) == "self.buckets":
            ridx = unparse(d[0].value.slice)
    ctx.ob("C11-D1/FORM", ridx is not None, jn.site(), "the removed bucket is self.buckets[i] for the chosen empty index", func=jq)
    # group by branch (the innermost If body they sit in)
    groups = {}
    for s, t in writes:
        blk = getattr(s, "_parent", None)
        groups.setdefault(id(blk) if not isinstance(blk, ast.If) else (id(blk), s in blk.body), []).append((s, t))
    for g in groups.values():
        if len(g) == 2:
            (s1, t1), (s2, t2) = g
            lower = [(s, t) for s, t in g if t.attr == "range_max"]
            upper = [(s, t) for s, t in g if t.attr == "range_min"]
            ok = len(lower) == 1 and len(upper) == 1
            detail = "a two-write branch must set lower.range_max and upper.range_min"
            if ok:
                (sl, tl), (su, tu) = lower[0], upper[0]
                e1, e2 = jn.expanded_text(sl.value), jn.expanded_text(su.value)
                recv_ok = ridx is not None and unparse(tl.value) == f"self.buckets[{ridx} - 1]" and unparse(tu.value) == f"self.buckets[{ridx} + 1]"
                ok = e1 == e2 and recv_ok
                detail = f"lower.range_max = {unparse(sl.value)}  vs  upper.range_min = {unparse(su.value)}" + \
                         ("" if recv_ok else "; receivers are not the two neighbours of the removed bucket")
                srcs = {dd for dd in (dotted(x) for x in ast.walk(jn.expand(sl.value)) if isinstance(x, ast.Attribute)) if dd}
                inside = all(x.endswith((".range_max", ".range_min", ".buckets")) for x in srcs)
                ctx.ob("C11-D1/FORM", inside, jn.site(sl), "the join boundary is computed from the removed bucket's boundaries", func=jq)
            ctx.ob("C11-D1/FORM", ok, jn.site(s1), "two-sided join: both neighbours meet at the same boundary (half-open ranges: "
                   "lower.range_max == upper.range_min)", detail="" if ok else detail, func=jq, key=f"C11-D1/FORM|{jq}|two-sided")
        elif len(g) == 1:
            s, t = g[0]
            if t.attr == "range_max":
                ok = ridx is not None and unparse(t.value) == f"self.buckets[{ridx} - 1]" and unparse(s.value) == f"{removed}.range_max"
                what = "absorb: the lower neighbour extends to the removed bucket's range_max"
            else:
                ok = ridx is not None and unparse(t.value) == f"self.buckets[{ridx} + 1]" and unparse(s.value) == f"{removed}.range_min"
                what = "absorb: the upper neighbour extends down to the removed bucket's range_min"
            ctx.ob("C11-D1/FORM", ok, jn.site(s), what, detail="" if ok else norm_text(s), func=jq,
                   key=f"C11-D1/FORM|{jq}|absorb-{t.attr}")
        else:
            ctx.ob("C11-D1/FORM", False, jn.site(g[0][0]), "a join branch writes boundaries in a recognised form", detail=f"{len(g)} writes in one branch",
                   func=jq)
    # only an empty bucket is removed
    if rem:
        emp = [s for s in jn.stmts(ast.Assign) if isinstance(s.value, ast.ListComp) and "len(bucket) == 0" in unparse(s.value)]
        ctx.ob("C11-D1/FORM", bool(emp), jn.site(), "only empty buckets are candidates for joining", func=jq)
        p = jn.must_precede(rem[0], lambda n: any(n is s for s, _ in writes))
        ctx.ob("C11-D1/ORDER", p is None, jn.site(rem[0]), "a bucket is removed only after a neighbour took over its range",
               detail="" if p is None else "path " + jn.fmt_path(p), func=jq)
        R.gate(ctx, "C11-D1/GATE", jn, rem[0], "not len(self.buckets) == 1", "the last remaining bucket is never removed",
               key=f"C11-D1/GATE|{jq}|last")

    # placement
    R.callers_only(ctx, "C11-D1/CALLERS", "key_in_range", [f"{TR}._kbucket_index", f"{TR}._split_bucket"], "bucket membership test", floor=2)
    kix = ctx.fa(f"{TR}._kbucket_index")
    t = unparse(kix.node)
    ok = "for bucket in self.buckets" in t and "bucket.key_in_range(key)" in t
    ctx.ob("C11-D1/FORM", ok, kix.site(), "placement = first bucket whose range covers the key", func=kix.fi.qualname)

    # ------------------------------------------------------------------ D2 ownership
    def outside(m, recv, f):
        return True
    for attr, kinds in (("buckets", None), ("peers", None)):
        sites = []
        for m, node, kind, recv in prog.attr_writes(attr):
            if not m.name.startswith("lbry.dht"):
                continue
            sites.append((m, node, kind, recv))
        for m, node, kind, recv in sites:
            f = prog.function_of(node)
            ok = m.name == RT
            ctx.ob("C11-D2/WRITERS", ok, f"{m.relpath}:{node.lineno}", f"`.{attr}` is mutated only inside routing_table.py ({kind} of `{unparse(recv)}`)",
                   func=getattr(f, "qualname", None), key=f"C11-D2/WRITERS|{getattr(f, 'qualname', m.name)}|{attr}|{kind}")
        ctx.floor("C11-D2/WRITERS", f"writes of .{attr}", len(sites), 2, site=f"{mod.relpath}:1")
    ka = ctx.fa(f"{KB}.add_peer")
    apps = ka.calls(dotted_name="self.peers.append")
    ctx.floor("C11-D2/GATE", "peers.append in KBucket.add_peer", len(apps), 1, site=ka.site(), func=ka.fi.qualname)
    rms = ka.calls(dotted_name="self.peers.remove")
    for c in apps:
        below = ka.guarded(c, "len(self.peers) < self.capacity")[0]
        blk = R.stmt_of(c)._parent
        body = blk.body if hasattr(blk, "body") and R.stmt_of(c) in getattr(blk, "body", []) else getattr(blk, "orelse", [])
        idx = body.index(R.stmt_of(c)) if R.stmt_of(c) in body else -1
        prev = body[idx - 1] if idx > 0 else None
        prm = [x for x in ast.walk(prev) if x in rms] if prev is not None else []
        repl = bool(prm)
        same = repl and ((ka.guarded(prm[0], "peer in self.peers")[0] and dotted(prm[0].args[0]) == "peer") or
                         (ka.guarded(prm[0], "local_peer.node_id == peer.node_id")[0] and dotted(prm[0].args[0]) == "local_peer"))
        ok = below or same
        ctx.ob("C11-D2/GATE", ok, ka.site(c), "a contact is appended only below capacity, or as a refresh replacing the entry with the same "
               "contact / node id", detail="" if ok else "append neither capacity-guarded nor a same-id replacement", func=ka.fi.qualname,
               key=f"C11-D2/GATE|{ka.fi.qualname}|append|{'cap' if below else 'repl' if same else 'other'}|L{c.lineno - ka.node.lineno}")

    # ------------------------------------------------------------------ D3 eviction only after a failed probe
    ta = ctx.fa(f"{TR}.add_peer")
    tq = ta.fi.qualname
    prm = ta.fi.params()
    peer, probe = prm[1], prm[2]
    removes = ta.calls(name="remove_peer")
    ctx.floor("C11-D3/EVICT", "remove_peer calls in add_peer", len(removes), 2, site=ta.site(), func=tq)
    for c in removes:
        x = dotted(c.args[0]) if c.args else None
        h = R.in_handler(c, ta)
        if h is None:
            ok = ta.guarded(c, f"({x}.address, {x}.udp_port) == ({peer}.address, {peer}.udp_port) and {x}.node_id != {peer}.node_id")[0]
            ctx.ob("C11-D3/EVICT", ok, ta.site(c), "outside a failed probe a contact is removed only when the newcomer has the same endpoint "
                   "and another node id", func=tq, key=f"C11-D3/EVICT|{tq}|same-endpoint")
        else:
            tr = h._parent
            names = handler_names(h)
            first = tr.body[0] if tr.body else None
            probed = isinstance(first, ast.Expr) and isinstance(first.value, ast.Await) and isinstance(first.value.value, ast.Call) \
                and dotted(first.value.value.func) == probe and first.value.value.args and dotted(first.value.value.args[0]) == x
            failed = set(names) <= {"asyncio.TimeoutError", "RemoteException"} and bool(names)
            keeps = len(tr.body) >= 2 and isinstance(tr.body[1], ast.Return) and is_const(tr.body[1].value, False)
            ok = probed and failed and keeps
            ctx.ob("C11-D3/EVICT", ok, ta.site(c), "a contact is displaced only in the handler of a failed probe of that very contact; a "
                   "contact that answers keeps its place (return False)",
                   detail="" if ok else f"probe of same contact={probed}; handler only for timeout/remote error={failed} ({names}); "
                                       f"successful probe returns False={keeps}", func=tq, key=f"C11-D3/EVICT|{tq}|probe")
    # what "RemoteException" stands for in that handler: an error REPLY of the probed contact.  A local condition (our own transport is closed, a
    # datagram did not decode, a bucket is full) that became a subclass would be taken for a dead contact and evict a live one.
    rex = prog.cls("lbry.dht.error.RemoteException")
    subs = sorted(c.qualname for c in prog.subclasses(rex))
    ctx.ob("C11-D3/EVICT", not subs, f"{rex.module.relpath}:{rex.node.lineno}", "RemoteException has no subclass: the probe handler catches error replies (and timeouts) only",
           detail="" if not subs else f"also caught as a failed probe: {subs}", key="C11-D3/EVICT|RemoteException|leaf")
    bases = [getattr(b, "qualname", b) for b in rex.bases]
    ctx.ob("C11-D3/EVICT", bases == ["lbry.dht.error.BaseKademliaException"], f"{rex.module.relpath}:{rex.node.lineno}", "RemoteException derives from BaseKademliaException only",
           detail=str(bases), key="C11-D3/EVICT|RemoteException|base")
    # ------------------------------------------------------------------ D4 closest-K
    fc = ctx.fa(f"{TR}.find_close_peers")
    fq = fc.fi.qualname
    key, count, sender = fc.fi.params()[1:4]
    ex = [s for s in fc.stmts(ast.Assign) if isinstance(s.value, ast.List) and unparse(s.value) == "[self._parent_node_id]"]
    exn = dotted(ex[0].targets[0]) if ex else None
    ctx.ob("C11-D4/FORM", exn is not None, fc.site(), "the node itself is always excluded", func=fq)
    ap = [c for c in fc.calls(name="append") if exn and dotted(c.func.value) == exn and c.args and dotted(c.args[0]) == sender]
    ctx.ob("C11-D4/FORM", len(ap) == 1 and fc.guarded(ap[0], sender)[0], fc.site(), "the requester is excluded when given", func=fq)
    flt = [s for s in fc.stmts(ast.Assign) if isinstance(s.value, ast.ListComp) and exn and
           any(unparse(i) == f"{dotted(s.value.generators[0].target)}.node_id not in {exn}" for i in s.value.generators[0].ifs)]
    srt = [c for c in fc.calls(name="sort")]
    rets = [r for r in fc.stmts(ast.Return) if isinstance(r.value, ast.Subscript)]
    ctx.floor("C11-D4/FORM", "filter / sort / slice in find_close_peers", min(len(flt), len(srt), len(rets)), 1, site=fc.site(), func=fq)
    if flt and srt and rets:
        lst = dotted(flt[0].targets[0])
        src = fc.sources(flt[0].value.generators[0].iter)
        ctx.ob("C11-D4/FORM", "self.get_peers" in src["calls"], fc.site(flt[0]), "candidates are all contacts of all buckets", func=fq)
        kw = kwarg(srt[0], "key")
        kt = fc.expanded_text(kw.body) if isinstance(kw, ast.Lambda) else ""
        oks = dotted(srt[0].func.value) == lst and isinstance(kw, ast.Lambda) and kt == f"Distance({key})({kw.args.args[0].arg}.node_id)" \
            and kwarg(srt[0], "reverse") is None
        ctx.ob("C11-D4/FORM", oks, fc.site(srt[0]), "contacts are sorted ascending by XOR distance to the key", detail="" if oks else unparse(srt[0]), func=fq)
        r = rets[0]
        sl = r.value.slice
        okr = dotted(r.value.value) == lst and isinstance(sl, ast.Slice) and sl.lower is None and sl.upper is not None and \
            fc.expanded_text(sl.upper) in (f"min({count} or constants.K, len({lst}))", f"min(len({lst}), {count} or constants.K)",
                                           f"{count} or constants.K")
        ctx.ob("C11-D4/FORM", okr, fc.site(r), "the result is the first `count or K` of the sorted, filtered list", detail="" if okr else unparse(r.value), func=fq)
        p1 = fc.must_precede(srt[0], lambda n: n is flt[0])
        p2 = fc.must_precede(r, lambda n: n is srt[0])
        ctx.ob("C11-D4/ORDER", p1 is None and p2 is None, fc.site(r), "exclusion happens before sorting and truncation (excluding afterwards "
               "would return fewer than K and drop the K-th nearest)", func=fq)
        other_slices = [n for n in fc.local_nodes(ast.Subscript) if isinstance(n.slice, ast.Slice) and n is not r.value]
        ctx.ob("C11-D4/ORDER", not other_slices, fc.site(other_slices[0]) if other_slices else fc.site(), "no truncation before the exclusion", func=fq)
    gp = ctx.fa(f"{TR}.get_peers")
    r = R.single_return_value(gp)
    ok = r is not None and "bucket.peers" in unparse(r.value) and "self.buckets" in unparse(r.value) and "chain.from_iterable" in unparse(r.value)
    ctx.ob("C11-D4/FORM", ok, gp.site(), "get_peers() is the concatenation of every bucket's contacts", func=gp.fi.qualname)
    dc = ctx.fa("lbry.dht.protocol.distance.Distance.__call__")
    r = R.single_return_value(dc)
    okx = r is not None and isinstance(r.value, ast.BinOp) and isinstance(r.value.op, ast.BitXor) and \
        {dc.expanded_text(r.value.left), dc.expanded_text(r.value.right)} == {"self.val_key_one", f"int.from_bytes({dc.fi.params()[1]}, 'big')"}
    ctx.ob("C11-D4/FORM", okx, dc.site(), "distance is the XOR of the two ids read as big-endian integers", func=dc.fi.qualname)
    di = ctx.fa("lbry.dht.protocol.distance.Distance.__init__")
    s = [x for x in di.stmts(ast.Assign) if any(dotted(t) == "self.val_key_one" for t in x.targets)]
    ctx.ob("C11-D4/FORM", len(s) == 1 and unparse(s[0].value) == f"int.from_bytes({di.fi.params()[1]}, 'big')", di.site(),
           "the reference id is read big endian as well", func=di.fi.qualname)

    # ------------------------------------------------------------------ D5 admission
    ss = ctx.fa(f"{TR}._should_split")
    sq = ss.fi.qualname
    to_add = ss.fi.params()[2]
    rets = [r for r in ss.stmts(ast.Return) if isinstance(r.value, ast.Compare)]
    ctx.floor("C11-D5/FORM", "comparison returned by _should_split", len(rets), 1, site=ss.site(), func=sq)
    for r in rets:
        c = r.value
        left = ss.expanded_text(c.left)
        ok = isinstance(c.ops[0], ast.Lt) and left == f"Distance(self._parent_node_id)({to_add})"
        right = ss.expand(c.comparators[0], keep=("contacts",))
        rt = unparse(right)
        okk = rt.startswith("Distance(self._parent_node_id)(") and "contacts[constants.K - 1]" in rt and "contacts[-1]" in rt \
            and "len(contacts) < constants.K" in rt
        ctx.ob("C11-D5/FORM", ok and okk, ss.site(r), "a newcomer is admitted (bucket split) iff it is closer to the own id than the K-th closest "
               "known contact", detail="" if ok and okk else f"{left} < {rt[:120]}", func=sq)
        srt = [x for x in ss.calls(name="sort") if dotted(x.func.value) == "contacts"]
        okp = bool(srt) and ss.must_precede(r, lambda n: n in srt) is None
        if srt:
            kw = kwarg(srt[0], "key")
            kt = ss.expanded_text(kw.body) if isinstance(kw, ast.Lambda) else ""
            okp = okp and kt == f"Distance(self._parent_node_id)({kw.args.args[0].arg}.node_id)"
        ctx.ob("C11-D5/ORDER", okp, ss.site(r), "the K-th contact is taken from the list sorted by distance to the own id "
               "(bucket / insertion order is not distance order)", func=sq, key=f"C11-D5/ORDER|{sq}|sorted")
        src = [s for s in ss.stmts(ast.Assign) if any(dotted(t) == "contacts" for t in s.targets)]
        ctx.ob("C11-D5/FORM", len(src) == 1 and unparse(src[0].value) == "self.get_peers()", ss.site(), "the K-th closest is taken over all known contacts",
               func=sq)
    spl = ta.calls(dotted_name="self._split_bucket")
    ctx.floor("C11-D5/FORM", "_split_bucket call in add_peer", len(spl), 1, site=ta.site(), func=tq)
    for c in spl:
        R.gate(ctx, "C11-D5/GATE", ta, c, f"self._should_split(self._kbucket_index({peer}.node_id), {peer}.node_id)",
               "a full bucket is split exactly when _should_split admits the newcomer", key=f"C11-D5/GATE|{tq}|split")
        retry = [x for x in ta.calls(dotted_name="self.add_peer") if ta.must_precede(x, lambda n: n is c) is None]
        ctx.ob("C11-D5/ORDER", bool(retry), ta.site(c), "after the split the insertion is retried", func=tq)
    R.callers_only(ctx, "C11-D5/CALLERS", "_split_bucket", [f"{TR}.add_peer"], "bucket split", floor=1)
    # bucket placement in add_peer
    bi = [s for s in ta.stmts(ast.Assign) if unparse(s.value) == f"self._kbucket_index({peer}.node_id)"]
    ad = [c for c in ta.calls(name="add_peer") if unparse(c.func) == "self.buckets[bucket_index].add_peer"]
    ctx.ob("C11-D2/FORM", len(bi) == 1 and len(ad) == 1 and dotted(ad[0].args[0]) == peer, ta.site(),
           "a contact is offered to the bucket that covers its id", func=tq)


_base_check_c11 = check


def check(ctx):            # noqa: F811  (extends the rules above)
    _base_check_c11(ctx)
    exactness(ctx, ctx.prog)


def exactness(ctx, prog):
    """index arithmetic, start values, and the 'always admitted / exactly when' halves of the table's operations"""
    TRq = f"{RT}.TreeRoutingTable"
    # --- bucket lookup
    ki = ctx.fa(f"{TRq}._kbucket_index")
    q = ki.fi.qualname
    k = ki.fi.params()[1]
    R.effect_table(ctx, "C11-D1/INDEX", ki, ["bucket.key_in_range(" + k + ")"], [
        ("i = 0", "", "the bucket index starts at 0"),
        ("return i", f"bucket.key_in_range({k})", "the index of the first covering bucket is returned", 0),
        ("i += 1", f"not bucket.key_in_range({k})", "…after one step per bucket that does not cover the key"),
    ], "bucket lookup: ")
    lp = ki.stmts(ast.For)
    ok = len(lp) == 1 and norm_text(lp[0].iter) == "self.buckets" and dotted(lp[0].target) == "bucket"
    ctx.ob("C11-D1/INDEX", ok, ki.site(), "bucket lookup: buckets are visited in table order", func=q)
    p = ki.path([ki.cfg.entry], [ki.cfg.exit], avoid=lambda n: n.kind == "return", include_exc=False)
    ctx.ob("C11-D1/INDEX", p is None, ki.site(), "bucket lookup: every path returns an index", func=q)
    # --- join
    jb = ctx.fa(f"{TRq}._join_buckets")
    q = jb.fi.qualname
    defs = {dotted(x.targets[0]): norm_text(x.value) for x in jb.stmts(ast.Assign) if len(x.targets) == 1 and isinstance(x.targets[0], ast.Name)}
    ok = defs.get("can_go_lower") == "bucket_index_to_pop - 1 >= 0" and defs.get("can_go_higher") == "bucket_index_to_pop + 1 < len(self.buckets)" and \
        defs.get("bucket_index_to_pop") == "to_pop[0]" and defs.get("bucket") == "self.buckets[bucket_index_to_pop]"
    ctx.ob("C11-D1/INDEX", ok, jb.site(), "join: a lower neighbour exists iff index − 1 >= 0, an upper one iff index + 1 < number of buckets; the bucket removed is the first empty one",
           detail="" if ok else str({k_: v for k_, v in defs.items() if k_.startswith(("can_go", "bucket"))}), func=q, key=f"C11-D1/INDEX|{q}|neighbours")
    ok = defs.get("midpoint") in ("(bucket.range_max - bucket.range_min) // 2 + bucket.range_min", "bucket.range_min + (bucket.range_max - bucket.range_min) // 2")
    ctx.ob("C11-D1/INDEX", ok, jb.site(), "join: the meeting point of a two-sided join lies inside the removed bucket's range (range_min + half its width)", detail="" if ok else str(defs.get("midpoint")),
           func=q, key=f"C11-D1/INDEX|{q}|midpoint")
    ign = ["len(self.buckets[bucket_index_to_pop]) == 0", "len(self.buckets) == 1", "to_pop"]
    ign += ["not " + g for g in ign]
    for x in jb.stmts(ast.Assign):
        t = norm_text(x)
        want = {"self.buckets[bucket_index_to_pop - 1].range_max = midpoint": "can_go_lower and can_go_higher",
                "self.buckets[bucket_index_to_pop + 1].range_min = midpoint": "can_go_lower and can_go_higher",
                "self.buckets[bucket_index_to_pop - 1].range_max = bucket.range_max": "can_go_lower and not can_go_higher",
                "self.buckets[bucket_index_to_pop + 1].range_min = bucket.range_min": "not can_go_lower and can_go_higher"}.get(t)
        if want:
            R.exact_gate(ctx, "C11-D1/INDEX", jb, x, want, f"join: `{t[:60]}` exactly when {want}", ignore=ign, key=f"C11-D1/INDEX|{q}|{t[:50]}")
    # --- split
    sp = ctx.fa(f"{TRq}._split_bucket")
    q = sp.fi.qualname
    defs = {dotted(x.targets[0]): norm_text(x.value) for x in sp.stmts(ast.Assign) if len(x.targets) == 1 and isinstance(x.targets[0], ast.Name)}
    ok = defs.get("split_point") in ("old_bucket.range_max - (old_bucket.range_max - old_bucket.range_min) // 2", "old_bucket.range_min + (old_bucket.range_max - old_bucket.range_min) // 2",
                                     "(old_bucket.range_max - old_bucket.range_min) // 2 + old_bucket.range_min") and defs.get("old_bucket") == f"self.buckets[{sp.fi.params()[1]}]"
    ctx.ob("C11-D1/INDEX", ok, sp.site(), "split: the split point lies strictly inside the old bucket (an end minus/plus half its width)", detail="" if ok else str(defs.get("split_point")), func=q,
           key=f"C11-D1/INDEX|{q}|split-point")
    for c in sp.calls(dotted_name="new_bucket.add_peer"):
        R.exact_gate(ctx, "C11-D1/INDEX", sp, c, "new_bucket.key_in_range(contact.node_id)", "split: every contact the new bucket covers moves to it — no further condition", key=f"C11-D1/INDEX|{q}|move-exact")
    # --- KBucket.add_peer
    ka = ctx.fa(f"{KB}.add_peer")
    q = ka.fi.qualname
    pp = ka.fi.params()[1]
    vocab = [f"{pp} in self.peers", f"local_peer.node_id == {pp}.node_id", "len(self.peers) < self.capacity"]
    rows = [
        (f"self.peers.remove({pp})", f"{pp} in self.peers", "a known contact is moved to the tail (removed…"),
        (f"self.peers.append({pp})", "", "…and appended again)", 0),
        ("self.peers.remove(local_peer)", f"not {pp} in self.peers and local_peer.node_id == {pp}.node_id", "a contact with the same node id is replaced (old entry removed…"),
        (f"self.peers.append({pp})", f"local_peer.node_id == {pp}.node_id", "…new one appended)", 1),
        (f"self.peers.append({pp})", f"not {pp} in self.peers and len(self.peers) < self.capacity", "a new contact is appended whenever the bucket has room", 2),
        ("return False", f"not {pp} in self.peers and not len(self.peers) < self.capacity", "a full bucket reports failure (which is what triggers split / probe)"),
    ]
    R.effect_table(ctx, "C11-D2/EXACT", ka, vocab, rows, "bucket insert: ")
    aps = [x for x in R.ordered_stmts(ka) if isinstance(x, ast.Expr) and norm_text(x) == f"self.peers.append({pp})"]
    ok = len(aps) == 3 and norm_text(R.prev_stmt(aps[0]) or ast.Pass()) == f"self.peers.remove({pp})" and norm_text(R.prev_stmt(aps[1]) or ast.Pass()) == "self.peers.remove(local_peer)"
    ctx.ob("C11-D2/EXACT", ok, ka.site(), "bucket insert: each refresh appends right after its removal (a removed contact is never left out)", func=q, key=f"C11-D2/EXACT|{q}|remove-append")
    rt = [r for r in ka.stmts(ast.Return)]
    ok = len(rt) == 4 and [norm_text(r) for r in rt].count("return True") == 3 and all(isinstance(R.prev_stmt(r), ast.Expr) or True for r in rt)
    for r in rt:
        if norm_text(r) == "return True":
            pv = R.prev_stmt(r)
            while pv is not None and not (isinstance(pv, ast.Expr) and norm_text(pv) == f"self.peers.append({pp})"):
                pv = R.prev_stmt(pv)
            ok = ok and pv is not None
    ctx.ob("C11-D2/EXACT", ok, ka.site(), "bucket insert: success (True) is reported exactly on the three paths that appended the contact", func=q, key=f"C11-D2/EXACT|{q}|returns")
    p = ka.path([ka.cfg.entry], [ka.cfg.exit], avoid=lambda n: n.kind == "return", include_exc=False)
    ctx.ob("C11-D2/EXACT", p is None, ka.site(), "bucket insert: every path reports a result", func=q)
    # --- table add_peer
    ap = ctx.fa(f"{TRq}.add_peer")
    q = ap.fi.qualname
    pe = ap.fi.params()[1]
    vocab = [f"{pe}.node_id", f"(my_peer.address, my_peer.udp_port) == ({pe}.address, {pe}.udp_port)", f"my_peer.node_id == {pe}.node_id", f"self.buckets[bucket_index].add_peer({pe})",
             f"self._should_split(bucket_index, {pe}.node_id)"]
    rows = [
        ("return False", f"not {pe}.node_id", "a contact without node id is refused", 0),
        ("self.remove_peer(my_peer)", f"{pe}.node_id and (my_peer.address, my_peer.udp_port) == ({pe}.address, {pe}.udp_port) and my_peer.node_id != {pe}.node_id",
         "a known contact at the newcomer's endpoint with another id is dropped"),
        (f"bucket_index = self._kbucket_index({pe}.node_id)", f"{pe}.node_id", "the covering bucket is looked up"),
        ("return True", f"{pe}.node_id and self.buckets[bucket_index].add_peer({pe})", "a successful bucket insert is reported as success", 0),
        ("self._split_bucket(bucket_index)", f"{pe}.node_id and not self.buckets[bucket_index].add_peer({pe}) and self._should_split(bucket_index, {pe}.node_id)",
         "a full bucket is split whenever _should_split admits the newcomer"),
        (f"result = await self.add_peer({pe}, {ap.fi.params()[2]})", f"self._should_split(bucket_index, {pe}.node_id)", "…and the insert is retried"),
        ("return result", f"self._should_split(bucket_index, {pe}.node_id)", "…whose result is the answer"),
    ]
    R.effect_table(ctx, "C11-D5/EXACT", ap, vocab, rows, "table insert: ")
    defs = [x for x in ap.stmts(ast.Assign) if any(dotted(t) == "bucket_index" for t in x.targets)]
    uses = [n for n in ap.local_nodes(ast.Name) if n.id == "bucket_index" and isinstance(n.ctx, ast.Load)]
    mut = lambda n: isinstance(n, ast.Call) and call_name(n) in ("remove_peer", "_join_buckets", "_split_bucket", "add_peer") and dotted(n.func) and dotted(n.func).startswith("self.") \
        and dotted(n.func) != "self.buckets[bucket_index].add_peer"
    stale = None
    for d_ in defs:
        for u in uses:
            if ap.evaluates_any(u, mut) if hasattr(ap, "evaluates_any") else False:
                continue
            un = ap.cfg_nodes(u)
            mids = [n for n in ap.cfg.nodes if ap.evaluates(n, mut) and not any(n is x for x in un)]
            for m_ in mids:
                p1 = ap.path(ap.cfg_nodes(d_), [m_], avoid=lambda x: any(x is y for dd in defs for y in ap.cfg_nodes(dd)), include_exc=False)
                p2 = ap.path([m_], un, avoid=lambda x: any(x is y for dd in defs for y in ap.cfg_nodes(dd)), include_exc=False) if p1 else None
                if p1 and p2:
                    stale = (d_, m_, u)
    ctx.ob("C11-D5/EXACT", bool(defs) and stale is None, ap.site(defs[0]) if defs else ap.site(), "table insert: the bucket index is looked up after the last change of the bucket list — no removal, join "
           "or split lies between the lookup and its use (joining shifts the list: a stale index files the contact under a bucket that does not cover it)",
           detail="" if stale is None else f"index from L{stale[0].lineno} is still used at L{stale[2].lineno} after the table changed at L{stale[1].lineno}", func=q, key=f"C11-D5/EXACT|{q}|fresh-index")
    # --- admission rule
    ss = ctx.fa(f"{TRq}._should_split")
    q = ss.fi.qualname
    bi, ta = ss.fi.params()[1:3]
    defs = {dotted(x.targets[0]): x.value for x in ss.stmts(ast.Assign) if len(x.targets) == 1 and isinstance(x.targets[0], ast.Name)}
    kc = defs.get("kth_contact")
    ok = isinstance(kc, ast.IfExp) and R.same_test(kc.test, "len(contacts) < constants.K") and norm_text(kc.body) == "contacts[-1]" and norm_text(kc.orelse) == "contacts[constants.K - 1]"
    ctx.ob("C11-D5/EXACT", ok, ss.site(), "admission: the reference contact is the K-th closest (index K−1), or the farthest when fewer than K are known", func=q, key=f"C11-D5/EXACT|{q}|kth")
    srt = [c for c in ss.calls(dotted_name="contacts.sort")]
    lam = kwarg(srt[0], "key") if srt else None
    ok = len(srt) == 1 and isinstance(lam, ast.Lambda) and norm_text(lam.body) == f"distance({lam.args.args[0].arg}.node_id)" and kwarg(srt[0], "reverse") is None and \
        defs.get("distance") is not None and norm_text(defs["distance"]) == "Distance(self._parent_node_id)" and norm_text(defs.get("contacts")) == "self.get_peers()"
    ctx.ob("C11-D5/EXACT", ok, ss.site(), "admission: contacts are sorted ascending by distance to the own id", func=q, key=f"C11-D5/EXACT|{q}|sort")
    for r in ss.stmts(ast.Return):
        if is_const(r.value, True):
            R.exact_gate(ctx, "C11-D5/EXACT", ss, r, f"{bi} < self._split_buckets_under_index", "admission: buckets below the configured index always split", key=f"C11-D5/EXACT|{q}|low-index")
        else:
            ok = R.same_test(r.value, f"distance({ta}) < distance(kth_contact.node_id)")
            ctx.ob("C11-D5/EXACT", ok, ss.site(r), "admission: otherwise the verdict is `newcomer strictly closer than the reference contact`", func=q, key=f"C11-D5/EXACT|{q}|verdict")
    # --- distance validators
    for qn, arg in ((f"lbry.dht.protocol.distance.Distance.__init__", 1), (f"lbry.dht.protocol.distance.Distance.__call__", 1)):
        dfa = ctx.fa(qn)
        a = dfa.fi.params()[arg]
        R.refusal_table(ctx, "C11-D4/VALID", dfa, [("invalid", f"len({a}) != constants.HASH_LENGTH")], f"{dfa.fi.qualname.split('.')[-1]}")
