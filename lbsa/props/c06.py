"""C06 — HD key derivation, extended keys and addresses follow BIP32/Base58Check."""
import ast

from .. import AnalysisError
from ..astutil import dotted, call_name, unparse, norm_text, walk_local_body, kwarg, is_const
from ..consteval import Evaluator, Unknown
from .. import rules as R
from .. import terms

EXPLANATION = (
    "Derivation-sibling agreement and layout analysis. CKDpriv (non-hardened) and CKDpub build the same message "
    "(compressed public key ‖ index as 4 big-endian bytes), key the HMAC-SHA512 with the chain code, add the left "
    "32 bytes to the parent key and take the right 32 as child chain code, and construct the child with (n, "
    "depth+1, parent=self); the hardened branch (n >= 1<<31) uses 0x00 ‖ the fixed 32-byte private key; range "
    "guards are 0 <= n < 2**32 (private) and 0 <= n < 2**31 (public). Extended-key layout: the writer's field "
    "widths (4, 1, 4, 4, 32, 33 — inferred from its validators and constructors) give offsets 0/4/5/9/13/45/78, "
    "every slice of the reader lies on those boundaries and any length other than 78 is refused. Base58Check: "
    "encode appends hash(payload)[:4], decode splits [:-4]/[-4:], compares and raises on mismatch, same default "
    "hash; Base58 encode/decode are positional base-58 with leading-zero ↔ '1' handling over the 58-character "
    "alphabet; int_to_bytes uses ceil(bit_length/8) bytes; addresses are prefix ‖ hash160 ‖ double-SHA256 checksum "
    "and address_to_hash160 slices [1:21] for the 1-byte prefix. Address chains: keys index start..end inclusive "
    "are derived from the chain's public key, only under the address-generator lock, starting after the last "
    "generated n, and the gap counts the trailing run of unused addresses. Mnemonic: encode emits digits base n "
    "least significant first, decode consumes words from the end with i*n + k; text normalisation collapses every "
    "kind of whitespace before stretching."
)
EXACTNESS = "Second pass (DESIGN.md §10, exactness / completeness halves) — Base58 loops (start values, unconditional accumulation, leading-zero handling decided by the digit test alone, return), all validators of key constructor / writer / reader / child derivation as refusal tables, derived keys stored, gap counted from 0 and announced, mnemonic start values, PBKDF2 argument order."
TECHNIQUE = "static analysis: sibling-function agreement (CKDpriv/CKDpub, encode/decode), width/offset inference for the 78-byte layout, guard dominance, who-may-call, loop-shape checks; exact fact-set comparison of the tests dominating each effect and refusal (effect / refusal tables), fall-through path queries"
NOT_DECIDED = ("equality with BIP32 test vectors, elliptic-curve arithmetic, PBKDF2 stretching, and the numeric identity decode(encode(i)) == i "
               "(the structural inverse-loop condition is checked as a necessary condition only); string→key→string of depth>0 keys "
               "(the parent fingerprint is not kept by the reader)")
ASSUMPTIONS = ["coincurve PrivateKey.secret is the 32-byte big-endian secret; PublicKey.format(True) is the 33-byte compressed key"]

K = "lbry.wallet.bip32"
B58 = "lbry.crypto.base58.Base58"
A = "lbry.wallet.account"


def check(ctx):
    prog = ctx.prog
    ev = Evaluator(prog)
    derivation(ctx, prog, ev)
    layout(ctx, prog, ev)
    base58(ctx, prog, ev)
    chains(ctx, prog)
    mnemonic(ctx, prog)
    memo(ctx, prog)


def memo(ctx, prog):
    """key bytes, public keys and addresses of BIP32 keys are memoised by `cachedproperty`: the memo must live ON the key object (it then dies with it).
    A memo kept anywhere else and keyed by id(obj) / hash survives the object and is inherited by the next key allocated at that address."""
    g = ctx.fa("lbry.wallet.util.cachedproperty.__get__")
    obj = g.fi.params()[1]
    sa = [c for c in g.calls(name="setattr")]
    ok = len(sa) == 1 and len(sa[0].args) == 3 and dotted(sa[0].args[0]) == obj and unparse(sa[0].args[1]) == "self.f.__name__" and \
        g.expanded_text(sa[0].args[2], keep=(obj,)) == f"self.f({obj})"
    ctx.ob("C06-D6/MEMO", ok, g.site(), "cachedproperty stores f(obj) as an attribute of obj itself, under the property's name", func=g.fi.qualname, key="C06-D6/MEMO|setattr")
    for c in sa:
        R.exact_gate(ctx, "C06-D6/MEMO", g, c, "", "…unconditionally", key="C06-D6/MEMO|always")
    r = [x for x in g.stmts(ast.Return)]
    ok = bool(r) and all(g.expanded_text(x.value, keep=(obj,)) == f"self.f({obj})" for x in r)
    ctx.ob("C06-D6/MEMO", ok, g.site(), "…and returns that value", func=g.fi.qualname, key="C06-D6/MEMO|return")
    w = ctx.eng.self_writes(prog.cls("lbry.wallet.util.cachedproperty"), "__get__") if hasattr(ctx.eng, "self_writes") else set()
    ctx.ob("C06-D6/MEMO", not w, g.site(), "the descriptor itself keeps no per-object state (__get__ writes nothing on self)", detail=str(sorted(w)) if w else "", func=g.fi.qualname,
           key="C06-D6/MEMO|stateless")
    n = 0
    for q, f in sorted(prog.functions.items()):
        if f.module.name == "lbry.wallet.bip32" and "cachedproperty" in f.decorators():
            n += 1
            fa = ctx.fa(q)
            args_ok = fa.fi.params() == ["self"]
            ctx.ob("C06-D6/MEMO", args_ok, fa.site(), f"{f.cls.name}.{f.name} is a function of the key object alone", func=q, key=f"C06-D6/MEMO|{q}|arity")
    ctx.floor("C06-D6/MEMO", "memoised key properties", n, 4)


def derivation(ctx, prog, ev):
    pub = ctx.fa(f"{K}.PublicKey.child")
    prv = ctx.fa(f"{K}.PrivateKey.child")
    n1, n2 = pub.fi.params()[1], prv.fi.params()[1]
    # range guards
    for fa, n, bits in ((pub, n1, 31), (prv, n2, 32)):
        rz = [x for x, k in R.raise_kinds(fa) if k == "ValueError"]
        ok = len(rz) == 1 and set(R.atomic_facts_at(fa, rz[0])[0]) == set()  # whole-test guard only
        g = fa.guarded(rz[0], f"not 0 <= {n} < 1 << {bits}")[0] if rz else False
        ctx.ob("C06-D1/GATE", g, fa.site(), f"{fa.fi.short}: child numbers outside 0 <= n < 2**{bits} are refused", func=fa.fi.qualname, key=f"C06-D1/GATE|{fa.fi.qualname}|range")
    tp, tv = unparse(pub.node), unparse(prv.node)
    # message
    okp = f"msg = self.pubkey_bytes + {n1}.to_bytes(4, 'big')" in tp
    ser = [s for s in prv.stmts(ast.Assign) if any(dotted(t) == "serkey" for t in s.targets)]
    hard = [s for s in ser if prv.guarded(s, f"{n2} >= self.HARDENED")[0]]
    soft = [s for s in ser if prv.guarded(s, f"not {n2} >= self.HARDENED")[0]]
    okv = f"msg = serkey + {n2}.to_bytes(4, 'big')" in tv and len(soft) == 1 and unparse(soft[0].value) == "self.public_key.pubkey_bytes"
    ctx.ob("C06-D1/SYM", okp and okv, pub.site(), "non-hardened: both derive from compressed public key ‖ index as 4 big-endian bytes", func=pub.fi.qualname, key="C06-D1/SYM|message")
    okh = len(hard) == 1 and unparse(hard[0].value) == "b'\\x00' + self.private_key_bytes" and len(ser) == 2
    ctx.ob("C06-D1/SYM", okh, prv.site(), "hardened (n >= 2**31): the message starts with 0x00 ‖ the private key bytes", detail="" if okh else
           (unparse(hard[0].value) if hard else "no hardened branch"), func=prv.fi.qualname, key="C06-D1/SYM|hardened")
    pkb = prog.cls(f"{K}.PrivateKey").methods.get("private_key_bytes")
    r = [s for s in pkb.node.body if isinstance(s, ast.Return)] if pkb else []
    ok = len(r) == 1 and unparse(r[0].value) == "self.signing_key.secret"
    ctx.ob("C06-D1/SYM", ok, pkb.site() if pkb else "?", "private_key_bytes is the curve library's fixed 32-byte secret (a key with a leading zero byte keeps its length)",
           func=getattr(pkb, "qualname", None), key="C06-D1/SYM|fixed-width-secret")
    cls = prog.cls(f"{K}.PrivateKey")
    try:
        hv = ev.class_attr(cls, "HARDENED")
    except Unknown:
        hv = None
    ctx.ob("C06-D1/CONST", hv == 1 << 31, prv.site(), "HARDENED folds to 2**31", detail=str(hv))
    # HMAC, halves, construction
    for fa, key, cons in ((pub, "self.verifying_key", "PublicKey"), (prv, "self.signing_key", "PrivateKey")):
        t = unparse(fa.node)
        ok = "L_b, R_b = self._hmac_sha512(msg)" in t and f"derived_key = {key}.add(L_b)" in t and \
            f"return {cons}(self.ledger, derived_key, R_b, {fa.fi.params()[1]}, self.depth + 1, self)" in t
        ctx.ob("C06-D1/SYM", ok, fa.site(), f"{fa.fi.short}: left half is added to the parent key, right half is the child chain code, child = (n, depth+1, parent=self)",
               func=fa.fi.qualname, key=f"C06-D1/SYM|{fa.fi.qualname}|halves")
    hm = ctx.fa(f"{K}._KeyBase._hmac_sha512")
    t = unparse(hm.node)
    ok = f"hmac = hmac_sha512(self.chain_code, {hm.fi.params()[1]})" in t and "return (hmac[:32], hmac[32:])" in t
    ctx.ob("C06-D1/SYM", ok, hm.site(), "the HMAC is keyed with the parent chain code and split at byte 32", func=hm.fi.qualname, key="C06-D1/SYM|hmac")
    hs = ctx.fa("lbry.crypto.hash.hmac_sha512")
    r = R.single_return_value(hs)
    ctx.ob("C06-D1/CONST", r is not None and unparse(r.value) == "hmac.new(key, msg, hashlib.sha512).digest()", hs.site(), "hmac_sha512 is HMAC with SHA-512", func=hs.fi.qualname)
    fs = ctx.fa(f"{K}.PrivateKey.from_seed")
    t = unparse(fs.node)
    ok = "hmac = hmac_sha512(b'Bitcoin seed', seed)" in t and "privkey, chain_code = (hmac[:32], hmac[32:])" in t and "return cls(ledger, privkey, chain_code, 0, 0)" in t
    ctx.ob("C06-D1/SYM", ok, fs.site(), "master key = HMAC-SHA512('Bitcoin seed', seed) split at 32, n = 0, depth = 0", func=fs.fi.qualname)
    pk = prog.cls(f"{K}.PrivateKey").methods.get("public_key")
    ok = pk is not None and "return PublicKey(self.ledger, verifying_key, self.chain_code, self.n, self.depth, parent_pubkey)" in unparse(pk.node) and \
        "verifying_key = self.signing_key.public_key" in unparse(pk.node)
    ctx.ob("C06-D1/SYM", ok, pk.site() if pk else "?", "a private key's public key carries the same chain code, n and depth", func=getattr(pk, "qualname", None))


def layout(ctx, prog, ev):
    wr = ctx.fa(f"{K}._KeyBase._extended_key")
    q = wr.fi.qualname
    r = R.single_return_value(wr)
    parts = []
    e = r.value if r is not None else None
    while isinstance(e, ast.BinOp) and isinstance(e.op, ast.Add):
        parts.append(e.right)
        e = e.left
    if e is not None:
        parts.append(e)
    parts.reverse()
    texts = [unparse(p) for p in parts]
    want = ["ver_bytes", "bytes((self.depth,))", "self.parent_fingerprint()", "self.n.to_bytes(4, 'big')", "self.chain_code", "raw_serkey"]
    ctx.ob("C06-D2/LAYOUT", texts == want, wr.site(), "writer: version ‖ depth ‖ parent fingerprint ‖ child number ‖ chain code ‖ key", detail="" if texts == want else str(texts), func=q)
    # widths from validators / constructors
    widths = []
    rz = R.raise_kinds(wr)
    w_ver = 4 if any(wr.guarded(x, "len(ver_bytes) != 4")[0] for x, k in rz) else None
    w_key = 33 if any(wr.guarded(x, "len(raw_serkey) != 33")[0] for x, k in rz) else None
    kb = ctx.fa(f"{K}._KeyBase.__init__")
    w_cc = 32 if any(kb.guarded(x, "len(chain_code) != 32")[0] for x, k in R.raise_kinds(kb)) else None
    fp = ctx.fa(f"{K}._KeyBase.fingerprint")
    rr = R.single_return_value(fp)
    w_fp = 4 if rr is not None and unparse(rr.value) == "self.identifier()[:4]" else None
    pf = ctx.fa(f"{K}._KeyBase.parent_fingerprint")
    rr = R.single_return_value(pf)
    w_fp = w_fp if rr is not None and unparse(rr.value) == "self.parent.fingerprint() if self.parent else bytes((0,) * 4)" else None
    widths = [w_ver, 1, w_fp, 4, w_cc, w_key]
    ok = None not in widths and sum(widths) == 78
    ctx.ob("C06-D2/LAYOUT", ok, wr.site(), "field widths 4+1+4+4+32+33 = 78 follow from the writer's validators (len(ver)==4, len(key)==33, len(chain_code)==32, "
           "fingerprint = identifier()[:4])", detail=str(widths), func=q)
    offs = [0]
    for w in widths:
        offs.append(offs[-1] + (w or 0))
    rd = ctx.fa(f"{K}._from_extended_key")
    rq = rd.fi.qualname
    ek = rd.fi.params()[1]
    rz = R.raise_kinds(rd)
    ok = any(rd.guarded(x, f"len({ek}) != 78")[0] for x, k in rz) and offs[-1] == 78
    ctx.ob("C06-D2/LAYOUT", ok, rd.site(), "any extended key whose length is not 78 is refused", func=rq)
    # every slice / index on ekey lies on a boundary and means the right field
    uses = {}
    for n in rd.local_nodes(ast.Subscript):
        if dotted(n.value) == ek:
            uses[unparse(n)] = n
    exp = {f"{ek}[4]": ("depth", offs[1], offs[2]), f"{ek}[9:13]": ("child number", offs[3], offs[4]), f"{ek}[13:45]": ("chain code", offs[4], offs[5]),
           f"{ek}[:4]": ("version", offs[0], offs[1]), f"{ek}[45:]": ("public key", offs[5], offs[6]), f"{ek}[45]": ("private key pad byte", offs[5], offs[5] + 1),
           f"{ek}[46:]": ("private key", offs[5] + 1, offs[6])}
    for text, n in uses.items():
        sl = n.slice
        if isinstance(sl, ast.Slice):
            lo = sl.lower.value if isinstance(sl.lower, ast.Constant) else (0 if sl.lower is None else None)
            hi = sl.upper.value if isinstance(sl.upper, ast.Constant) else (78 if sl.upper is None else None)
        else:
            lo = sl.value if isinstance(sl, ast.Constant) else None
            hi = lo + 1 if lo is not None else None
        ok = text in exp and (lo, hi) == (exp[text][1], exp[text][2])
        ctx.ob("C06-D2/LAYOUT", ok, rd.site(n), f"reader `{text}` = {exp.get(text, ('?',))[0]}: on the writer's field boundaries [{lo}:{hi}]",
               detail="" if ok else f"writer offsets {offs}", func=rq, key=f"C06-D2/LAYOUT|{rq}|{text}")
    ctx.ob("C06-D2/LAYOUT", set(exp) <= set(uses), rd.site(), "the reader takes depth, child number, chain code, version and key from the bytes", detail=str(sorted(set(exp) - set(uses))), func=rq)
    t = unparse(rd.node)
    ok = f"n = int.from_bytes({ek}[9:13], 'big')" in t and f"depth = {ek}[4]" in t and f"chain_code = {ek}[13:45]" in t and \
        "key = PublicKey(ledger, pubkey, chain_code, n, depth)" in t and "key = PrivateKey(ledger, privkey, chain_code, n, depth)" in t
    ctx.ob("C06-D2/LAYOUT", ok, rd.site(), "and builds the key from exactly those fields (child number big endian, as written)", func=rq)
    okz = any(rd.guarded(x, f"{ek}[45] != 0")[0] for x, k in rz) and any(k == "ValueError" and "version bytes" in unparse(x) for x, k in rz)
    ctx.ob("C06-D2/LAYOUT", okz, rd.site(), "a non-zero private pad byte and unknown version bytes are refused", func=rq)
    # what the two key kinds hand to the writer
    pe = ctx.fa(f"{K}.PublicKey.extended_key")
    ve = ctx.fa(f"{K}.PrivateKey.extended_key")
    r1, r2 = R.single_return_value(pe), R.single_return_value(ve)
    ok = r1 is not None and unparse(r1.value) == "self._extended_key(self.ledger.extended_public_key_prefix, self.pubkey_bytes)" and \
        r2 is not None and unparse(r2.value) == "self._extended_key(self.ledger.extended_private_key_prefix, b'\\x00' + self.private_key_bytes)"
    ctx.ob("C06-D2/LAYOUT", ok, pe.site(), "public keys serialise their 33-byte compressed key, private keys 0x00 ‖ 32-byte secret, under the ledger's version bytes", func=pe.fi.qualname)
    es = ctx.fa(f"{K}._KeyBase.extended_key_string")
    fs = ctx.fa(f"{K}.from_extended_key_string")
    r1, r2 = R.single_return_value(es), R.single_return_value(fs)
    ok = r1 is not None and unparse(r1.value) == "Base58.encode_check(self.extended_key())" and r2 is not None and \
        unparse(r2.value) == f"_from_extended_key({fs.fi.params()[0]}, Base58.decode_check({fs.fi.params()[1]}))"
    ctx.ob("C06-D2/SYM", ok, es.site(), "extended key strings are Base58Check of the raw key on both sides", func=es.fi.qualname)


def base58(ctx, prog, ev):
    en, de = ctx.fa(f"{B58}.encode_check"), ctx.fa(f"{B58}.decode_check")
    te, td = unparse(en.node), unparse(de.node)
    p = en.fi.params()[1]
    ok = f"be_bytes = {p} + hash_fn({p})[:4]" in te and "return cls.encode(be_bytes)" in te
    ctx.ob("C06-D3/SYM", ok, en.site(), "encode_check appends the first 4 bytes of hash(payload)", func=en.fi.qualname)
    ok = "result, check = (be_bytes[:-4], be_bytes[-4:])" in td and f"be_bytes = cls.decode({de.fi.params()[1]})" in td
    rz = R.raise_kinds(de)
    okc = any(de.guarded(x, "check != hash_fn(result)[:4]")[0] and k == "Base58Error" for x, k in rz)
    rets = de.stmts(ast.Return)
    okr = len(rets) == 1 and dotted(rets[0].value) == "result" and de.guarded(rets[0], "not check != hash_fn(result)[:4]")[0]
    ctx.ob("C06-D3/SYM", ok and okc and okr, de.site(), "decode_check splits payload/checksum at −4, raises on a mismatch and returns the payload only when it matches",
           func=de.fi.qualname, key="C06-D3/SYM|decode_check")
    d1 = [unparse(d) for d in en.node.args.defaults]
    d2 = [unparse(d) for d in de.node.args.defaults]
    ctx.ob("C06-D3/SYM", d1 == d2 == ["double_sha256"], en.site(), "both sides default to double SHA-256", func=en.fi.qualname)
    # positional base 58
    dc, ec = ctx.fa(f"{B58}.decode"), ctx.fa(f"{B58}.encode")
    t1, t2 = unparse(dc.node), unparse(ec.node)
    ok = "value = value * 58 + cls.char_value(c)" in t1 and "result = int_to_bytes(value)" in t1 and "result = bytes((0,)) * count + result" in t1
    ctx.ob("C06-D3/SYM", ok, dc.site(), "decode: value = value·58 + digit, big-endian bytes, one zero byte per leading '1'", func=dc.fi.qualname)
    ok = "value = bytes_to_int(be_bytes)" in t2 and "value, mod = divmod(value, 58)" in t2 and "txt += cls.chars[mod]" in t2 and "txt += '1'" in t2 and "return txt[::-1]" in t2
    ctx.ob("C06-D3/SYM", ok, ec.site(), "encode: repeated divmod by 58 (least significant digit first, reversed at the end), one '1' per leading zero byte", func=ec.fi.qualname)
    base58_loops(ctx, dc, ec)
    validators(ctx, prog)
    cls = prog.cls(B58)
    try:
        chars = ev.class_attr(cls, "chars")
    except Unknown:
        chars = ""
    ok = len(chars) == 58 and len(set(chars)) == 58 and not set(chars) & set("0OIl") and chars == "".join(sorted(chars, key=lambda c: (c.isalpha(), c.islower(), c)))
    ctx.ob("C06-D3/CONST", ok, f"lbry/crypto/base58.py:{cls.node.lineno}", "the alphabet has 58 distinct characters without 0, O, I, l, in digit / upper / lower order", detail=chars)
    ib, bi = ctx.fa("lbry.crypto.util.int_to_bytes"), ctx.fa("lbry.crypto.util.bytes_to_int")
    t = unparse(ib.node)
    v = ib.fi.params()[0]
    ok = f"length = ({v}.bit_length() + 7) // 8" in t and "unhexlify" in t and ".zfill(length * 2)" in t
    ctx.ob("C06-D3/SYM", ok, ib.site(), "int_to_bytes uses ceil(bit_length / 8) bytes (no spurious leading zero byte when the top bit of a byte is set)", detail="" if ok else
           norm_text(ib.node.body[0]) if ib.node.body else "", func=ib.fi.qualname, key="C06-D3/SYM|int_to_bytes-length")
    r = R.single_return_value(bi)
    ctx.ob("C06-D3/SYM", r is not None and unparse(r.value) == f"int(hexlify({bi.fi.params()[0]}), 16)", bi.site(), "bytes_to_int reads the bytes big endian", func=bi.fi.qualname)
    # addresses
    ha = ctx.fa("lbry.wallet.ledger.Ledger.hash160_to_address")
    t = unparse(ha.node)
    ok = "raw_address = cls.pubkey_address_prefix + h160" in t and "return Base58.encode(bytearray(raw_address + double_sha256(raw_address)[0:4]))" in t
    ctx.ob("C06-D3/SYM", ok, ha.site(), "address = Base58(prefix ‖ hash160 ‖ double-SHA256(prefix ‖ hash160)[:4]) — the construction decode_check verifies", func=ha.fi.qualname)
    # the two address kinds differ in the prefix only — and do differ in it
    for fn, pre_attr in (("hash160_to_address", "pubkey_address_prefix"), ("hash160_to_script_address", "script_address_prefix")):
        f = ctx.fa(f"lbry.wallet.ledger.Ledger.{fn}")
        r = R.single_return_value(f)
        hp = f.fi.params()[1]
        want = f"Base58.encode(bytearray(cls.{pre_attr} + {hp} + double_sha256(cls.{pre_attr} + {hp})[0:4]))"
        ok = r is not None and f.expanded_text(r.value, keep=(hp, "cls")) == want
        ctx.ob("C06-D3/SYM", ok, f.site(), f"{fn} prefixes `cls.{pre_attr}` (a pay-to-script-hash address must not look like a pay-to-pubkey-hash address: the legacy channel "
               "signature digest and the address kind tests read the prefix)", func=f.fi.qualname, key=f"C06-D3/SYM|{fn}|prefix",
               detail="" if ok else (f.expanded_text(r.value, keep=(hp, "cls"))[:140] if r is not None else "no single return"))
    ah = ctx.fa("lbry.wallet.ledger.Ledger.address_to_hash160")
    r = R.single_return_value(ah)
    lcls = prog.cls("lbry.wallet.ledger.Ledger")
    try:
        pre = ev.class_attr(lcls, "pubkey_address_prefix")
    except Unknown:
        pre = None
    ok = r is not None and unparse(r.value) == f"Base58.decode({ah.fi.params()[0]})[1:21]" and isinstance(pre, bytes) and len(pre) == 1
    ctx.ob("C06-D3/SYM", ok, ah.site(), "address_to_hash160 takes bytes [1:21]: after the 1-byte prefix, 20 bytes of hash160", detail=f"prefix {pre!r}", func=ah.fi.qualname)
    pa = ctx.fa("lbry.wallet.ledger.Ledger.public_key_to_address")
    r = R.single_return_value(pa)
    ctx.ob("C06-D3/SYM", r is not None and unparse(r.value) == "cls.hash160_to_address(hash160(public_key))", pa.site(), "a key's address is the address of hash160(public key)",
           func=pa.fi.qualname)
    h160 = ctx.fa("lbry.crypto.hash.hash160")
    r = R.single_return_value(h160)
    ctx.ob("C06-D3/CONST", r is not None and unparse(r.value) == f"ripemd160(sha256({h160.fi.params()[0]}))", h160.site(), "hash160 = RIPEMD-160 of SHA-256", func=h160.fi.qualname)


def chains(ctx, prog):
    gk = ctx.fa(f"{A}.HierarchicalDeterministic._generate_keys")
    q = gk.fi.qualname
    s, e = gk.fi.params()[1:3]
    ks = [x for x in gk.stmts(ast.Assign) if any(dotted(t) == "keys" for t in x.targets)]
    ok = len(ks) == 1 and unparse(ks[0].value) == f"[self.public_key.child(index) for index in range({s}, {e} + 1)]"
    ctx.ob("C06-D4/UNIT", ok, gk.site(), "keys start..end inclusive (range(start, end + 1)) are derived from the chain's public key", detail="" if ok else unparse(ks[0].value) if ks else "",
           func=q, key=f"C06-D4/UNIT|{q}|inclusive")
    rz = R.raise_kinds(gk)
    ok = any(gk.guarded(x, "not self.address_generator_lock.locked()")[0] for x, k in rz)
    ctx.ob("C06-D4/LOCK", ok, gk.site(), "_generate_keys refuses to run outside the address-generator lock", func=q)
    r = R.single_return_value(gk)
    ctx.ob("C06-D4/DEP", r is not None and unparse(r.value) == "[key.address for key in keys]", gk.site(), "the addresses returned are those keys', in order", func=q)
    n = 0
    for m, c in prog.calls_named("_generate_keys"):
        f = prog.function_of(c)
        if f is None or not isinstance(c.func, ast.Attribute):
            continue
        n += 1
        fa2 = ctx.eng.fa_of(f)
        recv = unparse(c.func.value)
        w = fa2.lexically_inside(c, lambda a: isinstance(a, ast.AsyncWith) and any(unparse(i.context_expr) == f"{recv}.address_generator_lock" for i in a.items))
        ctx.ob("C06-D4/LOCK", w is not None, fa2.site(c), f"`{recv}._generate_keys(…)` in {f.short} runs inside `async with {recv}.address_generator_lock` "
               f"(two generators racing would derive the same indexes twice / out of order)", func=f.qualname, key=f"C06-D4/LOCK|{f.qualname}|{recv}")
    ctx.floor("C06-D4/LOCK", "call sites of _generate_keys", n, 2)
    eg = ctx.fa(f"{A}.HierarchicalDeterministic.ensure_address_gap")
    gq = eg.fi.qualname
    call = eg.calls(dotted_name="self._generate_keys")
    ctx.floor("C06-D4/LOCK", "_generate_keys call in ensure_address_gap", len(call), 1, site=eg.site(), func=gq)
    for c in call:
        w = eg.lexically_inside(c, lambda a: isinstance(a, ast.AsyncWith) and any(unparse(i.context_expr) == "self.address_generator_lock" for i in a.items))
        ctx.ob("C06-D4/LOCK", w is not None, eg.site(c), "generation happens inside `async with self.address_generator_lock`", func=gq)
        ok = [unparse(a) for a in c.args] == ["start", "end - 1"]
        ctx.ob("C06-D4/UNIT", ok, eg.site(c), "called with (start, end − 1): end is exclusive here, inclusive there", func=gq)
    t = unparse(eg.node)
    ok = "start = addresses[0]['pubkey'].n + 1 if addresses else 0" in t and "end = start + (self.gap - existing_gap)" in t and \
        "addresses = await self._query_addresses(limit=self.gap, order_by='n desc')" in t
    ctx.ob("C06-D4/DEP", ok, eg.site(), "generation continues right after the highest existing index and adds exactly the missing gap", func=gq, key=f"C06-D4/DEP|{gq}|start-end")
    loops = eg.stmts(ast.For)
    ok = False
    if loops:
        b = loops[0].body
        ok = len(b) == 1 and isinstance(b[0], ast.If) and dotted(loops[0].iter) == "addresses"
        if ok:
            v = dotted(loops[0].target)
            t_, pol = terms.atom(b[0].test)
            unused, used = (b[0].body, b[0].orelse) if pol else (b[0].orelse, b[0].body)
            ok = t_ == terms.atom(ast.parse(f"{v}['used_times'] == 0", mode="eval").body)[0] and \
                [norm_text(x) for x in unused] == ["existing_gap += 1"] and [norm_text(x) for x in used] == ["break"]
    ctx.ob("C06-D4/DEP", ok, eg.site(), "the existing gap is the trailing run of unused addresses (counting stops at the first used one, newest first)", func=gq,
           key=f"C06-D4/DEP|{gq}|trailing-run")
    rets = [r for r in eg.stmts(ast.Return) if isinstance(r.value, ast.List) and not r.value.elts]
    ok = len(rets) == 1 and eg.guarded(rets[0], "existing_gap == self.gap")[0]
    ctx.ob("C06-D4/GATE", ok, eg.site(), "nothing is generated only when the gap is already complete", func=gq)
    hi = ctx.fa(f"{A}.HierarchicalDeterministic.__init__")
    ok = "super().__init__(account, account.public_key.child(chain), chain)" in unparse(hi.node)
    ctx.ob("C06-D4/DEP", ok, hi.site(), "a chain's public key is the account key's child number `chain` (0 receiving, 1 change)", func=hi.fi.qualname)
    for nm, expr in (("get_private_key", "self.account.private_key.child(self.chain_number).child(index)"), ("get_public_key", "self.account.public_key.child(self.chain_number).child(index)")):
        fa = ctx.fa(f"{A}.HierarchicalDeterministic.{nm}")
        r = R.single_return_value(fa)
        ctx.ob("C06-D4/SYM", r is not None and unparse(r.value) == expr, fa.site(), f"{nm}(index) walks account → chain → index", func=fa.fi.qualname)


def mnemonic(ctx, prog):
    en = ctx.fa("lbry.wallet.mnemonic.Mnemonic.mnemonic_encode")
    de = ctx.fa("lbry.wallet.mnemonic.Mnemonic.mnemonic_decode")
    i = en.fi.params()[1]
    te, td = unparse(en.node), unparse(de.node)
    ok = "n = len(self.words)" in te and f"x = {i} % n" in te and f"{i} = {i} // n" in te and "words.append(self.words[x])" in te and "return ' '.join(words)" in te and f"while {i}" in te
    ctx.ob("C06-D5/SYM", ok, en.site(), "encode: digits base len(words), least significant first, joined by single spaces", func=en.fi.qualname, key="C06-D5/SYM|encode")
    ok = "n = len(self.words)" in td and "words = seed.split()" in td and "word = words.pop()" in td and "k = self.words.index(word)" in td and "i = i * n + k" in td and \
        "while words" in td and "return i" in td
    ctx.ob("C06-D5/SYM", ok, de.site(), "decode: words are consumed from the end (most significant first) with i·n + index — the inverse loop", func=de.fi.qualname, key="C06-D5/SYM|decode")
    z = [x for x in de.stmts(ast.Assign) if any(dotted(t) == "i" for t in x.targets) and isinstance(x.value, ast.Constant)]
    ctx.ob("C06-D5/SYM", len(z) == 1 and is_const(z[0].value, 0) and not R.atomic_facts_at(de, z[0])[0], de.site(), "decode: the number starts at 0", func=de.fi.qualname, key="C06-D5/SYM|decode-init")
    z = [x for x in en.stmts(ast.Assign) if any(dotted(t) == "words" for t in x.targets)]
    ctx.ob("C06-D5/SYM", len(z) == 1 and isinstance(z[0].value, ast.List) and not z[0].value.elts, en.site(), "encode: the word list starts empty", func=en.fi.qualname, key="C06-D5/SYM|encode-init")
    nt = ctx.fa("lbry.wallet.mnemonic.normalize_text")
    p = nt.fi.params()[0]
    ws = [s for s in nt.stmts(ast.Assign) if isinstance(s.value, ast.Call) and unparse(s.value.func) == "' '.join" and s.value.args and
          isinstance(s.value.args[0], ast.Call) and call_name(s.value.args[0]) == "split"]
    ok = len(ws) == 1 and unparse(ws[0].value.args[0]) == f"{p}.split()"
    ctx.ob("C06-D5/SYM", ok, nt.site(), "whitespace normalisation is ' '.join(text.split()): every run of any whitespace (tabs, newlines) becomes one space before "
           "the seed is stretched", detail="" if ok else "; ".join(unparse(s.value)[:60] for s in ws), func=nt.fi.qualname, key="C06-D5/SYM|whitespace")
    ms = ctx.fa("lbry.wallet.mnemonic.Mnemonic.mnemonic_to_seed")
    t = unparse(ms.node)
    ok = "mnemonic = normalize_text(mnemonic)" in t and "passphrase = normalize_text(passphrase)" in t and "iterations=pbkdf2_rounds" in t and "digestmodule=hashlib.sha512" in t and \
        ".read(64)" in t and "pbkdf2_rounds = 2048" in t
    pk = [c for c in ms.calls(name="PBKDF2")]
    ok = ok and len(pk) == 1 and [dotted(a) for a in pk[0].args] == ms.fi.params()[:2] and dotted(kwarg(pk[0], "macmodule")) == "hmac"
    ctx.ob("C06-D5/DEP", ok, ms.site(), "the seed is PBKDF2-HMAC-SHA512(normalised mnemonic, normalised passphrase, 2048 rounds, 64 bytes)", func=ms.fi.qualname)


def base58_loops(ctx, dc, ec):
    """positional base-58 loops: start values, unconditional accumulation, leading-zero handling decided by the digit test alone"""
    def uncond(fa, node, allowed=()):
        have, _F = R.atomic_facts_at(fa, node)
        ok_terms = set()
        for g in allowed:
            ok_terms |= {t for t, _ in terms.parse_guard(g)}
        return not {k for k in have if k[0] not in ok_terms}
    prelude = ["isinstance(txt, memoryview)", "isinstance(txt, bytes)", "isinstance(txt, str)", "txt"]
    q = dc.fi.qualname
    txt = dc.fi.params()[1]
    prelude = [g.replace("txt", txt) for g in prelude]
    init = {dotted(x.targets[0]): x for x in dc.stmts(ast.Assign) if len(x.targets) == 1 and isinstance(x.targets[0], ast.Name) and isinstance(x.value, ast.Constant)}
    ok = "value" in init and is_const(init["value"].value, 0) and uncond(dc, init["value"], prelude) and "count" in init and is_const(init["count"].value, 0) and uncond(dc, init["count"], prelude)
    ctx.ob("C06-D3/LOOP", ok, dc.site(), "decode: the accumulated value and the leading-'1' count both start at 0", func=q, key=f"C06-D3/LOOP|{q}|init")
    acc = [x for x in dc.stmts(ast.Assign) if norm_text(x) == "value = value * 58 + cls.char_value(c)"]
    lp = dc.lexically_inside(acc[0], lambda a: isinstance(a, ast.For)) if acc else None
    ok = len(acc) == 1 and lp is not None and dotted(lp.iter) == txt and dotted(lp.target) == "c" and uncond(dc, acc[0], prelude) and not lp.orelse
    ctx.ob("C06-D3/LOOP", ok, dc.site(), "decode: every character of the text is accumulated, unconditionally, most significant first", func=q, key=f"C06-D3/LOOP|{q}|accumulate")
    inc = [x for x in dc.stmts(ast.AugAssign) if dotted(x.target) == "count"]
    brk = dc.stmts(ast.Break)
    ok = len(inc) == 1 and isinstance(inc[0].op, ast.Add) and is_const(inc[0].value, 1) and len(brk) == 1
    lp2 = dc.lexically_inside(inc[0], lambda a: isinstance(a, ast.For)) if inc else None
    ok = ok and lp2 is not None and dotted(lp2.iter) == txt and dc.lexically_inside(brk[0], lambda a: a is lp2) is not None
    ctx.ob("C06-D3/LOOP", ok, dc.site(), "decode: leading '1's are counted one by one over the same text", func=q, key=f"C06-D3/LOOP|{q}|count")
    if ok:
        v = dotted(lp2.target)
        R.exact_gate(ctx, "C06-D3/LOOP", dc, brk[0], f"{v} != '1'", "decode: counting stops exactly at the first character that is not '1'", ignore=prelude + [f"not {g}" for g in prelude],
                     key=f"C06-D3/LOOP|{q}|stop")
        R.exact_gate(ctx, "C06-D3/LOOP", dc, inc[0], f"{v} == '1'", "decode: …and every '1' before it counts", ignore=prelude + [f"not {g}" for g in prelude], key=f"C06-D3/LOOP|{q}|inc")
    pre = [x for x in dc.stmts(ast.Assign) if norm_text(x) == "result = bytes((0,)) * count + result"]
    ok = len(pre) == 1 and uncond(dc, pre[0], prelude + ["count"]) and (dc.guarded(pre[0], "count")[0] or uncond(dc, pre[0], prelude))
    ctx.ob("C06-D3/LOOP", ok, dc.site(), "decode: one zero byte per counted '1' is put in front (whenever the count is non-zero)", func=q, key=f"C06-D3/LOOP|{q}|prepend")
    r = R.single_return_value(dc)
    p = dc.path([dc.cfg.entry], [dc.cfg.exit], avoid=lambda n: n.kind == "return", include_exc=False)
    ok = r is not None and dotted(r.value) == "result" and p is None and bool(pre) and dc.always_reaches(pre[0], lambda n: n is r.value) is None
    ctx.ob("C06-D3/LOOP", ok, dc.site(), "decode returns that result on every path", func=q, key=f"C06-D3/LOOP|{q}|return")
    # encode
    q = ec.fi.qualname
    b = ec.fi.params()[1]
    init = [x for x in ec.stmts(ast.Assign) if any(dotted(t) == "txt" for t in x.targets)]
    ok = len(init) == 1 and is_const(init[0].value, "") and uncond(ec, init[0])
    ctx.ob("C06-D3/LOOP", ok, ec.site(), "encode: the text starts empty", func=q, key=f"C06-D3/LOOP|{q}|init")
    wl = ec.stmts(ast.While)
    ok = len(wl) == 1 and norm_text(wl[0].test) in ("value", "value > 0", "value != 0") and [norm_text(x) for x in wl[0].body] == ["value, mod = divmod(value, 58)", "txt += cls.chars[mod]"] \
        and not wl[0].orelse
    ctx.ob("C06-D3/LOOP", ok, ec.site(), "encode: digits are produced by divmod 58 until the value is exhausted", detail="" if ok else str([norm_text(x) for x in wl[0].body]) if wl else "", func=q,
           key=f"C06-D3/LOOP|{q}|digits")
    ones = [x for x in ec.stmts(ast.AugAssign) if dotted(x.target) == "txt" and is_const(x.value, "1")]
    brk = ec.stmts(ast.Break)
    lp = ec.lexically_inside(ones[0], lambda a: isinstance(a, ast.For)) if ones else None
    ok = len(ones) == 1 and len(brk) == 1 and lp is not None and dotted(lp.iter) == b and ec.lexically_inside(brk[0], lambda a: a is lp) is not None and \
        ec.must_precede(ones[0], lambda n: bool(wl) and n is wl[0].test) is None
    ctx.ob("C06-D3/LOOP", ok, ec.site(), "encode: after the digits, the input bytes are scanned for leading zeros", func=q, key=f"C06-D3/LOOP|{q}|zeros")
    if ok:
        v = dotted(lp.target)
        R.exact_gate(ctx, "C06-D3/LOOP", ec, brk[0], f"{v} != 0", "encode: the scan stops exactly at the first non-zero byte", ignore=["value", "not value"], key=f"C06-D3/LOOP|{q}|stop")
        R.exact_gate(ctx, "C06-D3/LOOP", ec, ones[0], f"{v} == 0", "encode: …and every zero byte before it gives one '1'", ignore=["value", "not value"], key=f"C06-D3/LOOP|{q}|one")
    r = R.single_return_value(ec)
    p = ec.path([ec.cfg.entry], [ec.cfg.exit], avoid=lambda n: n.kind == "return", include_exc=False)
    ctx.ob("C06-D3/LOOP", r is not None and norm_text(r.value) == "txt[::-1]" and p is None, ec.site(), "encode returns the reversed text on every path", func=q, key=f"C06-D3/LOOP|{q}|return")


def validators(ctx, prog):
    kb = ctx.fa(f"{K}._KeyBase.__init__")
    _, _l, cc, n, d, par = kb.fi.params()
    tb = [("chain code must be raw bytes", f"not isinstance({cc}, (bytes, bytearray))"), ("invalid chain code", f"len({cc}) != 32"),
          ("invalid child number", f"not 0 <= {n} < 1 << 32"), ("invalid depth", f"not 0 <= {d} < 256"),
          ("parent key has bad type", f"{par} is not None and not isinstance({par}, type(self))")]
    R.refusal_table(ctx, "C06-D2/VALID", kb, tb, "key constructor")
    sets = [norm_text(x) for x in kb.stmts(ast.Assign)]
    ok = all(f"self.{a} = {b}" in sets for a, b in (("chain_code", cc), ("n", n), ("depth", d), ("parent", par), ("ledger", _l)))
    ctx.ob("C06-D2/VALID", ok, kb.site(), "the validated chain code, child number, depth and parent are what the key stores", func=kb.fi.qualname)
    for x in kb.stmts(ast.Assign):
        if norm_text(x) == f"self.chain_code = {cc}":
            R.only_terms(ctx, "C06-D2/VALID", kb, x, [g for _m, g in tb], "…for every valid argument tuple", key="C06-D2/VALID|keybase|store-always")
    ek = ctx.fa(f"{K}._KeyBase._extended_key")
    _, vb, rk = ek.fi.params()
    te = [("ver_bytes must be raw bytes", f"not isinstance({vb}, (bytes, bytearray))"), ("ver_bytes must have length 4", f"len({vb}) != 4"),
          ("raw_serkey must be raw bytes", f"not isinstance({rk}, (bytes, bytearray))"), ("raw_serkey must have length 33", f"len({rk}) != 33")]
    R.refusal_table(ctx, "C06-D2/VALID", ek, te, "extended-key writer")
    for r in ek.stmts(ast.Return):
        R.only_terms(ctx, "C06-D2/VALID", ek, r, [g for _m, g in te], "the writer serialises every well-formed (version, key) pair", key="C06-D2/VALID|writer|always")
    fe = ctx.fa(f"{K}._from_extended_key")
    lg, e = fe.fi.params()
    tf = [("extended key must be raw bytes", f"not isinstance({e}, (bytes, bytearray))"), ("extended key must have length 78", f"len({e}) != 78"),
          ("invalid extended private key prefix byte", f"{e}[:4] == {lg}.extended_private_key_prefix and {e}[45] != 0"),
          ("version bytes unrecognised", f"not {e}[:4] == {lg}.extended_public_key_prefix and not {e}[:4] == {lg}.extended_private_key_prefix")]
    R.refusal_table(ctx, "C06-D2/VALID", fe, tf, "extended-key reader")
    for x in fe.stmts(ast.Assign):
        t = norm_text(x.value)
        if t.startswith("PublicKey("):
            R.exact_gate(ctx, "C06-D2/VALID", fe, x, f"{e}[:4] == {lg}.extended_public_key_prefix", "a public key is built exactly for the public version bytes",
                         ignore=[f"isinstance({e}, (bytes, bytearray))", f"len({e}) == 78"], key="C06-D2/VALID|reader|public")
        elif t.startswith("PrivateKey("):
            R.exact_gate(ctx, "C06-D2/VALID", fe, x, f"not {e}[:4] == {lg}.extended_public_key_prefix and {e}[:4] == {lg}.extended_private_key_prefix and {e}[45] == 0",
                         "a private key is built exactly for the private version bytes with a zero pad byte",
                         ignore=[f"isinstance({e}, (bytes, bytearray))", f"len({e}) == 78"], key="C06-D2/VALID|reader|private")
    r = R.single_return_value(fe)
    p = fe.path([fe.cfg.entry], [fe.cfg.exit], avoid=lambda n: n.kind == "return", include_exc=False)
    ctx.ob("C06-D2/VALID", r is not None and dotted(r.value) == "key" and p is None, fe.site(), "the reader returns the key it built on every accepting path", func=fe.fi.qualname)
    for qn, lim in ((f"{K}.PublicKey.child", "1 << 31"), (f"{K}.PrivateKey.child", "1 << 32")):
        ch = ctx.fa(qn)
        nn = ch.fi.params()[1]
        R.refusal_table(ctx, "C06-D1/VALID", ch, [("invalid BIP32", f"not 0 <= {nn} < {lim}")], f"{ch.fi.qualname.split('.')[-2]}.child", allow_other=True)
    # key generation bookkeeping
    gk = ctx.fa(f"{A}.HierarchicalDeterministic._generate_keys")
    R.refusal_table(ctx, "C06-D4/VALID", gk, [("Should not be called outside", "not self.address_generator_lock.locked()")], "_generate_keys")
    ok = any(norm_text(c) == "self.account.ledger.db.add_keys(self.account, self.chain_number, keys)" and isinstance(c._parent, ast.Await) and
             not R.atomic_facts_at(gk, c)[0] - {("self.address_generator_lock.locked()", True)} for c in gk.calls(name="add_keys"))
    ctx.ob("C06-D4/DEP", ok, gk.site(), "every derived key is stored for this account and chain (the stored keys are what later sessions list, in index order)", func=gk.fi.qualname,
           key="C06-D4/DEP|generate|stored")
    eg = ctx.fa(f"{A}.HierarchicalDeterministic.ensure_address_gap")
    q = eg.fi.qualname
    z = [x for x in eg.stmts(ast.Assign) if any(dotted(t) == "existing_gap" for t in x.targets)]
    ctx.ob("C06-D4/DEP", len(z) == 1 and is_const(z[0].value, 0), eg.site(), "the existing gap is counted from 0", func=q, key=f"C06-D4/DEP|{q}|gap-init")
    for r in eg.stmts(ast.Return):
        if isinstance(r.value, ast.List) and not r.value.elts:
            R.exact_gate(ctx, "C06-D4/GATE", eg, r, "existing_gap == self.gap", "…and skipped exactly then", key=f"C06-D4/GATE|{q}|skip-exact")
    an = [c for c in eg.calls(name="announce_addresses")]
    ok = len(an) == 1 and norm_text(an[0]) == "self.account.ledger.announce_addresses(self, new_keys)" and isinstance(an[0]._parent, ast.Await) and \
        [norm_text(x.value) for x in eg.stmts(ast.Assign) if any(dotted(t) == "new_keys" for t in x.targets)] == ["await self._generate_keys(start, end - 1)"] and \
        any(dotted(r.value) == "new_keys" for r in eg.stmts(ast.Return))
    ctx.ob("C06-D4/DEP", ok, eg.site(), "the generated addresses are announced to the ledger (which subscribes them) and returned", func=q, key=f"C06-D4/DEP|{q}|announce")
