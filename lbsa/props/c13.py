"""C13 — wallet secrets: encryption round trip, wrong password refused, atomic save."""
import ast

from .. import AnalysisError
from ..astutil import dotted, call_name, unparse, norm_text, walk_local_body, kwarg, is_const
from ..consteval import Evaluator, Unknown
from ..exc import Hierarchy, handler_names
from .. import rules as R
from .. import terms

EXPLANATION = (
    "Ordering, taint and sibling-agreement analysis of the wallet secret handling. Atomic save "
    "(WalletStorage.write): the complete JSON is written to a temp file that lives next to the wallet and is "
    "opened truncating, then flushed and fsync'ed, before the single os.replace/rename onto the wallet path; the "
    "wallet path itself is never opened for writing, truncated or removed (every call that names it is on an "
    "allow-list); only Wallet.save calls it. No plaintext when encrypting: in Account.to_dict, on every path on "
    "which an encryption password is given for an unencrypted account, the values stored under 'seed' and "
    "'private_key' are aes_encrypt results or falsy; Account.encrypt replaces seed/private key by ciphertext "
    "before it sets encrypted; Wallet.save cannot reach the plain to_dict() write while encrypt-on-disk is set "
    "and a password is known, and only resets that preference for an unlocked wallet. Wrong password leaves state "
    "unchanged: Account.decrypt assigns its four fields only after both decrypt steps returned, and Wallet.unlock "
    "records the password only after every account decrypted; passwords are passed through unmodified from "
    "encrypt/unlock down to the key derivation. Cipher siblings agree on key derivation, cipher/mode/padding "
    "objects and the iv‖ciphertext / scrypt-header layout."
)
EXACTNESS = "Second pass (DESIGN.md §10, exactness / completeness halves) — every secret that exists is written / encrypted / restored under exactly the functions' own tests; state flags change unconditionally on the success path; `aes_decrypt` returns or raises; wallet unlock / lock / encrypt / save / is_locked effects."
TECHNIQUE = "static analysis: must-precede ordering, allow-listed effects on the destination path, path-sensitive plaintext taint, who-may-write, sibling (encrypt/decrypt) agreement; exact fact-set comparison of the tests dominating each effect and refusal (effect / refusal tables), fall-through path queries"
NOT_DECIDED = ("ciphertext↔plaintext round trips and 'any other password fails' (probabilistic: a wrong key can yield valid padding), zlib/json "
               "behaviour of pack/unpack, file-system atomicity of os.replace itself")
ASSUMPTIONS = ["os.replace / os.rename within one directory is atomic; fsync makes the temp file durable",
               "channel certificate keys ('certificates') are outside the statement (it speaks of seed and account private key)"]

WS = "lbry.wallet.wallet.WalletStorage"
W = "lbry.wallet.wallet.Wallet"
A = "lbry.wallet.account.Account"
CR = "lbry.crypto.crypt"


def check(ctx):
    prog = ctx.prog
    ev = Evaluator(prog)
    hier = Hierarchy(prog)
    atomic_save(ctx, prog)
    no_plaintext(ctx, prog)
    wrong_password(ctx, prog, hier)
    passthrough(ctx, prog)
    siblings(ctx, prog, ev, hier)


# ---------------------------------------------------------------------------------------------- D1
def atomic_save(ctx, prog):
    fa = ctx.fa(f"{WS}.write")
    q = fa.fi.qualname
    jparam = fa.fi.params()[1]
    tmp = R.one_name(ctx, "C13-D1/ORDER", fa, lambda v: any(dotted(n) == "self.path" for n in ast.walk(v)) and
                     (isinstance(v, ast.Call) or isinstance(v, (ast.JoinedStr, ast.BinOp))), "the temp file path")
    if tmp is None:
        return
    tdef = [s for s in fa.stmts(ast.Assign) if any(dotted(t) == tmp for t in s.targets)][0]
    v = tdef.value
    prefix_ok = False
    if isinstance(v, ast.Call) and call_name(v) == "format" and isinstance(v.func.value, ast.Constant) and v.args:
        prefix_ok = v.func.value.value.startswith("{}") and dotted(v.args[0]) == "self.path" and "/" not in v.func.value.value
    elif isinstance(v, ast.JoinedStr) and v.values and isinstance(v.values[0], ast.FormattedValue):
        prefix_ok = dotted(v.values[0].value) == "self.path" and not any(isinstance(x, ast.Constant) and "/" in str(x.value) for x in v.values)
    elif isinstance(v, ast.BinOp) and isinstance(v.op, ast.Add):
        prefix_ok = dotted(v.left) == "self.path"
    ctx.ob("C13-D1/DEP", prefix_ok, fa.site(tdef), "the temp file is the wallet path plus a suffix (same directory, same file system)",
           detail="" if prefix_ok else norm_text(tdef), func=q)
    opens = [c for c in fa.calls() if call_name(c) in ("open", "fdopen") or dotted(c.func) == "os.open"]
    topen = [c for c in opens if c.args and dotted(c.args[0]) == tmp]
    ok = len(topen) == 1 and dotted(topen[0].func) == "open" and len(topen[0].args) >= 2 and is_const(topen[0].args[1]) and \
        topen[0].args[1].value in ("w", "wb", "wt")
    ctx.ob("C13-D1/ORDER", ok, fa.site(topen[0]) if topen else fa.site(), "the temp file is opened with open(temp, 'w'): created and truncated (a stale "
           "temp file of an earlier crashed save cannot leak its tail into the wallet)", detail="" if ok else "; ".join(unparse(c)[:70] for c in opens),
           func=q, key=f"C13-D1/ORDER|{q}|truncate")
    wr = [c for c in fa.calls(name="write") if isinstance(c.func, ast.Attribute) and not dotted(c.func).startswith("self.")]
    fl = [c for c in fa.calls(name="flush")]
    fs = [c for c in fa.calls(dotted_name="os.fsync")]
    mv = [c for c in fa.calls() if dotted(c.func) in ("os.replace", "os.rename") and len(c.args) == 2]
    ctx.floor("C13-D1/ORDER", "write / flush / fsync / replace in WalletStorage.write", min(len(wr), len(fl), len(fs), len(mv)), 1, site=fa.site(), func=q)
    if not (wr and fl and fs and mv):
        return
    data = R.names_defined_by(fa, lambda x: isinstance(x, ast.Call) and dotted(x.func) == "json.dumps" and x.args and dotted(x.args[0]) == jparam)
    ctx.ob("C13-D1/DEP", bool(data) and dotted(wr[0].args[0]) in data, fa.site(wr[0]), "what is written is the complete json.dumps of the wallet dict",
           func=q)
    fvar = None
    w = fa.lexically_inside(wr[0], lambda a: isinstance(a, ast.With))
    if w is not None and w.items and w.items[0].optional_vars is not None:
        fvar = dotted(w.items[0].optional_vars)
    ctx.ob("C13-D1/DEP", fvar is not None and dotted(wr[0].func.value) == fvar and dotted(fl[0].func.value) == fvar
           and unparse(fs[0].args[0]) == f"{fvar}.fileno()", fa.site(wr[0]), "write, flush and fsync all act on the temp file handle", func=q)
    ctx.ob("C13-D1/ORDER", len(mv) == 1, fa.site(mv[0]), "there is exactly one rename/replace (no remove-then-rename fallback)",
           detail="" if len(mv) == 1 else f"{len(mv)} rename/replace calls", func=q, key=f"C13-D1/ORDER|{q}|single-rename")
    for m in mv:
        ok = dotted(m.args[0]) == tmp and dotted(m.args[1]) == "self.path"
        ctx.ob("C13-D1/DEP", ok, fa.site(m), "the temp file is moved onto the wallet path", detail=unparse(m), func=q)
        for first, what in ((wr, "written"), (fl, "flushed"), (fs, "fsync'ed")):
            p = fa.must_precede(m, lambda n, first=first: n in first)
            ctx.ob("C13-D1/ORDER", p is None, fa.site(m), f"the temp file is {what} before it replaces the wallet file",
                   detail="" if p is None else "path " + fa.fmt_path(p), func=q, key=f"C13-D1/ORDER|{q}|{what}-before-rename")
        # flush before fsync, write before flush
    okseq = fa.must_precede(fs[0], lambda n: n in fl) is None and fa.must_precede(fl[0], lambda n: n in wr) is None
    ctx.ob("C13-D1/ORDER", okseq, fa.site(fs[0]), "order is write → flush → fsync", func=q)
    # every save to a path ends in the rename
    p = fa.path([fa.cfg.entry], [fa.cfg.exit], avoid=lambda n: fa.evaluates(n, lambda s: s in mv), assume=("self.path is not None",),
                include_exc=False)
    ctx.ob("C13-D1/ORDER", p is None, fa.site(), "with a path set, every normal return has replaced the wallet file", func=q)
    # the destination is only touched through the allow-list
    ALLOW = {"os.path.exists": (0,), "os.stat": (0,), "os.replace": (1,), "os.rename": (1,), "os.chmod": (0,), "os.path.dirname": (0,),
             "os.path.isfile": (0,), "os.getpid": ()}
    n = 0
    for c in fa.calls():
        for i, a in enumerate(c.args):
            if dotted(a) == "self.path":
                n += 1
                d = dotted(c.func) or unparse(c.func)
                ok = d in ALLOW and i in ALLOW[d] or (d.endswith(".format") and True)
                ctx.ob("C13-D1/EFFECT", ok, fa.site(c), f"the wallet path is only stat'ed, chmod'ed or the target of the rename: `{d}(… self.path …)`",
                       detail="" if ok else "the destination must never be opened for writing, truncated or removed (a crash right after leaves no wallet)",
                       func=q, key=f"C13-D1/EFFECT|{q}|{d}|{i}")
    ctx.floor("C13-D1/EFFECT", "uses of self.path in write", n, 3, site=fa.site(), func=q)
    # who saves
    sites = [(m, c) for m, c in prog.calls_named("write") if isinstance(c.func, ast.Attribute) and (dotted(c.func) or "").endswith("storage.write")]
    ctx.floor("C13-D1/CALLERS", "storage.write call sites", len(sites), 1)
    for m, c in sites:
        f = prog.function_of(c)
        ok = f is not None and f.qualname == f"{W}.save"
        ctx.ob("C13-D1/CALLERS", ok, f"{m.relpath}:{c.lineno}", "the wallet file is written only by Wallet.save", func=getattr(f, "qualname", None))


# ---------------------------------------------------------------------------------------------- D2
def no_plaintext(ctx, prog):
    fa = ctx.fa(f"{A}.to_dict")
    q = fa.fi.qualname
    pw = fa.fi.params()[1]
    dicts = [d for d in fa.local_nodes(ast.Dict) if any(is_const(k, "seed") for k in d.keys) and any(is_const(k, "private_key") for k in d.keys)]
    ctx.floor("C13-D2/TAINT", "result dict of Account.to_dict", len(dicts), 1, site=fa.site(), func=q)
    assume = (pw, "not self.encrypted")
    F = fa.facts(assume)
    for d in dicts:
        vals = {k.value: v for k, v in zip(d.keys, d.values) if isinstance(k, ast.Constant)}
        for key in ("seed", "private_key"):
            v = vals.get(key)
            var = dotted(v)
            ok, detail = False, f"value under '{key}' is `{unparse(v)}`, not a local"
            if var and "." not in var:
                enc = [s for s in fa.stmts(ast.Assign) if any(dotted(t) == var for t in s.targets) and isinstance(s.value, ast.Call)
                       and call_name(s.value) == "aes_encrypt" and s.value.args and dotted(s.value.args[0]) == pw]
                enc_nodes = {n.id for s in enc for n in fa.cfg_nodes(s)}
                falsy = terms.atom(ast.parse(var, mode="eval").body)
                targets = fa.cfg_nodes(d)
                p = fa.path([fa.cfg.entry], targets, avoid=lambda n: n.id in enc_nodes, assume=assume,
                            edge_ok=lambda e: not any(l.term == falsy[0] and l.pol is False for l in e.labels))
                ok = bool(enc) and p is None
                detail = "" if ok else (f"no `{var} = aes_encrypt({pw}, …)`" if not enc else "plaintext path " + fa.fmt_path(p))
                # what is encrypted is the secret itself
                for s in enc:
                    src = unparse(s.value.args[1]) if len(s.value.args) > 1 else ""
                    good = src in ((var, "self.seed") if key == "seed" else (var, "self.private_key.extended_key_string()"))
                    ctx.ob("C13-D2/DEP", good, fa.site(s), f"the ciphertext under '{key}' encrypts that secret", detail=src, func=q)
            ctx.ob("C13-D2/TAINT", ok, fa.site(d), f"when a password is given for an unencrypted account, '{key}' is written as aes_encrypt(...) "
                   f"output or an empty value on every path", detail=detail, func=q, key=f"C13-D2/TAINT|{q}|{key}")
        e = vals.get("encrypted")
        ok = e is not None and unparse(e) == f"bool(self.encrypted or {pw})"
        ctx.ob("C13-D2/DEP", ok, fa.site(d), "the dict is flagged encrypted exactly when its secrets are ciphertext", func=q)
    # encrypt(): ciphertext replaces the secrets before encrypted = True
    en = ctx.fa(f"{A}.encrypt")
    eq = en.fi.qualname
    epw = en.fi.params()[1]
    flag = [s for s in en.stmts(ast.Assign) if any(dotted(t) == "self.encrypted" for t in s.targets) and is_const(s.value, True)]
    ctx.floor("C13-D2/ORDER", "self.encrypted = True in Account.encrypt", len(flag), 1, site=en.site(), func=eq)
    seeds = [s for s in en.stmts(ast.Assign) if any(dotted(t) == "self.seed" for t in s.targets)]
    oks = len(seeds) == 1 and isinstance(seeds[0].value, ast.Call) and call_name(seeds[0].value) == "aes_encrypt" and \
        [unparse(a) for a in seeds[0].value.args[:2]] == [epw, "self.seed"]
    ctx.ob("C13-D2/TAINT", oks, en.site(), "Account.encrypt replaces the seed by its ciphertext", func=eq)
    pk = [s for s in en.stmts(ast.Assign) if any(dotted(t) == "self.private_key_string" for t in s.targets)]
    okp = len(pk) == 1 and isinstance(pk[0].value, ast.Call) and call_name(pk[0].value) == "aes_encrypt" and \
        [unparse(a) for a in pk[0].value.args[:2]] == [epw, "self.private_key.extended_key_string()"]
    ctx.ob("C13-D2/TAINT", okp, en.site(), "and stores the private key only as ciphertext", func=eq)
    none = [s for s in en.stmts(ast.Assign) if any(dotted(t) == "self.private_key" for t in s.targets) and is_const(s.value, None)]
    for f in flag:
        if seeds:
            sn = {n.id for n in en.cfg_nodes(seeds[0])}
            p = en.path([en.cfg.entry], en.cfg_nodes(f), avoid=lambda n: n.id in sn,
                        edge_ok=lambda e: not any(l.term == "self.seed" and l.pol is False for l in e.labels))
            ctx.ob("C13-D2/ORDER", p is None, en.site(f), "a non-empty seed is always encrypted before the account is flagged encrypted", func=eq)
        if none:
            nn = {n.id for n in en.cfg_nodes(none[0])}
            p = en.path([en.cfg.entry], en.cfg_nodes(f), avoid=lambda n: n.id in nn,
                        edge_ok=lambda e: not any("isinstance(self.private_key, PrivateKey)" in l.term and l.pol is False for l in e.labels))
            ctx.ob("C13-D2/ORDER", p is None, en.site(f), "the plaintext private key object is dropped before the account is flagged encrypted", func=eq)
        else:
            ctx.ob("C13-D2/ORDER", False, en.site(f), "mechanism present: self.private_key = None in encrypt", func=eq)
    R.writers_only(ctx, "C13-D2/WRITERS", "encrypted", [f"{A}.__init__", f"{A}.encrypt", f"{A}.decrypt"], "account encrypted flag", floor=3,
                   recv_filter=lambda m, recv, f: m.name == "lbry.wallet.account", kinds=("assign",))
    # Wallet.save / to_dict
    sv = ctx.fa(f"{W}.save")
    sq = sv.fi.qualname
    writes = sv.calls(dotted_name="self.storage.write")
    plain = [c for c in writes if c.args and unparse(c.args[0]) == "self.to_dict()"]
    enc = [c for c in writes if c.args and unparse(c.args[0]) == "self.to_dict(encrypt_password=self.encryption_password)"]
    ctx.ob("C13-D2/GATE", len(plain) == 1 and len(enc) == 1 and len(writes) == 2, sv.site(), "save has one encrypted and one plain write", func=sq)
    Fs = sv.facts(("self.preferences.get(ENCRYPT_ON_DISK, False)", "self.encryption_password is not None"))
    for c in plain:
        reach = any(Fs.reachable(n) for n in sv.cfg_nodes(c))
        ctx.ob("C13-D2/GATE", not reach, sv.site(c), "with encrypt-on-disk set and a password known, the plain to_dict() write is unreachable",
               func=sq, key=f"C13-D2/GATE|{sq}|plain-unreachable")
    for c in enc:
        R.gate(ctx, "C13-D2/GATE", sv, c, "self.preferences.get(ENCRYPT_ON_DISK, False) and self.encryption_password is not None",
               "the encrypted write uses the known password", key=f"C13-D2/GATE|{sq}|enc")
    resets = [s for s in sv.stmts(ast.Assign) if any(unparse(t) == "self.preferences[ENCRYPT_ON_DISK]" for t in s.targets)]
    for s in resets:
        R.gate(ctx, "C13-D2/GATE", sv, s, "not self.is_locked", "the encrypt-on-disk preference is dropped only for an unlocked wallet (a locked wallet "
               "without password is saved as the ciphertext it holds and stays encrypted)", key=f"C13-D2/GATE|{sq}|reset-unlocked")
    prefs = []
    for m, node, kind, recv in prog.attr_writes("preferences"):
        if m.name == "lbry.wallet.wallet" and kind.startswith("item") and "ENCRYPT_ON_DISK" in unparse(node):
            f = prog.function_of(node)
            prefs.append((node, f))
            ok = f is not None and f.qualname in (f"{W}.save", f"{W}.decrypt", f"{W}.encrypt")
            ctx.ob("C13-D2/WRITERS", ok, f"{m.relpath}:{node.lineno}", "encrypt-on-disk preference written only by save / decrypt / encrypt",
                   func=getattr(f, "qualname", None))
    wd = ctx.fa(f"{W}.to_dict")
    ok = f"[a.to_dict({wd.fi.params()[1]}) for a in self.accounts]" in unparse(wd.node)
    ctx.ob("C13-D2/DEP", ok, wd.site(), "Wallet.to_dict hands the password to every account", func=wd.fi.qualname)


# ---------------------------------------------------------------------------------------------- D3
def wrong_password(ctx, prog, hier):
    de = ctx.fa(f"{A}.decrypt")
    q = de.fi.qualname
    pw = de.fi.params()[1]
    calls = [de.calls(dotted_name="self._decrypt_seed"), de.calls(dotted_name="self._decrypt_private_key_string")]
    ctx.floor("C13-D3/ORDER", "both decrypt steps in Account.decrypt", min(len(c) for c in calls), 1, site=de.site(), func=q)
    fields = ("seed", "private_key", "private_key_string", "encrypted")
    writes = [s for s in de.stmts(ast.Assign) if any(dotted(t) in {f"self.{f}" for f in fields} for t in s.targets)]
    ctx.ob("C13-D3/ORDER", len(writes) == 4, de.site(), "decrypt assigns seed, private_key, private_key_string and encrypted", func=q)
    for s in writes:
        for cs in calls:
            p = de.must_precede(s, lambda n, cs=cs: n in cs)
            ctx.ob("C13-D3/ORDER", p is None, de.site(s), f"`{norm_text(s)}` happens only after {call_name(cs[0]) if cs else '?'} returned",
                   detail="" if p is None else "path " + de.fmt_path(p), func=q, key=f"C13-D3/ORDER|{q}|{dotted(s.targets[0])}|after|{call_name(cs[0]) if cs else ''}")
        simple = isinstance(s.value, (ast.Name, ast.Constant))
        ctx.ob("C13-D3/ORDER", simple, de.site(s), "the assignment itself cannot fail (plain name / constant)", func=q)
    # the failing exits return False from handlers that cover InvalidPasswordError and ValueError
    for cs in calls:
        for c in cs:
            tr = de.lexically_inside(c, lambda a: isinstance(a, ast.Try))
            ok = False
            if tr is not None:
                names = [n for h in tr.handlers for n in handler_names(h)]
                ok = hier.catches(names, "lbry.error.InvalidPasswordError", de.fi.module) and hier.catches(names, "ValueError", de.fi.module) and \
                    all(len(h.body) == 1 and isinstance(h.body[0], ast.Return) and is_const(h.body[0].value, False) for h in tr.handlers)
            ctx.ob("C13-D3/EXC", ok, de.site(c), "a wrong password (InvalidPasswordError / ValueError) makes decrypt return False", func=q)
            ctx.ob("C13-D3/DEP", len(c.args) == 1 and dotted(c.args[0]) == pw, de.site(c), "the step uses the password given", func=q)
    un = ctx.fa(f"{W}.unlock")
    uq = un.fi.qualname
    upw = un.fi.params()[1]
    setp = [s for s in un.stmts(ast.Assign) if any(dotted(t) == "self.encryption_password" for t in s.targets)]
    ctx.floor("C13-D3/ORDER", "password recorded in unlock", len(setp), 1, site=un.site(), func=uq)
    loops = un.stmts(ast.For)
    for s in setp:
        after_loop = bool(loops) and un.lexically_inside(s, lambda a: isinstance(a, (ast.For, ast.While))) is None and \
            un.must_precede(s, lambda n: n is loops[0].iter) is None
        ok = after_loop or un.guarded(s, f"account.decrypt({upw})")[0]
        ctx.ob("C13-D3/ORDER", ok, un.site(s), "the password is recorded only for an account it has just decrypted, or after the loop over all accounts finished "
               "(a refused password records nothing)", func=uq, key=f"C13-D3/ORDER|{uq}|store|{'after' if after_loop else 'in'}-loop")
    fr = [r for r in un.stmts(ast.Return) if is_const(r.value, False)]
    ok = bool(fr) and all(un.guarded(r, f"account.encrypted and not account.decrypt({upw})")[0] for r in fr)
    ctx.ob("C13-D3/GATE", ok, un.site(), "unlock stops with False at the first account the password does not decrypt", func=uq)


# ---------------------------------------------------------------------------------------------- passwords are not rewritten
def passthrough(ctx, prog):
    spec = [(f"{W}.encrypt", 1), (f"{W}.unlock", 1), (f"{A}.encrypt", 1), (f"{A}.decrypt", 1), (f"{A}._decrypt_seed", 1),
            (f"{A}._decrypt_private_key_string", 1), (f"{CR}.aes_encrypt", 0), (f"{CR}.aes_decrypt", 0),
            (f"{CR}.better_aes_encrypt", 0), (f"{CR}.better_aes_decrypt", 0)]
    for qn, idx in spec:
        fa = ctx.fa(qn)
        p = fa.fi.params()[idx]
        redefs = [d for n in fa.cfg.nodes for d in fa.rd.defs_at[n.id] if d.name == p]
        uses = [n for n in fa.local_nodes(ast.Name) if n.id == p and isinstance(n.ctx, ast.Load)]
        odd = []
        for u in uses:
            par = u._parent
            if isinstance(par, ast.Call) and (u in par.args or any(k.value is u for k in par.keywords)):
                continue                                     # passed on as an argument
            if isinstance(par, ast.Attribute) and par.attr == "encode" and isinstance(par._parent, ast.Call):
                continue                                     # key derivation input
            if isinstance(par, (ast.Assign,)) and par.value is u:
                continue                                     # stored as is
            if isinstance(par, (ast.Assert, ast.If, ast.BoolOp, ast.UnaryOp, ast.Compare, ast.IfExp)):
                continue                                     # tested, not transformed
            odd.append(u)
        ok = not redefs and not odd
        ctx.ob("C13-D3/DEP", ok, fa.site(), f"{fa.fi.short}: the password `{p}` is used exactly as given (never stripped, re-assigned or transformed)",
               detail="" if ok else "; ".join([f"L{d.node.lineno}: {norm_text(d.node.ast)[:60]}" for d in redefs] +
                                              [f"L{u.lineno}: {unparse(u._parent)[:60]}" for u in odd]),
               func=fa.fi.qualname, key=f"C13-D3/DEP|{fa.fi.qualname}|password-as-given")
    we = ctx.fa(f"{W}.encrypt")
    s = [x for x in we.stmts(ast.Assign) if any(dotted(t) == "self.encryption_password" for t in x.targets)]
    ctx.ob("C13-D3/DEP", len(s) == 1 and dotted(s[0].value) == we.fi.params()[1], we.site(), "Wallet.encrypt records the password it was given", func=we.fi.qualname)
    wu = ctx.fa(f"{W}.unlock")
    s = [x for x in wu.stmts(ast.Assign) if any(dotted(t) == "self.encryption_password" for t in x.targets)]
    ctx.ob("C13-D3/DEP", len(s) >= 1 and all(dotted(x.value) == wu.fi.params()[1] for x in s), wu.site(), "Wallet.unlock records the password it was given", func=wu.fi.qualname)
    lk = ctx.fa(f"{W}.lock")
    ok = any(unparse(c) == "account.encrypt(self.encryption_password)" for c in lk.calls(name="encrypt"))
    ctx.ob("C13-D3/DEP", ok, lk.site(), "lock re-encrypts with the recorded password", func=lk.fi.qualname)


# ---------------------------------------------------------------------------------------------- D4
def _abstract_cipher(fa):
    """facts about one side of a cipher pair"""
    out = {}
    for s in fa.stmts(ast.Assign):
        for t in s.targets:
            d = dotted(t)
            if d == "key":
                out["key"] = unparse(s.value)
    ciph = [c for c in fa.calls(name="Cipher")]
    out["cipher"] = [unparse(a) for a in ciph[0].args[:2]] if ciph else None
    pk = [c for c in fa.calls(name="PKCS7")]
    out["padding"] = unparse(pk[0]) if pk else None
    out["padder"] = [call_name(c) for c in fa.calls() if call_name(c) in ("padder", "unpadder")]
    out["dir"] = [call_name(c) for c in fa.calls() if call_name(c) in ("encryptor", "decryptor")]
    return out


def siblings(ctx, prog, ev, hier):
    for enc, dec, keyexpr in ((f"{CR}.aes_encrypt", f"{CR}.aes_decrypt", "double_sha256(secret.encode())"),
                              (f"{CR}.better_aes_encrypt", f"{CR}.better_aes_decrypt", None)):
        e, d = ctx.fa(enc), ctx.fa(dec)
        ae, ad = _abstract_cipher(e), _abstract_cipher(d)
        ok = ae["cipher"] == ad["cipher"] == ["AES(key)", "modes.CBC(init_vector)"]
        ctx.ob("C13-D4/SYM", ok, e.site(), f"{e.fi.name}/{d.fi.name}: same cipher and mode (AES-CBC keyed by `key`, iv `init_vector`)",
               detail="" if ok else f"{ae['cipher']} vs {ad['cipher']}", func=e.fi.qualname)
        ok = ae["padding"] == ad["padding"] == "PKCS7(AES.block_size)" and ae["padder"] == ["padder"] and ad["padder"] == ["unpadder"] and \
            ae["dir"] == ["encryptor"] and ad["dir"] == ["decryptor"]
        ctx.ob("C13-D4/SYM", ok, e.site(), f"{e.fi.name}/{d.fi.name}: PKCS7 padder ↔ unpadder, encryptor ↔ decryptor", func=e.fi.qualname)
        if keyexpr:
            ok = ae["key"] == ad["key"] == keyexpr
            ctx.ob("C13-D4/SYM", ok, e.site(), f"{e.fi.name}/{d.fi.name}: both derive the key as {keyexpr}", detail=f"{ae['key']} vs {ad['key']}",
                   func=e.fi.qualname)
        # layout iv || ciphertext <-> [:16] / [16:]
        ret = [r for r in e.stmts(ast.Return)]
        lay_w = any("init_vector + encrypted_data" in unparse(r.value) and "b64encode" in unparse(r.value) for r in ret)
        td = unparse(d.node)
        lay_r = "init_vector, data = (data[:16], data[16:])" in td and "b64decode" in td
        ctx.ob("C13-D4/SYM", lay_w and lay_r, e.site(), f"{e.fi.name}/{d.fi.name}: layout base64(iv ‖ ciphertext) ↔ [:16] / [16:]", func=e.fi.qualname)
        # padding failure -> InvalidPasswordError
        rk = [k for x, k in R.raise_kinds(d)]
        ctx.ob("C13-D4/EXC", "InvalidPasswordError" in rk, d.site(), f"{d.fi.name}: a padding failure is reported as InvalidPasswordError", func=d.fi.qualname)
        # data flow: padder output feeds the encryptor; decryptor output feeds the unpadder
        te = unparse(e.node)
        ok = "encryptor.update(padded_data) + encryptor.finalize()" in te and "padder.update(" in te and "+ padder.finalize()" in te and \
            "unpadder.update(decryptor.update(data)" in td and "unpadder.finalize()" in td and "decryptor.finalize()" in td or \
            ("unpadder.update(decryptor.update(data)) + unpadder.finalize()" in td)
        ctx.ob("C13-D4/SYM", ok, e.site(), f"{e.fi.name}/{d.fi.name}: pad → encrypt and decrypt → unpad, each with update()+finalize()", func=e.fi.qualname)
    # iv length
    e = ctx.fa(f"{CR}.aes_encrypt")
    te = unparse(e.node)
    ctx.ob("C13-D4/SYM", "assert len(init_vector) == 16" in te and "init_vector = os.urandom(16)" in te, e.site(), "the iv is 16 bytes (given or random)",
           func=e.fi.qualname)
    # scrypt header == scrypt defaults
    sc = prog.func(f"{CR}.scrypt")
    be = ctx.fa(f"{CR}.better_aes_encrypt")
    bd = ctx.fa(f"{CR}.better_aes_decrypt")
    hdr = [n.value for n in be.local_nodes(ast.Constant) if isinstance(n.value, bytes) and n.value.startswith(b"s:")]
    try:
        defs = [ev.eval_in_module(sc.module, x) for x in sc.node.args.defaults]
    except Unknown:
        defs = None
    ok = len(hdr) == 1 and defs is not None and hdr[0] == b"s:%d:%d:%d:" % tuple(defs[-3:])
    ctx.ob("C13-D4/SYM", ok, be.site(), "the scrypt parameters written in the header are the ones the key was derived with (scrypt defaults)",
           detail="" if ok else f"header {hdr} vs defaults {defs}", func=be.fi.qualname)
    tb, td = unparse(be.node), unparse(bd.node)
    ok = "scrypt(secret.encode(), salt=init_vector)" in tb and "scrypt(secret.encode(), init_vector, int(scryp_n), int(scrypt_r), int(scrypt_p))" in td \
        and "data.split(b':', maxsplit=4)" in td
    ctx.ob("C13-D4/SYM", ok, be.site(), "both sides derive the key with scrypt(secret, salt=iv, n, r, p) — the reader from the header fields", func=be.fi.qualname)
    ks = [k.value for c in ctx.fa(f"{CR}.scrypt").calls(name="Scrypt") for k in c.keywords if k.arg == "length"]
    ctx.ob("C13-D4/CONST", len(ks) == 1 and is_const(ks[0], 32), sc.site(), "scrypt derives a 32-byte (AES-256) key", func=sc.qualname)


_base_check_c13 = check


def check(ctx):            # noqa: F811  (extends the rules above)
    _base_check_c13(ctx)
    roundtrip(ctx, ctx.prog)
    unlock_completes(ctx, ctx.prog)
    # the plaintext seed is recognised by decoding it as a mnemonic (Account._decrypt_seed): what that decoder accepts is C06's business
    R.share(ctx, "C06", {"C06-D5": "C13-D8"})


def unlock_completes(ctx, prog):
    """`encryption_password` is recorded only at the end of Wallet.unlock; what runs between the last decrypt and that line must not fail for any
    kind of account (a watch-only account has no private key), or the wallet is left decrypted in memory with no password to re-encrypt with —
    the next save writes the secrets in plaintext."""
    import ast
    from ..astutil import dotted, unparse
    K = "lbry.wallet.account.DeterministicChannelKeyManager"
    pk = ctx.fa(f"{K}.private_key")
    derefs = [c for c in pk.calls(name="child") if unparse(c.func.value) == "self.account.private_key"]
    ctx.floor("C13-D7/NONE", "derivation of the channel key root", len(derefs), 1, site=pk.site(), func=pk.fi.qualname)
    for c in derefs:
        R.gate(ctx, "C13-D7/NONE", pk, c, "self.account.private_key is not None", "the channel key root is derived only when the account HAS a private key (watch-only accounts: none)",
               key=f"C13-D7/NONE|{pk.fi.qualname}|guard")
    ep = ctx.fa(f"{K}.ensure_cache_primed")
    for c in ep.calls(name="generate_next_key"):
        R.gate(ctx, "C13-D7/NONE", ep, c, "self.private_key is not None", "priming the key cache is skipped for accounts without a private key", key=f"C13-D7/NONE|{ep.fi.qualname}|guard")
    gn = ctx.fa(f"{K}.maybe_generate_deterministic_key_for_channel")
    for c in [c for c in gn.calls(name="child") if unparse(c.func.value) == "self.private_key"]:
        R.gate(ctx, "C13-D7/NONE", gn, c, "self.private_key is not None", "…as is key discovery while syncing", key=f"C13-D7/NONE|{gn.fi.qualname}|guard")
    un = ctx.fa("lbry.wallet.wallet.Wallet.unlock")
    sets = [s for s in un.stmts(ast.Assign) if any(unparse(t) == "self.encryption_password" for t in s.targets)]
    between = [c for c in un.calls() if dotted(c.func) and dotted(c.func).split(".")[-1] not in ("decrypt", "ensure_cache_primed")]
    ok = len(sets) >= 1 and not between
    ctx.ob("C13-D7/NONE", ok, un.site(), "Wallet.unlock calls nothing but account.decrypt and ensure_cache_primed before it records the password", func=un.fi.qualname,
           detail="" if ok else f"other calls: {[unparse(c)[:60] for c in between]}", key="C13-D7/NONE|unlock|calls")
    # F19: ... and it records the password before it hands control back to the event loop.  While unlock() is suspended in an await, the accounts decrypted so
    # far are plaintext in memory, ENCRYPT_ON_DISK is set and encryption_password is still None: a save() from any other task takes its "no password
    # available: reset the preference, save unencrypted" branch and writes the seed in clear (triage/f19_unlock_window.py).
    decs = [c for c in un.calls(name="decrypt")]
    ctx.floor("C13-D7/WINDOW", "account.decrypt calls of Wallet.unlock", len(decs), 1, site=un.site(), func=un.fi.qualname)
    store_ids = {n.id for s_ in sets for n in un.cfg_nodes(s_)}
    waits = list(un.local_nodes(ast.Await))
    for c in decs:
        src = un.cfg_nodes(c)
        bad = None
        for a in waits:
            p = un.path(src, un.cfg_nodes(a), avoid=lambda n: n.id in store_ids, include_exc=False)
            if p is not None:
                bad = (a, p)
                break
        ctx.ob("C13-D7/WINDOW", bad is None, un.site(bad[0]) if bad else un.site(c),
               "the password is recorded before the first await that follows a decrypted account (a concurrent save() in between writes the decrypted accounts in "
               "plaintext and switches encryption off)", func=un.fi.qualname, key="C13-D7/WINDOW|unlock",
               detail="" if bad is None else f"`{unparse(bad[0])[:80]}` is reached from the decrypt without the password being recorded: {un.fmt_path(bad[1])}")
    for s_ in sets:
        ok = unparse(s_.value) == un.fi.params()[1]
        ctx.ob("C13-D7/WINDOW", ok, un.site(s_), "what is recorded is the password that was given", func=un.fi.qualname, key=f"C13-D7/WINDOW|unlock|value|{len([x for x in sets if x.lineno <= s_.lineno])}")

def roundtrip(ctx, prog):
    """the completeness half of the round trip: every secret that exists is written / restored, under exactly the functions' own tests;
    state flags change unconditionally on the success path"""
    import ast
    from ..astutil import norm_text, dotted
    from .. import rules as R
    AC = "lbry.wallet.account.Account"
    W = "lbry.wallet.wallet.Wallet"
    td = ctx.fa(f"{AC}.to_dict")
    pw, ick = td.fi.params()[1:3]
    vocab = ["self.encrypted", pw, "self.private_key", "private_key_string", "seed", ick]
    R.effect_table(ctx, "C13-D5/COMPLETE", td, vocab, [
        ("private_key_string, seed = (self.private_key_string, self.seed)", "", "the stored forms (ciphertext of a locked account, or the plain seed) are the starting point"),
        ("private_key_string = self.private_key.extended_key_string()", "not self.encrypted and self.private_key", "an unlocked account's private key is serialised from the key object"),
        (f"private_key_string = aes_encrypt({pw}, private_key_string, self.get_init_vector('private_key'))", f"not self.encrypted and {pw} and private_key_string",
         "with a password, an existing private key is written as its ciphertext"),
        (f"seed = aes_encrypt({pw}, self.seed, self.get_init_vector('seed'))", f"not self.encrypted and {pw} and seed", "with a password, an existing seed is written as its ciphertext"),
        ("d['certificates'] = self.channel_keys", ick, "channel keys are included when asked for"),
        ("return d", "", "the dict is returned"),
    ], "account → dict: ")
    ds = [x for x in td.stmts(ast.Assign) if any(dotted(t) == "d" for t in x.targets) and isinstance(x.value, ast.Dict)]
    ent = {k.value: norm_text(v) for x in ds for k, v in zip(x.value.keys, x.value.values) if isinstance(k, ast.Constant)}
    ok = len(ds) == 1 and ent.get("seed") == "seed" and ent.get("private_key") == "private_key_string" and ent.get("encrypted") == f"bool(self.encrypted or {pw})" and \
        ent.get("public_key") == "self.public_key.extended_key_string()" and ent.get("address_generator") == "self.address_generator.to_dict(self.receiving, self.change)"
    ctx.ob("C13-D5/COMPLETE", ok, td.site(), "account → dict: seed, private key, encrypted flag, public key and address generator go under their own keys", func=td.fi.qualname, key="C13-D5/COMPLETE|dict-keys")
    dc = ctx.fa(f"{AC}.decrypt")
    pw = dc.fi.params()[1]
    R.effect_table(ctx, "C13-D5/COMPLETE", dc, ["self.encrypted"], [
        (f"seed = self._decrypt_seed({pw})", "", "the seed is decrypted with the password"),
        (f"private_key = self._decrypt_private_key_string({pw})", "", "the private key is decrypted with the password"),
        ("self.seed = seed", "", "success: the plaintext seed is restored"),
        ("self.private_key = private_key", "", "success: the private key object is restored"),
        ("self.private_key_string = ''", "", "success: the ciphertext is dropped"),
        ("self.encrypted = False", "", "success: the account is flagged unlocked"),
        ("return True", "", "success is reported"),
    ], "account unlock: ")
    rf = [r for r in dc.stmts(ast.Return) if norm_text(r) == "return False"]
    ok = len(rf) == 2 and all(R.in_handler(r, dc) is not None for r in rf)
    ctx.ob("C13-D5/COMPLETE", ok, dc.site(), "account unlock: failure is reported only from the two decryption handlers", func=dc.fi.qualname)
    en = ctx.fa(f"{AC}.encrypt")
    pw = en.fi.params()[1]
    R.effect_table(ctx, "C13-D5/COMPLETE", en, ["self.encrypted", "self.seed", "isinstance(self.private_key, PrivateKey)"], [
        (f"self.seed = aes_encrypt({pw}, self.seed, self.get_init_vector('seed'))", "self.seed", "an existing seed is replaced by its ciphertext"),
        (f"self.private_key_string = aes_encrypt({pw}, self.private_key.extended_key_string(), self.get_init_vector('private_key'))", "isinstance(self.private_key, PrivateKey)",
         "an existing private key is kept as ciphertext"),
        ("self.private_key = None", "isinstance(self.private_key, PrivateKey)", "…and its object dropped"),
        ("self.encrypted = True", "", "the account is flagged locked"),
        ("return True", "", "success is reported"),
    ], "account lock: ")
    dp = ctx.fa(f"{AC}._decrypt_private_key_string")
    pw = dp.fi.params()[1]
    R.effect_table(ctx, "C13-D5/COMPLETE", dp, ["self.private_key_string", "private_key_string"], [
        ("return None", "not self.private_key_string", "no stored ciphertext: no private key (watch-only account)", 0),
        (f"private_key_string, self.init_vectors['private_key'] = aes_decrypt({pw}, self.private_key_string)", "self.private_key_string", "the stored ciphertext is decrypted with the password (iv remembered)"),
        ("return from_extended_key_string(self.ledger, private_key_string)", "self.private_key_string and private_key_string", "the plaintext is parsed back into a key object"),
    ], "private key restore: ")
    dsd = ctx.fa(f"{AC}._decrypt_seed")
    pw = dsd.fi.params()[1]
    R.effect_table(ctx, "C13-D5/COMPLETE", dsd, ["self.seed", "seed"], [
        ("return ''", "not self.seed", "no stored seed: empty seed", 0),
        (f"seed, self.init_vectors['seed'] = aes_decrypt({pw}, self.seed)", "self.seed", "the stored ciphertext is decrypted with the password (iv remembered)"),
        ("Mnemonic().mnemonic_decode(seed)", "self.seed and seed", "the plaintext must decode as a mnemonic (a wrong password that happens to unpad is caught here)"),
        ("return seed", "self.seed and seed", "the plaintext seed is returned"),
    ], "seed restore: ")
    hs = [h for t_ in dsd.stmts(ast.Try) for h in t_.handlers]
    ok = len(hs) == 1 and isinstance(hs[0].body[-1], ast.Raise) and "ValueError" in norm_text(hs[0].body[-1])
    ctx.ob("C13-D5/COMPLETE", ok, dsd.site(), "seed restore: a seed that does not decode raises ValueError (which Account.decrypt turns into False)", func=dsd.fi.qualname)
    ad = ctx.fa("lbry.crypto.crypt.aes_decrypt")
    r = [x for x in ad.stmts(ast.Return)]
    ok = len(r) == 1 and norm_text(r[0].value) == "(result.decode(), init_vector)" and ad.path([ad.cfg.entry], [ad.cfg.exit], avoid=lambda n: n.kind in ("return",), include_exc=True) is None
    ctx.ob("C13-D5/COMPLETE", ok, ad.site(), "aes_decrypt returns (plaintext, iv) or raises — no path returns None", func=ad.fi.qualname, key="C13-D5/COMPLETE|aes_decrypt-returns")
    ae = ctx.fa("lbry.crypto.crypt.aes_encrypt")
    iv = ae.fi.params()[2]
    R.effect_table(ctx, "C13-D5/COMPLETE", ae, [f"{iv} is not None"], [
        (f"{iv} = os.urandom(16)", f"{iv} is None", "a fresh random iv is drawn exactly when none was given"),
        (f"return base64.b64encode({iv} + encrypted_data).decode()", "", "the result is base64(iv ‖ ciphertext) — the layout aes_decrypt splits at 16"),
    ], "aes_encrypt: ")
    # wallet level
    ul = ctx.fa(f"{W}.unlock")
    pw = ul.fi.params()[1]
    R.effect_table(ctx, "C13-D5/COMPLETE", ul, ["account.encrypted", f"account.decrypt({pw})"], [
        ("return False", f"account.encrypted and not account.decrypt({pw})", "a failing account stops the unlock"),
        (f"self.encryption_password = {pw}", "", "after all accounts unlocked the password is recorded"),
        ("return True", "", "…and success reported"),
    ], "wallet unlock: ")
    lk = ctx.fa(f"{W}.lock")
    R.effect_table(ctx, "C13-D5/COMPLETE", lk, ["account.encrypted", "self.encryption_password is not None"], [
        ("account.encrypt(self.encryption_password)", "not account.encrypted", "every unlocked account is locked with the recorded password"),
    ], "wallet lock: ")
    we = ctx.fa(f"{W}.encrypt")
    pw = we.fi.params()[1]
    R.effect_table(ctx, "C13-D5/COMPLETE", we, ["self.is_locked", pw], [
        (f"self.encryption_password = {pw}", "", "the password is recorded"),
        ("self.preferences[ENCRYPT_ON_DISK] = True", "", "encrypt-on-disk is switched on"),
        ("self.save()", "", "…and the wallet saved (as ciphertext) at once"),
    ], "wallet encrypt: ")
    sv = ctx.fa(f"{W}.save")
    R.effect_table(ctx, "C13-D5/COMPLETE", sv, ["self.preferences.get(ENCRYPT_ON_DISK, False)", "self.encryption_password is not None", "self.is_locked"], [
        ("return self.storage.write(self.to_dict(encrypt_password=self.encryption_password))", "self.preferences.get(ENCRYPT_ON_DISK, False) and self.encryption_password is not None",
         "with encrypt-on-disk and a password, the encrypted form is what is written"),
        ("return self.storage.write(self.to_dict())", "", "otherwise the current state is written"),
    ], "wallet save: ")
    il = ctx.fa(f"{W}.is_locked")
    R.effect_table(ctx, "C13-D5/COMPLETE", il, ["account.encrypted"], [
        ("return True", "account.encrypted", "locked = some account is encrypted"),
        ("return False", "", "…else unlocked"),
    ], "wallet: ")
    ws = ctx.fa("lbry.wallet.wallet.WalletStorage.write")
    R.effect_table(ctx, "C13-D5/COMPLETE", ws, ["self.path is None", "os.path.exists(self.path)"], [
        ("return json_data", "self.path is None", "a storage without path only serialises"),
    ], "storage: ")
