"""C09 — wallet sync converges to the server's history, balance and UTXO set."""
import ast

from .. import AnalysisError
from ..astutil import dotted, call_name, unparse, norm_text, walk_local_body, kwarg, is_const
from .. import rules as R
from . import c06, c14

EXPLANATION = (
    "Locking, ordering and query-definition skeleton of the sync loop (the convergence itself is not decided). "
    "Per-address atomicity: the whole body of update_history lies inside `async with "
    "_address_update_locks[address]`; it is only scheduled through _update_tasks by subscribe_addresses and "
    "process_status_update, and process_status_update schedules it for every notification unconditionally (a "
    "notification arriving during a running update waits on the lock, it is not dropped). Ordering: a batch's "
    "inputs are resolved (_sync over all pending transactions, which looks in the pending batch, then the "
    "database) before the batch is saved; history sync requests transactions uncached so that a batch carries the "
    "transactions its inputs spend; the stored history is rebuilt in the server's order, position by position, "
    "written before the gap is extended, and the status is re-checked afterwards. One definition of 'unspent': "
    "get_balance, get_utxos and get_utxo_count all go through select_txos(is_spent=False) (spent IS NULL and not "
    "reserved, C14); Account.get_balance without include_claims restricts to other/purchase. Persistence: a txi "
    "row is written only for an input whose spent output pays the address being synced, a txo row only for "
    "pay-to-pubkey-hash outputs paying that address's hash (or any p2pkh/p2sh output when one of our inputs is "
    "spent), both ignoring duplicates. Gap maintenance: after every history update ensure_address_gap runs for "
    "the address's chain; the gap is the trailing run of unused addresses (rules shared with C06)."
)
EXACTNESS = "Second pass (DESIGN.md §10, exactness / completeness halves) — every notification and every subscribed address schedules an update, prefix logic of the history diff, input linking against batch / stored outputs / stored transaction under exact conditions, verdict exactness, `used_times` = entry count, address-manager lookup before gap maintenance, batching and fetching of every requested transaction; output type column shared from C15 (C09-D7)."
TECHNIQUE = "static analysis: lock-scope check, must-precede ordering, who-may-call, exact guard dominance of row insertion, shared query-definition rules; exact fact-set comparison of the tests dominating each effect and refusal (effect / refusal tables), fall-through path queries"
NOT_DECIDED = ("equality of the stored history/balance/UTXO set with the server's for all histories and notification orders, and discovery "
               "within the gap limit — emergent behaviour of the whole loop; only its structural skeleton is decided")
ASSUMPTIONS = ["asyncio.Lock is fair enough that a waiting update eventually runs; the server's get_history is the reference history"]

L = "lbry.wallet.ledger.Ledger"
DB = "lbry.wallet.database.Database"


def check(ctx):
    prog = ctx.prog
    locking(ctx, prog)
    ordering(ctx, prog)
    unspent(ctx, prog)
    persistence(ctx, prog)
    n0 = len(ctx.obligations)
    c06.chains(ctx, prog)
    for o in ctx.obligations[n0:]:
        o["rule"] = o["rule"].replace("C06-D4", "C09-D5")
        o["key"] = o["key"].replace("C06-D4", "C09-D5")


def locking(ctx, prog):
    uh = ctx.fa(f"{L}.update_history")
    q = uh.fi.qualname
    addr = uh.fi.params()[1]
    lock_expr = f"self._address_update_locks[{addr}]"

    def under_lock(a):
        return isinstance(a, ast.AsyncWith) and any(unparse(i.context_expr) == lock_expr for i in a.items)
    li = ctx.fa(f"{L}.__init__")
    ok = any(dotted(t) == "self._address_update_locks" and "defaultdict(asyncio.Lock)" in unparse(s.value) for s in li.stmts((ast.Assign, ast.AnnAssign))
             for t in (s.targets if isinstance(s, ast.Assign) else [s.target]))
    ctx.ob("C09-D1/LOCK", ok, li.site(), "one asyncio.Lock per address, created on first use", func=li.fi.qualname)
    for op in ("self.get_local_status_and_history", "self.network.retriable_call", "self.db.set_address_history", "address_manager.ensure_address_gap",
               "self.request_synced_transactions"):
        cs = uh.calls(dotted_name=op)
        ctx.floor("C09-D1/LOCK", f"`{op}` in update_history", len(cs), 1, site=uh.site(), func=q)
        for c in cs:
            ok = uh.lexically_inside(c, under_lock) is not None
            ctx.ob("C09-D1/LOCK", ok, uh.site(c), f"`{op}(…)` runs while holding the per-address update lock (reading the stored history, fetching the remote one, "
                   "saving transactions and writing the new history are one critical section per address)", func=q, key=f"C09-D1/LOCK|{q}|{op}")
    R.callers_only(ctx, "C09-D1/CALLERS", "update_history", [f"{L}.subscribe_addresses", f"{L}.process_status_update"], "history update", floor=2,
                   module_prefix="lbry.wallet", ignore_modules=("lbry.wallet.server", "lbry.wallet.orchstr8"))
    ps = ctx.fa(f"{L}.process_status_update")
    pq = ps.fi.qualname
    calls = ps.calls(dotted_name="self.update_history")
    ctx.floor("C09-D1/SCHED", "update_history scheduled by process_status_update", len(calls), 1, site=ps.site(), func=pq)
    for c in calls:
        have, F = R.atomic_facts_at(ps, c)
        ctx.ob("C09-D1/SCHED", not have, ps.site(c), "every status notification schedules a history update — unconditionally (an update that arrives while another "
               "is running for the same address waits on the lock; skipping it would leave the wallet on a stale history)",
               detail="" if not have else f"scheduled only under {R.fmt_missing(sorted(have))}", func=pq, key=f"C09-D1/SCHED|{pq}|unconditional")
        wrap = getattr(c, "_parent", None)
        ok = isinstance(wrap, ast.Call) and dotted(wrap.func) == "self._update_tasks.add" and len(c.args) == 2
        ctx.ob("C09-D1/SCHED", ok, ps.site(c), "through the ledger's update task group, with the notified address and status", func=pq)
    rets = [r for r in ps.stmts(ast.Return)]
    ctx.ob("C09-D1/SCHED", not rets, ps.site(rets[0]) if rets else ps.site(), "process_status_update has no early return", func=pq, key=f"C09-D1/SCHED|{pq}|no-early-return")
    t = unparse(ps.node)
    ok = f"address, remote_status = {ps.fi.params()[1]}" in t and "self.update_history(address, remote_status)" in t
    ctx.ob("C09-D1/SCHED", ok, ps.site(), "address and status are taken from the notification itself", func=pq)
    li = ctx.fa(f"{L}.__init__")
    ok = any(unparse(c) == "self.network.on_status.listen(self.process_status_update)" for c in li.calls(name="listen"))
    ctx.ob("C09-D1/SCHED", ok, li.site(), "status notifications from the network are delivered to process_status_update", func=li.fi.qualname, key="C09-D1/SCHED|listen")
    sa = ctx.fa(f"{L}.subscribe_addresses")
    sq = sa.fi.qualname
    _, _am, addrs, bs = sa.fi.params()
    body = [norm_text(x) for x in sa.local_nodes(ast.Assign)]
    ok = f"addresses_remaining = list({addrs})" in body and f"batch = addresses_remaining[:{bs}]" in body and f"addresses_remaining = addresses_remaining[{bs}:]" in body and \
        any(unparse(w.test) == "addresses_remaining" for w in sa.stmts(ast.While))
    ctx.ob("C09-D1/SCHED", ok, sa.site(), "all given addresses are subscribed, batch by batch (prefix taken, same prefix dropped, until none remain)", func=sq, key=f"C09-D1/SCHED|{sq}|all-batches")
    for c in sa.calls(dotted_name="self.update_history"):
        R.exact_gate(ctx, "C09-D1/SCHED", sa, c, f"self.network.is_connected and {addrs}", "every subscribed address is synced — no further condition",
                     ignore=["addresses_remaining"], key=f"C09-D1/SCHED|{sq}|every-address")
    t = unparse(sa.node)
    ok = "results = await self.network.subscribe_address(*batch)" in t and "for address, remote_status in zip(batch, results)" in t and \
        "self._update_tasks.add(self.update_history(address, remote_status, address_manager))" in t
    ctx.ob("C09-D1/SCHED", ok, sa.site(), "subscribing an address immediately syncs it against the status the server returned", func=sa.fi.qualname)


def ordering(ctx, prog):
    sb = ctx.fa(f"{L}._sync_and_save_batch")
    q = sb.fi.qualname
    save = sb.calls(dotted_name="self.db.save_transaction_io_batch")
    gather = [c for c in sb.calls(dotted_name="asyncio.gather")]
    ctx.floor("C09-D2/ORDER", "gather(_sync…) and save in _sync_and_save_batch", min(len(save), len(gather)), 1, site=sb.site(), func=q)
    if save and gather:
        ok = sb.must_precede(save[0], lambda n: n is gather[0]) is None and isinstance(gather[0]._parent, ast.Await)
        ctx.ob("C09-D2/ORDER", ok, sb.site(save[0]), "inputs of every pending transaction are resolved (awaited) before the batch is saved", func=q)
        a = gather[0].args[0] if gather[0].args else None
        pend = sb.fi.params()[3]
        ok = isinstance(a, ast.Starred) and isinstance(a.value, ast.GeneratorExp) and unparse(a.value.generators[0].iter) == f"{pend}.values()" and \
            unparse(a.value.elt) == f"self._sync({dotted(a.value.generators[0].target)}, {sb.fi.params()[2]}, {pend})" and not a.value.generators[0].ifs
        ctx.ob("C09-D2/ORDER", ok, sb.site(gather[0]), "over ALL pending transactions, each seeing the whole pending batch", func=q)
        ok = unparse(save[0].args[0]) == f"{pend}.values()" and unparse(save[0].args[1]) == sb.fi.params()[1]
        ctx.ob("C09-D2/ORDER", ok, sb.site(save[0]), "the same pending transactions are saved for the address being synced", func=q)
    sy = ctx.fa(f"{L}._sync")
    syq = sy.fi.qualname
    _, txp, rh, pend = sy.fi.params()
    links = [x for x in sy.stmts(ast.Assign) if any(dotted(t) == "txi.txo_ref" for t in x.targets)]
    ctx.floor("C09-D2/LINK", "input-resolution assignments (txi.txo_ref = …) in _sync", len(links), 3, site=sy.site(), func=syq)
    want = {
        f"{pend}[txi.txo_ref.tx_ref.id].outputs[txi.txo_ref.position].ref":
            (f"txi.txo_ref.txo is None and txi.txo_ref.tx_ref.id in {rh} and txi.txo_ref.tx_ref.id in {pend}",
             "an unresolved input whose source transaction is in this address's history and in the pending batch is linked to the batch's output at its position"),
        "referenced_txos[txi.txo_ref.id].ref":
            ("txi.txo_ref.id in referenced_txos", "an input whose source output is stored is linked to the stored output"),
        "tx_from_db.outputs[txi.txo_ref.position].ref":
            ("txi.txo_ref.id not in referenced_txos and tx_from_db is not None", "otherwise the stored source transaction's output at that position is used"),
    }
    for x in links:
        val = sy.expanded_text(x.value, keep=("referenced_txos", "tx_from_db"))
        w = want.get(val)
        if w is None:
            ctx.ob("C09-D2/LINK", False, sy.site(x), "inputs are linked only to the output they name (pending batch, stored output or stored transaction)", detail=f"links to `{val}`", func=syq)
            continue
        R.exact_gate(ctx, "C09-D2/LINK", sy, x, w[0], w[1], key=f"C09-D2/LINK|{syq}|{val[:30]}")
    dbq = [x for x in sy.stmts(ast.Assign) if any(isinstance(t, ast.Subscript) and dotted(t.value) == "check_db_for_txos" for t in x.targets)]
    ctx.floor("C09-D2/LINK", "check_db_for_txos[txi] = … in _sync", len(dbq), 1, site=sy.site(), func=syq)
    for x in dbq:
        ok = unparse(x.targets[0].slice) == "txi" and unparse(x.value) == "txi.txo_ref.id"
        ctx.ob("C09-D2/LINK", ok, sy.site(x), "inputs to look up in the database are keyed by the input, value = the spent output's id", func=syq)
        R.exact_gate(ctx, "C09-D2/LINK", sy, x, f"txi.txo_ref.txo is None and txi.txo_ref.tx_ref.id in {rh} and txi.txo_ref.tx_ref.id not in {pend}",
                     "every unresolved input whose source transaction is in this address's history but not in the batch is looked up in the database", key=f"C09-D2/LINK|{syq}|db-lookup")
    t = unparse(sy.node)
    ok = f"for txi in {txp}.inputs" in t and "for txi in check_db_for_txos" in t and \
        "await self.db.get_txos(txoid__in=list(check_db_for_txos.values())" in t and "tx_from_db = await self.db.get_transaction(txid=txi.txo_ref.tx_ref.id)" in t
    ctx.ob("C09-D2/LINK", ok, sy.site(), "all inputs of the transaction are visited; stored outputs are fetched by the collected ids, the stored transaction by the source txid", func=syq)
    tio = ctx.fa(f"{DB}._transaction_io")
    ok = any(tio.expanded_text(x.test, keep=("txi",)) == "txi.txo_ref.txo is not None" for x in tio.stmts(ast.If)) and "txo = txi.txo_ref.txo" in unparse(tio.node)
    ctx.ob("C09-D2/LINK", ok, tio.site(), "…and _transaction_io reads exactly that link (txi.txo_ref.txo)", func=tio.fi.qualname)
    rs = ctx.fa(f"{L}.request_synced_transactions")
    rq = rs.fi.qualname
    calls = rs.calls(dotted_name="self.request_transactions")
    ok = len(calls) == 1 and kwarg(calls[0], "cached") is None and len(calls[0].args) == 1
    ctx.ob("C09-D2/ORDER", ok, rs.site(), "history sync requests transactions uncached: a batch contains every requested transaction, so a spender and the "
           "transaction it spends are resolved and saved together whichever address is synced first", func=rq, key=f"C09-D2/ORDER|{rq}|uncached")
    ys = [y for y in rs.local_nodes(ast.Yield)]
    ok = len(ys) == 1 and dotted(ys[0].value) == "tx" and any(isinstance(f, ast.For) and unparse(f.iter) == f"{dotted(loops[0].target) if (loops := rs.stmts(ast.AsyncFor)) else '?'}.values()"
                                                              and dotted(f.target) == "tx" and not R.atomic_facts_at(rs, ys[0])[0] for f in rs.stmts(ast.For))
    ctx.ob("C09-D2/DEP", ok, rs.site(), "every transaction of every batch is handed to update_history (which records it at its remote index)", func=rq)
    sv = rs.calls(dotted_name="self._sync_and_save_batch")
    loops = rs.stmts(ast.AsyncFor)
    ok = len(sv) == 1 and len(loops) == 1 and rs.lexically_inside(sv[0], lambda a: a is loops[0]) is not None and \
        [unparse(a) for a in sv[0].args] == [rs.fi.params()[3], rs.fi.params()[2], dotted(loops[0].target)]
    ctx.ob("C09-D2/ORDER", ok, rs.site(), "each batch is synced and saved before the next one is requested", func=rq)
    uh = ctx.fa(f"{L}.update_history")
    q = uh.fi.qualname
    sh = uh.calls(dotted_name="self.db.set_address_history")
    eg = uh.calls(dotted_name="address_manager.ensure_address_gap")
    ok = len(sh) == 1 and len(eg) == 1 and uh.must_precede(eg[0], lambda n: n is sh[0]) is None and [unparse(a) for a in sh[0].args] == [uh.fi.params()[1], "synced_history"]
    ctx.ob("C09-D2/ORDER", ok, uh.site(), "the synced history is stored before the address gap is extended", func=q)
    if eg:
        R.exact_gate(ctx, "C09-D5/GATE", uh, eg[0], "address_manager is not None", "gap maintenance runs after every history change whenever the address's chain is known",
                     ignore=["not local_status == remote_status", "we_need", "not not we_need", "address_manager is None", "not address_manager is None",
                             "len(pending_synced_history) == len(remote_history)"],
                     key=f"C09-D5/GATE|{q}|gap-after-sync")
    t = unparse(uh.node)
    ok = "for remote_i, i in zip(range(len(remote_history)), sorted(pending_synced_history.keys()))" in t and "assert i == remote_i" in t and \
        "synced_history += pending_synced_history[i]" in t and "assert len(pending_synced_history) == len(remote_history)" in t
    ctx.ob("C09-D2/ORDER", ok, uh.site(), "the stored history is assembled in the server's order, one entry per remote position, with the count asserted", func=q)
    ok = "remote_history = await self.network.retriable_call(self.network.get_history, address)" in t and \
        "remote_history = list(map(itemgetter('tx_hash', 'height'), remote_history))" in t and "we_need = set(remote_history) - set(local_history)" in t
    ctx.ob("C09-D2/DEP", ok, uh.site(), "what is fetched is the server's (txid, height) history minus what is stored", func=q)
    ok = "to_request[i] = (txid, remote_height)" in t and "if (txid, remote_height) in already_synced" in t and "pending_synced_history[tx_indexes[tx.id]] = f'{tx.id}:{tx.height}:'" in t
    ctx.ob("C09-D2/DEP", ok, uh.site(), "every remote entry that is not an already-synced prefix entry is requested and recorded at its remote index", func=q)
    params = uh.fi.params()
    adds = [c for c in uh.calls(dotted_name="already_synced.add")]
    ctx.floor("C09-D2/GATE", "already_synced.add(…) in update_history", len(adds), 1, site=uh.site(), func=q)
    for c in adds:
        ok = len(c.args) == 1 and unparse(c.args[0]) == "(txid, remote_height)"
        ctx.ob("C09-D2/DEP", ok, uh.site(c), "what is marked already-synced is the remote entry itself", func=q)
        R.exact_gate(ctx, "C09-D2/GATE", uh, c, "i == already_synced_offset and i < len(local_history) and local_history[i] == (txid, remote_height)",
                     "a remote entry is skipped as already synced only when the stored history has the same (txid, height) at the same position and every "
                     "earlier position matched too (a common prefix) — anything else is fetched again",
                     ignore=["not local_status == remote_status", "we_need", "not not we_need"], key=f"C09-D2/GATE|{q}|prefix")
        blk = R.stmt_of(c)._parent
        sib = [unparse(x) for x in getattr(blk, "body", [])]
        ok = "already_synced_offset += 1" in sib and "pending_synced_history[i] = f'{txid}:{remote_height}:'" in sib
        ctx.ob("C09-D2/DEP", ok, uh.site(c), "the prefix pointer advances by one and the entry is recorded at its own index, in the same branch", func=q)
    inits = [x for x in uh.stmts(ast.Assign) if any(dotted(t) == "already_synced_offset" for t in x.targets)]
    ctx.ob("C09-D2/DEP", len(inits) == 1 and is_const(inits[0].value, 0), uh.site(), "the prefix pointer starts at 0", func=q)
    writes = [x for x in uh.stmts(ast.Assign) if any(isinstance(t, ast.Subscript) and dotted(t.value) == "to_request" for t in x.targets)]
    for w in writes:
        R.exact_gate(ctx, "C09-D2/GATE", uh, w, "(txid, remote_height) not in already_synced", "every remote entry outside the synced prefix is requested",
                     ignore=["not local_status == remote_status", "we_need", "not not we_need"], key=f"C09-D2/GATE|{q}|request-rest")
    ctx.floor("C09-D2/GATE", "to_request[i] = … in update_history", len(writes), 1, site=uh.site(), func=q)
    rs_calls = uh.calls(dotted_name="self.request_synced_transactions")
    ok = len(rs_calls) == 1 and [unparse(a) for a in rs_calls[0].args] == ["to_request", "remote_history_txids", params[1]] and \
        "remote_history_txids = {txid for txid, _ in remote_history}" in t
    ctx.ob("C09-D2/DEP", ok, uh.site(), "transactions are requested for exactly to_request, for this address, with the remote txid set", func=q)
    # the chain is looked up when the caller did not pass it (status notifications never do)
    am = params[3]
    look = [x for x in uh.stmts(ast.Assign) if any(dotted(tg) == am for tg in x.targets) and "self.get_address_manager_for_address" in unparse(x.value)]
    ctx.floor("C09-D5/GATE", "address-manager lookup in update_history", len(look), 1, site=uh.site(), func=q)
    for x in look:
        ok = unparse(x.value) == f"await self.get_address_manager_for_address({params[1]})" and bool(eg) and uh.must_precede(eg[0], lambda n: n is x.value, assume=[f"{am} is None"]) is None
        ctx.ob("C09-D5/GATE", ok, uh.site(x), "when no address manager was passed (every status notification) it is looked up from the address before gap maintenance", func=q,
               key=f"C09-D5/GATE|{q}|lookup")
        R.exact_gate(ctx, "C09-D5/GATE", uh, x, f"{am} is None", "the lookup happens exactly when none was passed",
                     ignore=["not local_status == remote_status", "we_need", "not not we_need", "len(pending_synced_history) == len(remote_history)"], key=f"C09-D5/GATE|{q}|lookup-gate")
    # the verdict is taken on a re-read after the write
    rereads = [c for c in uh.calls(dotted_name="self.get_local_status_and_history") if len(c.args) == 2]
    ok = len(rereads) == 1 and bool(sh) and [unparse(a) for a in rereads[0].args] == [params[1], "synced_history"] and \
        uh.must_precede(rereads[0], lambda n: n is sh[0]) is None
    st = R.stmt_of(rereads[0]) if rereads else None
    ok = ok and isinstance(st, ast.Assign) and unparse(st.targets[0]) == "(local_status, local_history)"
    ctx.ob("C09-D2/ORDER", ok, uh.site(), "after the write, status and history are recomputed from what was written and compared with the server's again", func=q)
    rets = [r for r in uh.stmts(ast.Return) if is_const(r.value, False)]
    ok = len(rets) == 1 and "self._known_addresses_out_of_sync.add(address)" in t
    ctx.ob("C09-D2/GATE", ok, uh.site(), "a history that still differs after syncing is reported (False) and the address marked out of sync", func=q)
    for r in rets:
        R.exact_gate(ctx, "C09-D2/GATE", uh, r, "local_status != remote_status and not local_history == remote_history",
                     "…exactly when the recomputed status differs from the server's and the histories differ too",
                     ignore=["we_need", "not not we_need", "len(pending_synced_history) == len(remote_history)", "address_manager is None", "not address_manager is None",
                             "address_manager is not None"], key=f"C09-D2/GATE|{q}|verdict-exact")


def unspent(ctx, prog):
    gb = ctx.fa(f"{DB}.get_balance")
    calls = gb.calls(dotted_name="self.select_txos")
    ok = len(calls) == 1 and is_const(kwarg(calls[0], "is_spent"), False) and is_const(calls[0].args[0], "SUM(amount) as total")
    ctx.ob("C09-D3/QUERY", ok, gb.site(), "balance = SUM(amount) over select_txos(is_spent=False)", func=gb.fi.qualname, key="C09-D3/QUERY|balance")
    r = R.single_return_value(gb)
    ok = r is not None and unparse(r.value) == "balance[0]['total'] or 0" and "balance = await self.select_txos(" in unparse(gb.node) and \
        "constraints['accounts'] = accounts or wallet.accounts" in unparse(gb.node)
    ctx.ob("C09-D3/QUERY", ok, gb.site(), "the balance returned is that sum (0 for no rows), over the given accounts (or all of the wallet's)", func=gb.fi.qualname)
    gc = ctx.fa(f"{DB}.get_utxo_count")
    r = R.single_return_value(gc)
    ctx.ob("C09-D3/QUERY", r is not None and unparse(r.value) == "self.get_txo_count(is_spent=False, **constraints)", gc.site(), "UTXO count uses the same is_spent=False definition",
           func=gc.fi.qualname, key="C09-D3/QUERY|count")
    gt = ctx.fa(f"{DB}.get_txo_count")
    ok = any(unparse(c.func) == "self.select_txos" for c in gt.calls())
    r = R.single_return_value(gt)
    ok = ok and r is not None and unparse(r.value) == "count[0]['total'] or 0" and "count = await self.select_txos('COUNT(*) AS total', **constraints)" in unparse(gt.node)
    ctx.ob("C09-D3/QUERY", ok, gt.site(), "through select_txos('COUNT(*) as total'), returning that count", func=gt.fi.qualname)
    n0 = len(ctx.obligations)
    c14.invisible(ctx, prog)
    for o in ctx.obligations[n0:]:
        o["rule"] = o["rule"].replace("C14-D2", "C09-D3")
        o["key"] = o["key"].replace("C14-D2", "C09-D3")
    ab = ctx.fa("lbry.wallet.account.Account.get_balance")
    t = unparse(ab.node)
    ups = [c for c in ab.calls(name="update") if "txo_type__in" in unparse(c)]
    ok = len(ups) == 1 and "(TXO_TYPES['other'], TXO_TYPES['purchase'])" in unparse(ups[0]) and ab.guarded(ups[0], "not include_claims")[0] and \
        "return self.ledger.db.get_balance(accounts=[self], read_only=read_only, **constraints)" in t
    ctx.ob("C09-D3/QUERY", ok, ab.site(), "spendable balance excludes value locked in claims and supports (types other/purchase only) unless include_claims", func=ab.fi.qualname,
           key="C09-D3/QUERY|claims-apart")


def persistence(ctx, prog):
    ti = ctx.fa(f"{DB}._transaction_io")
    q = ti.fi.qualname
    _, conn, tx, address, txhash = ti.fi.params()
    ins = [c for c in ti.calls(dotted_name="self._insert_sql")]
    txi = [c for c in ins if c.args and is_const(c.args[0], "txi")]
    txo = [c for c in ins if c.args and is_const(c.args[0], "txo")]
    txr = [c for c in ins if c.args and is_const(c.args[0], "tx")]
    ctx.ob("C09-D4/GATE", len(txi) == 1 and len(txo) == 2 and len(txr) == 1, ti.site(), "_transaction_io writes one tx row, txi rows and txo rows", func=q)
    for c in txi:
        R.exact_gate(ctx, "C09-D4/GATE", ti, c, f"txi.txo_ref.txo is not None and txo.has_address and txo.get_address(self.ledger) == {address}",
                     "an input row is written exactly when the output it spends is known and pays the address being synced", key=f"C09-D4/GATE|{q}|txi")
        ok = is_const(kwarg(c, "ignore_duplicate"), True)
        ctx.ob("C09-D4/GATE", ok, ti.site(c), "duplicates are ignored (the same input may be seen from several addresses)", func=q)
        d = c.args[1] if len(c.args) > 1 else None
        okd = isinstance(d, ast.Dict) and {k.value: unparse(v) for k, v in zip(d.keys, d.values)} == {"txid": f"{tx}.id", "txoid": "txo.id", "address": address, "position": "txi.position"}
        ctx.ob("C09-D4/DEP", okd, ti.site(c), "the row links this transaction to the spent output's id", func=q)
    mine = [s for s in ti.stmts(ast.Assign) if any(dotted(t) == "is_my_input" for t in s.targets) and is_const(s.value, True)]
    init = [s for s in ti.stmts(ast.Assign) if any(dotted(t) == "is_my_input" for t in s.targets) and is_const(s.value, False)]
    ctx.ob("C09-D4/DEP", len(init) == 1 and not R.atomic_facts_at(ti, init[0])[0], ti.site(), "is_my_input starts False for every transaction", func=q)
    ok = len(mine) == 1 and bool(txi) and R.stmt_of(mine[0])._parent is R.stmt_of(txi[0])._parent
    ctx.ob("C09-D4/DEP", ok, ti.site(), "is_my_input is set exactly where an input row is written", func=q)
    for c in txo:
        p2pkh = ti.guarded(c, f"txo.script.is_pay_pubkey_hash and (txo.pubkey_hash == {txhash} or is_my_input)")[0]
        p2sh = ti.guarded(c, "txo.script.is_pay_script_hash and is_my_input")[0]
        have, _F = R.atomic_facts_at(ti, c)
        extra = {k for k in have if k not in {("txo.script.is_pay_pubkey_hash", True), ("txo.script.is_pay_pubkey_hash", False), ("txo.script.is_pay_script_hash", True),
                                              ("is_my_input", True)}}
        ctx.ob("C09-D4/GATE", not extra, ti.site(c), "…and under no further condition", detail=R.fmt_missing(sorted(extra)), func=q)
        ctx.ob("C09-D4/GATE", p2pkh or p2sh, ti.site(c), "an output row is written for a p2pkh output paying this address's hash (or when one of our inputs is spent), "
               "or a p2sh output of a transaction spending our input", func=q, key=f"C09-D4/GATE|{q}|txo|{'p2pkh' if p2pkh else 'p2sh' if p2sh else '?'}")
        ok = is_const(kwarg(c, "ignore_duplicate"), True) and len(c.args) > 1 and unparse(c.args[1]) == f"self.txo_to_row({tx}, txo)"
        ctx.ob("C09-D4/DEP", ok, ti.site(c), "the row is txo_to_row of that output, duplicates ignored", func=q)
    for c in txr:
        ok = is_const(kwarg(c, "replace"), True) and unparse(c.args[1]) == f"self.tx_to_row({tx})"
        ctx.ob("C09-D4/DEP", ok, ti.site(c), "the transaction row is replaced (height/verification may have changed)", func=q)
    sbq = f"{DB}.save_transaction_io_batch.<locals>.__many"
    if prog.has_func(sbq):
        mm = ctx.fa(sbq)
        t = unparse(mm.node)
        ok = "for tx in txs" in t and "self._transaction_io(conn, tx, address, txhash)" in t
        ctx.ob("C09-D4/DEP", ok, mm.site(), "a batch is saved transaction by transaction in one SQL transaction", func=mm.fi.qualname)
        ups = [c for c in mm.calls(name="execute") if c.args and isinstance(c.args[0], ast.Constant) and "UPDATE pubkey_address" in str(c.args[0].value)]
        ok = len(ups) == 1 and is_const(ups[0].args[0], "UPDATE pubkey_address SET history = ?, used_times = ? WHERE address = ?") and \
            unparse(ups[0].args[1]) == "(history, history_count, address)"
        ctx.ob("C09-D4/DEP", ok, mm.site(), "history and used_times are written together for the address", func=mm.fi.qualname)
    sb = ctx.fa(f"{DB}.save_transaction_io_batch")
    hc = [x for x in sb.stmts(ast.Assign) if any(dotted(tg) == "history_count" for tg in x.targets)]
    ok = len(hc) == 1 and unparse(hc[0].value) == f"{sb.fi.params()[4]}.count(':') // 2"
    ctx.ob("C09-D4/UNIT", ok, sb.site(), "used_times = number of history entries (each `txid:height:` contributes two colons)", func=sb.fi.qualname, key="C09-D4/UNIT|used_times|batch")
    sh = ctx.fa(f"{DB}._set_address_history")
    ups = [c for c in sh.calls() if c.args and isinstance(c.args[0], ast.Constant) and "UPDATE pubkey_address" in str(c.args[0].value)]
    a, h = sh.fi.params()[1:3]
    ok = len(ups) == 1 and is_const(ups[0].args[0], "UPDATE pubkey_address SET history = ?, used_times = ? WHERE address = ?") and \
        len(ups[0].args) == 2 and norm_text(ups[0].args[1]) == norm_text(ast.parse(f"({h}, {h}.count(':') // 2, {a})", mode="eval").body)
    ctx.ob("C09-D4/UNIT", ok, sh.site(), "set_address_history stores the history with used_times = its entry count (the gap logic reads used_times)", func=sh.fi.qualname,
           key="C09-D4/UNIT|used_times|set")
    sa = ctx.fa(f"{DB}.set_address_history")
    ok = any(unparse(c) == f"self._set_address_history({', '.join(sa.fi.params()[1:3])})" for c in sa.calls())
    ctx.ob("C09-D4/DEP", ok, sa.site(), "set_address_history delegates unchanged", func=sa.fi.qualname)
    gl = ctx.fa(f"{L}.get_local_status_and_history")
    tt = unparse(gl.node)
    ok = "parts = history.split(':')[:-1]" in tt and "list(zip(parts[0::2], map(int, parts[1::2])))" in tt and \
        "hexlify(sha256(history.encode())).decode() if history else None" in tt and "history = (address_details['history'] if address_details else '') or ''" in tt
    ctx.ob("C09-D2/UNIT", ok, gl.site(), "local status = sha256 hex of the stored `txid:height:` string (None when empty), local history = its (txid, int height) pairs — the "
           "same format update_history writes and the server hashes", func=gl.fi.qualname)
    rd = [c for c in gl.calls(dotted_name="self.db.get_address")]
    for c in rd:
        ok = unparse(c) == f"self.db.get_address(address={gl.fi.params()[1]})"
        ctx.ob("C09-D2/UNIT", ok, gl.site(c), "the stored history is read for the address asked about", func=gl.fi.qualname)
        R.exact_gate(ctx, "C09-D2/UNIT", gl, c, f"not {gl.fi.params()[2]}", "the database is consulted exactly when no history string was handed in", key="C09-D2/UNIT|local|read-exact")
    ctx.floor("C09-D2/UNIT", "db.get_address in get_local_status_and_history", len(rd), 1, site=gl.site(), func=gl.fi.qualname)
    ok = any(dotted(c.func) == "self.db.run" and c.args and dotted(c.args[0]) == "__many" for c in sb.calls())
    ctx.ob("C09-D4/DEP", ok, sb.site(), "through AIOSQLite.run (begin … commit / rollback)", func=sb.fi.qualname)


_base_check_c09 = check


def check(ctx):            # noqa: F811  (extends the rules above)
    _base_check_c09(ctx)
    fetching(ctx, ctx.prog)
    foreign_scripts(ctx, ctx.prog)
    # "value locked in claims and supports is reported apart from spendable funds": the type column every output is stored with
    R.share(ctx, "C15", {"C15-T5": "C09-D7", "C15-T4": "C09-D7/CLASSIFY"})
    # "the wallet's stored history … equals the server's": transactions are stored and looked up under the id computed here
    R.share(ctx, "C05", {"C05-D3": "C09-D8"})


def foreign_scripts(ctx, prog):
    """"…including transactions that also carry arbitrary third-party outputs of any script kind": a script that matches none of the wallet's templates makes
    every classification property (is_pay_pubkey_hash, has_address, pubkey_hash, …) raise ValueError (Script.parse).  While a transaction of the history is
    stored, outputs and spent outputs that are NOT known to be the wallet's are classified — each such read must be shielded, or one foreign output keeps
    the whole address from ever syncing."""
    sp = ctx.fa("lbry.wallet.script.Script.parse")
    rz = [r for r in sp.stmts(ast.Raise) if r.exc is not None and "ValueError" in unparse(r.exc)]
    ctx.ob("C09-D9/TOTAL", True, sp.site(rz[0]) if rz else sp.site(), "Script.parse " + ("raises ValueError when no template matches (so readers must be shielded)" if rz else
           "does not raise on an unknown script (readers need no shield)"), func=sp.fi.qualname, key="C09-D9/TOTAL|parse-raises")
    if not rz:
        return
    io = ctx.fa(f"{DB}._transaction_io")
    CLASSIFY = {"has_address", "pubkey_hash", "script_hash", "get_address", "template", "values", "is_claim", "is_support", "is_pubkey_hash", "is_script_hash"}

    def catches_value_error(t):
        return any(h.type is None or any(x in ("ValueError", "Exception", "BaseException") for x in R.handler_types(h)) for h in t.handlers)

    def leaves(h):
        return bool(h.body) and isinstance(h.body[-1], (ast.Continue, ast.Return, ast.Raise, ast.Break))
    # the variables that denote not-known-to-be-ours outputs: loop variables over tx.outputs, and names bound to txi.txo_ref.txo
    foreign = {}
    for lp in io.stmts(ast.For):
        if unparse(lp.iter).endswith(".outputs") and isinstance(lp.target, ast.Name):
            foreign[lp.target.id] = lp
    for a in io.stmts(ast.Assign):
        if unparse(a.value).endswith(".txo_ref.txo") and len(a.targets) == 1 and isinstance(a.targets[0], ast.Name):
            foreign[a.targets[0].id] = a
    n = 0
    for x in io.local_nodes(ast.Attribute):
        base = x.value
        is_script_read = isinstance(base, ast.Attribute) and base.attr == "script" and isinstance(base.value, ast.Name) and base.value.id in foreign and (x.attr.startswith("is_") or x.attr in CLASSIFY)
        is_txo_read = isinstance(base, ast.Name) and base.id in foreign and x.attr in CLASSIFY
        if not (is_script_read or is_txo_read):
            continue
        var = base.value.id if is_script_read else base.id
        n += 1
        t = io.lexically_inside(x, lambda a: isinstance(a, ast.Try) and catches_value_error(a))
        shielded = t is not None and any(y is x for b in t.body for y in ast.walk(b))
        if not shielded:
            # probe idiom: an earlier statement of the same block classifies the same output inside a try whose ValueError handler leaves the iteration
            outer = R.stmt_of(x)
            while not shielded and outer is not None and outer is not io.fi.node and outer is not foreign.get(var):
                cur = outer
                while not shielded and cur is not None:
                    prev = R.prev_stmt(cur)
                    if isinstance(prev, ast.Try) and catches_value_error(prev) and all(leaves(h) for h in prev.handlers) and \
                            any(isinstance(y, ast.Attribute) and y.attr in ("template", "values") and unparse(y.value) == f"{var}.script" for b in prev.body for y in ast.walk(b)):
                        shielded = True
                    cur = prev
                outer = R.stmt_of(getattr(outer, "_parent", None))
        ctx.ob("C09-D9/TOTAL", shielded, io.site(x), f"`{unparse(x)}` — classification of an output that need not be the wallet's — cannot end the storing of the transaction "
               "(inside a try that handles ValueError, or after a probe of the same script whose failure skips the output)", func=io.fi.qualname,
               detail="" if shielded else "a third-party output of a script kind without template raises ValueError here: the history of the address is never stored",
               key=f"C09-D9/TOTAL|_transaction_io|{unparse(x)}|{n}")
    ctx.floor("C09-D9/TOTAL", "classification reads on foreign outputs in _transaction_io", n, 3, site=io.site(), func=io.fi.qualname)


def fetching(ctx, prog):
    """every requested transaction is fetched and handed on: batching, fetching and yielding under exactly the functions' own tests"""
    rt = ctx.fa(f"{L}.request_transactions")
    tr, ca = rt.fi.params()[1:3]
    rv = [ca, "cached_tx is not None", "cached_tx.tx is not None", "cached_tx.tx.is_verified", "len(batches[-1]) == 100", "batches[-1]", "cache_hits"]
    R.effect_table(ctx, "C09-D6/FETCH", rt, rv, [
        ("batches = [[]]", "", "batching starts with one empty batch"),
        ("remote_heights[txid] = height", "", "each transaction to fetch is remembered with its remote height"),
        ("batches.append([])", "len(batches[-1]) == 100", "a full batch (100) opens a new one"),
        ("batches[-1].append(txid)", "", "…and the transaction joins the current batch"),
        ("batches.pop()", "not batches[-1]", "a trailing empty batch is dropped"),
        ("txs = await self._single_batch(batch, remote_heights)", "", "every batch is fetched with the remembered heights"),
        ("yield txs", "", "…and handed to the caller"),
        ("continue", f"{ca} and cached_tx is not None and cached_tx.tx is not None and cached_tx.tx.is_verified", "only a verified cache hit is skipped (and only when the caller allowed the cache)"),
    ], "fetch: ")
    lp = rt.stmts(ast.For)
    ok = len(lp) >= 2 and norm_text(lp[0].target) == "(txid, height)" and norm_text(lp[0].iter).startswith(f"sorted({tr}") and any(norm_text(f.iter) == "batches" and dotted(f.target) == "batch" for f in lp)
    ctx.ob("C09-D6/FETCH", ok, rt.site(), "fetch: every requested (txid, height) pair is visited, and every batch built is processed", func=rt.fi.qualname)
    dflt = {a.arg: d for a, d in zip(reversed(rt.node.args.args), reversed(rt.node.args.defaults))}
    ctx.ob("C09-D6/FETCH", is_const(dflt.get(ca), False), rt.site(), "fetch: the cache is off unless asked for", func=rt.fi.qualname, key="C09-D6/FETCH|cached-default")
    sb = ctx.fa(f"{L}._single_batch")
    b, rh = sb.fi.params()[1:3]
    R.effect_table(ctx, "C09-D6/FETCH", sb, [], [
        (f"batch_result = await self.network.retriable_call(self.network.get_transaction_batch, {b}, not unrestriced)", "", "the batch is requested from the server"),
        (f"remote_height = {rh}[txid]", "", "each result is paired with the height it was announced at"),
        ("tx = Transaction(unhexlify(raw), height=remote_height)", "", "…parsed from the raw bytes at that height"),
        ("txs[tx.id] = tx", "", "…kept under its own id"),
        ("await self.maybe_verify_transaction(tx, remote_height, merkle)", "", "…and checked against the supplied merkle proof"),
        ("return txs", "", "all of them are returned"),
    ], "fetch: ")
    lp = sb.stmts(ast.For)
    ok = len(lp) == 1 and norm_text(lp[0].iter) == "batch_result.items()" and norm_text(lp[0].target) == "(txid, (raw, merkle))"
    ctx.ob("C09-D6/FETCH", ok, sb.site(), "fetch: every transaction of the server's answer is processed", func=sb.fi.qualname)
